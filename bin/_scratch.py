"""shared by seed-matrix / neutral-matrix: run checks against a scratch copy of /repo with one patch applied (nothing in /repo is touched)"""
import glob
import json
import os
import shutil
import subprocess
import tempfile

ROOT = os.path.abspath(os.path.join(os.path.dirname(os.path.abspath(__file__)), '..'))
REPO = '/repo'


def run_on_scratch(patch, pids):
    """-> None if the patch does not apply, else {pid: (exit, [violation keys])}"""
    tmp = tempfile.mkdtemp(prefix='tsa-scr-')
    try:
        subprocess.check_call(['rsync', '-a', '--exclude', 'target', '--exclude', '.git', REPO + '/', tmp + '/'])
        if subprocess.call(['patch', '-s', '-p1', '-d', tmp, '-i', patch], stdout=subprocess.DEVNULL) != 0:
            return None
        out = {}
        for pid in pids:
            ev = os.path.join(tmp, '.evidence-' + pid)
            env = dict(os.environ, TSA_REPO=tmp, TSA_EVIDENCE_DIR=ev)
            p = subprocess.run([os.path.join(ROOT, 'bin', 'check'), pid, '--tier', 'quick'], env=env, stdout=subprocess.PIPE, stderr=subprocess.STDOUT, text=True)
            keys = []
            for vf in glob.glob(os.path.join(ev, 'violations', pid + '-*.json')):
                v = json.load(open(vf))
                keys.append(v.get('key') or v.get('instance') or '')
            out[pid] = (p.returncode, sorted(keys))
        return out
    finally:
        shutil.rmtree(tmp, ignore_errors=True)
