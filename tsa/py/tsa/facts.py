"""Facts loader: the exported type-checked program as Python dicts, with indexes."""
import json
import os
import pickle
import re

from . import extract

CRATES = {
    'packet': 'trippy_packet.lib', 'core': 'trippy_core.lib', 'tui': 'trippy_tui.lib', 'dns': 'trippy_dns.lib',
    'privilege': 'trippy_privilege.lib', 'trippy': 'trippy.lib', 'trip': 'trip.bin',
}


def strip_generics(p):
    """Drop `::<...>` generic argument lists and lifetimes: `Ipv4Packet::<'a>::payload` -> `Ipv4Packet::payload`."""
    out = []
    depth = 0
    i = 0
    while i < len(p):
        if depth == 0 and p.startswith('::<', i):
            depth = 1
            i += 3
            continue
        if depth > 0:
            if p[i] == '<':
                depth += 1
            elif p[i] == '>' and p[i - 1] != '-':
                depth -= 1
            i += 1
            continue
        out.append(p[i])
        i += 1
    return ''.join(out)


class Program:
    def __init__(self, profile='dev', crates=('packet', 'core', 'tui')):
        self.profile = profile
        self.dir = extract.facts_dir(profile)
        self.tree_hash = os.path.basename(os.path.dirname(self.dir))
        self.fns = {}       # path -> fn dict
        self.adts = {}
        self.consts = {}
        self.impls = []
        self.crate_meta = {}
        self.fn_crate = {}
        for c in crates:
            self._load(c)
        self._short = None

    def _load(self, c):
        f = os.path.join(self.dir, CRATES[c] + '.facts.json')
        pk = f + '.pickle'
        if os.path.exists(pk) and os.path.getmtime(pk) >= os.path.getmtime(f):
            with open(pk, 'rb') as fh:
                d = pickle.load(fh)
        else:
            with open(f) as fh:
                d = json.load(fh)
            try:
                with open(pk + '.tmp%d' % os.getpid(), 'wb') as fh:
                    pickle.dump(d, fh, protocol=pickle.HIGHEST_PROTOCOL)
                os.replace(pk + '.tmp%d' % os.getpid(), pk)
            except OSError:
                pass
        self.crate_meta[c] = {k: d[k] for k in ('crate', 'kind', 'crate_attrs', 'cmdline', 'overflow_checks',
                                                 'debug_assertions')}
        for fn in d['fns']:
            fn['crate'] = c
            # two closures can share a def_path_str only if they differ in parent; paths are unique per crate
            self.fns[fn['path']] = fn
        for a in d['adts']:
            a['crate'] = c
            self.adts[a['path']] = a
        for k in d['consts']:
            self.consts[k['path']] = k
        for im in d['impls']:
            im['crate'] = c
            self.impls.append(im)

    # ---- lookup ---------------------------------------------------------------------------------------
    def fn(self, path):
        return self.fns[path]

    def find(self, pattern, unique=True):
        """Find functions whose generic-stripped path matches the regex (search)."""
        rx = re.compile(pattern)
        if self._short is None:
            self._short = {p: strip_generics(p) for p in self.fns}
        r = [p for p, s in self._short.items() if rx.search(s)]
        if unique:
            if len(r) != 1:
                raise AnchorLost('anchor %r matches %d functions: %s' % (pattern, len(r), r[:5]))
            return self.fns[r[0]]
        return [self.fns[p] for p in sorted(r)]

    def short(self, path):
        if self._short is None:
            self._short = {p: strip_generics(p) for p in self.fns}
        return self._short.get(path) or strip_generics(path)

    def const_val(self, path):
        c = self.consts.get(path)
        if c is None:
            raise AnchorLost('constant %s not found' % path)
        if c['bits'] == '':
            raise AnchorLost('constant %s has no scalar value' % path)
        return int(c['bits'])

    def adt(self, path):
        a = self.adts.get(path)
        if a is None:
            raise AnchorLost('type %s not found' % path)
        return a

    def variant_names(self, path):
        return [v['name'] for v in self.adt(path)['variants']]


class AnchorLost(Exception):
    pass


def loc(sp):
    return '%s:%d' % (sp['file'], sp['line']) if sp else '?'


def fn_loc(fn):
    return loc(fn['span'])


def is_place(o):
    return 'copy' in o or 'move' in o


def op_place(o):
    return o.get('copy') or o.get('move')


def const_int(o):
    if o.get('const') and 'bits' in o:
        return int(o['bits'])
    return None


def signed(v, size):
    if v >= 1 << (size * 8 - 1):
        return v - (1 << (size * 8))
    return v
