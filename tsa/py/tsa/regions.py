"""Region summarisation for long straight-line functions (TrippyConfig::build_config, key loops …).

The blocks that dominate a chosen target block form a chain entry = d0, d1, …, dn = target; everything between two consecutive chain blocks is a
single-entry region (a `match` with its arms, an `if`, a `?`). Each region is explored on its own from the state at its entry; when several
abstract traces reach the next chain block they are merged: locals whose values differ become named symbols `match:<local>` and the region's
decision table — rows (decisions, events, value per local) — is recorded. Trace count is then the sum, not the product, of the regions' sizes.
Traces that leave a region without reaching the next chain block (early returns, panics) are reported per region.
"""
from .cfg import CFG
from .sym import St, key


class Region:
    def __init__(self, head, join):
        self.head, self.join = head, join
        self.rows = []         # (decisions, events, {local name: value}, state)
        self.exits = []        # outcomes that left the function inside this region
        self.names = []


def segmented(eng, fn, args, st, target, keep_single=False):
    """-> (state at `target`, fid, [Region])"""
    g = CFG(fn)
    dom = g.dom()
    chain = sorted([b for b in dom[target]], key=lambda b: len(dom[b]))
    st.nframes += 1
    fid = st.nframes
    for i, a in enumerate(args):
        st.mem[(fid, i + 1)] = a
    s = st
    regions = []
    for i in range(len(chain) - 1):
        head, join = chain[i], chain[i + 1]
        outs = eng.run_region(fn, fid, head, s, {join})
        stops = [o for o in outs if o.kind == 'stop']
        other = [o for o in outs if o.kind != 'stop']
        if not stops:
            raise RuntimeError('region %d→%d of %s has no trace reaching its join' % (head, join, fn['path']))
        nd, ne = len(s.decisions), len(s.events)
        if len(stops) == 1 and not other and not keep_single:
            s = stops[0].st
            continue
        r = Region(head, join)
        r.exits = other
        r.base_decisions = nd
        r.base_events = ne
        differing = []
        keys = set()
        for o in stops:
            keys |= {k for k in o.st.mem if isinstance(k, tuple) and k[0] == fid and isinstance(k[1], int)}
        for k in sorted(keys, key=lambda k: k[1]):
            vals = {key(o.st.mem.get(k)) for o in stops}
            if len(vals) > 1:
                differing.append(k)
        for o in stops:
            row = {}
            for k in differing:
                row[local_name(fn, k[1])] = o.st.mem.get(k)
            r.rows.append((o.st.decisions[nd:], o.st.events[ne:], row, o.st))
        for o in other:
            pass
        r.names = [local_name(fn, k[1]) for k in differing]
        regions.append(r)
        if len(stops) == 1:
            s = stops[0].st
            continue
        base = stops[0].st.fork()
        base.decisions = list(s.decisions)
        base.events = list(s.events)
        base.facts = dict(s.facts)
        for k in differing:
            base.mem[k] = ('sym', 'match:%s' % local_name(fn, k[1]))
        s = base
    return s, fid, regions


def local_name(fn, l):
    nm = fn['locals'][l].get('name') if l < len(fn['locals']) else ''
    return nm or '_%d' % l
