"""A6: bit-provenance abstract domain for the packet accessors.

A value of an n-bit quantity is a vector of n cells (LSB first), each one of
   0 | 1 | ('In', byte k, bit j)  pre-state buffer bit | ('Val', j)  bit j of the setter argument | ('OR', a, b) | 'T' (unknown).
Transfer functions are exact for the operator set the accessors use (and/or/xor with anything, shifts by constants, not,
integer casts, array aggregates / constant indexing, from/to_{be,le,ne}_bytes, address <-> octets); everything else yields 'T',
which fails the obligation. The six Buffer primitives are modelled axiomatically over an abstract buffer (byte k -> 8 cells,
default In(k, j)); that model is itself checked against Buffer's MIR in rules/c12.py.
"""
import re

from .sym import Engine, St, C, is_c, INT_W, TOP, UNIT, Outcome

T = 'T'


def bv_const(v, n):
    return ('bv', [(v >> i) & 1 for i in range(n)])


def in_byte(k):
    return ('bv', [('In', k, j) for j in range(8)])


def val_bits(n, base=0):
    return ('bv', [('Val', base + j) for j in range(n)])


def is_bv(v):
    return isinstance(v, tuple) and v and v[0] == 'bv'


def cell_and(x, y):
    if x == 0 or y == 0:
        return 0
    if x == 1:
        return y
    if y == 1:
        return x
    if x == y:
        return x
    return T


def cell_or(x, y):
    if x == 1 or y == 1:
        return 1
    if x == 0:
        return y
    if y == 0:
        return x
    if x == y:
        return x
    if x == T or y == T:
        return T
    return ('OR', x, y)


def cell_xor(x, y):
    if x == 0:
        return y
    if y == 0:
        return x
    if x in (0, 1) and y in (0, 1):
        return x ^ y
    return T


def cell_not(x):
    if x in (0, 1):
        return 1 - x
    return T


class BitEngine(Engine):
    def __init__(self, prog, **kw):
        kw.setdefault('inline_depth', 4)
        super().__init__(prog, **kw)

    # ---- abstract buffer in the state ---------------------------------------------------------------
    @staticmethod
    def buf(s):
        b = s.heap.get('#buf')
        if b is None:
            b = ('bufmap', {})
            s.heap['#buf'] = b
        return b[1]

    def buf_get(self, s, k):
        return ('bv', list(self.buf(s).get(k, in_byte(k)[1])))

    def buf_set(self, s, k, v):
        d = dict(self.buf(s))
        d[k] = list(self.as_bits(v, 8))
        s.heap['#buf'] = ('bufmap', d)

    def load(self, root, proj, s):
        if root is not None and root[0] == 'B':
            return self.buf_get(s, root[1])
        return super().load(root, proj, s)

    def store(self, root, proj, val, s):
        if root is not None and root[0] == 'B':
            self.buf_set(s, root[1], val)
            return True
        return super().store(root, proj, val, s)

    # ---- values -----------------------------------------------------------------------------------
    def as_bits(self, v, n):
        if is_c(v):
            return [(v[1] >> i) & 1 for i in range(n)]
        if is_bv(v):
            c = list(v[1])
            return (c + [0] * n)[:n]
        if isinstance(v, tuple) and v[0] == 'adt' and len(v[4]) == 1:
            return self.as_bits(v[4][0], n)
        return [T] * n

    def width_of(self, v, default):
        if is_bv(v):
            return len(v[1])
        return default

    def binop(self, op, a, b, aty=''):
        wo = op.endswith('WithOverflow')
        base = op.replace('WithOverflow', '').replace('Unchecked', '')
        if (is_bv(a) or is_bv(b)) and base in ('BitAnd', 'BitOr', 'BitXor', 'Shl', 'Shr', 'Add', 'Sub', 'Mul', 'Eq', 'Ne', 'Lt', 'Le', 'Gt', 'Ge'):
            n = INT_W.get(aty) or self.width_of(a, None) or self.width_of(b, 8)
            if base in ('BitAnd', 'BitOr', 'BitXor'):
                A, B = self.as_bits(a, n), self.as_bits(b, n)
                f = {'BitAnd': cell_and, 'BitOr': cell_or, 'BitXor': cell_xor}[base]
                return ('bv', [f(x, y) for x, y in zip(A, B)])
            if base in ('Shl', 'Shr') and is_c(b):
                A = self.as_bits(a, n)
                k = b[1]
                r = ([0] * k + A)[:n] if base == 'Shl' else (A[k:] + [0] * k)[:n]
                r = ('bv', r)
                return ('tuple', [r, C(0)]) if wo else r
            r = ('bv', [T] * n)
            return ('tuple', [r, C(0)]) if wo else r
        return super().binop(op, a, b, aty)

    def rvalue(self, rv, fn, fid, s):
        k = rv['k']
        if k == 'cast':
            v = self.operand(rv['a'], fn, fid, s)
            ty = rv['ty']
            if is_bv(v) and ty in INT_W:
                return ('bv', self.as_bits(v, INT_W[ty]))
            if is_bv(v):
                return v
        if k == 'un' and rv['op'] == 'Not':
            v = self.operand(rv['a'], fn, fid, s)
            if is_bv(v):
                return ('bv', [cell_not(x) for x in v[1]])
        return super().rvalue(rv, fn, fid, s)

    def project(self, v, step, s):
        if step[0] == 'i' and isinstance(v, tuple) and v[0] == 'arr' and is_c(step[1]) and step[1][1] < len(v[1]):
            return v[1][step[1][1]]
        return super().project(v, step, s)

    # ---- calls --------------------------------------------------------------------------------------
    def summary(self, callee, t, args, s, fn, fid, depth):
        c = callee
        one = lambda v: [(v, s)]
        dv = lambda i: self._deref_val(args[i], s)
        if c.startswith('trippy_packet::buffer::Buffer::'):
            name = re.sub(r'::<.*', '', c.split('Buffer::<\'_>::')[-1] if "Buffer::<'_>::" in c else c.split('::')[-1])
            name = name.split('::')[0]
            off = dv(1) if len(args) > 1 else None
            if name == 'read':
                if is_c(off):
                    return one(self.buf_get(s, off[1]))
                return one(('bv', [T] * 8))
            if name == 'write':
                if is_c(off):
                    return one(('ref', ('B', off[1]), ()))
                self._emit_outcome(fid, Outcome('cut', TOP, s, ('write at unknown offset', t['sp'])))
                return None
            if name == 'get_bytes':
                n = int(t['gargs'][-1]) if t.get('gargs') else None
                if is_c(off) and n is not None:
                    return one(('arr', [self.buf_get(s, off[1] + i) for i in range(n)]))
                return one(TOP)
            if name == 'set_bytes':
                arr = dv(2)
                if is_c(off) and isinstance(arr, tuple) and arr[0] == 'arr':
                    for i, b in enumerate(arr[1]):
                        self.buf_set(s, off[1] + i, b)
                    return one(UNIT)
                self._emit_outcome(fid, Outcome('cut', TOP, s, ('set_bytes with unknown operands', t['sp'])))
                return None
            if name in ('as_slice', 'as_slice_mut'):
                return one(('sym', '#slice'))
        m = re.fullmatch(r'core::num::<impl (u\d+)>::from_(be|le|ne)_bytes', c)
        if m:
            arr = dv(0)
            if isinstance(arr, tuple) and arr[0] == 'arr':
                order = list(arr[1]) if m.group(2) in ('le', 'ne') else list(reversed(arr[1]))
                bits = []
                for b in order:
                    bits += self.as_bits(b, 8)
                return one(('bv', bits))
            return one(('bv', [T] * int(m.group(1)[1:])))
        m = re.fullmatch(r'core::num::<impl (u\d+)>::to_(be|le|ne)_bytes', c)
        if m:
            w = int(m.group(1)[1:])
            v = self.as_bits(dv(0), w)
            by = [('bv', v[i * 8:(i + 1) * 8]) for i in range(w // 8)]
            if m.group(2) == 'be':
                by = list(reversed(by))
            return one(('arr', by))
        if re.search(r'core::net::ip_addr::Ipv[46]Addr', c) and (c.endswith('::from') or c.endswith('::octets') or c.endswith('::new')):
            v = dv(0)
            if c.endswith('::new'):
                return one(TOP)
            return one(v)
        # enum <-> number conversions are whole-byte bijections, checked separately (C12.O7)
        lf = self.p.fns.get(c)
        if lf is not None and lf['crate'] == 'packet' and lf.get('name') in ('from', 'id', 'new') and lf.get('impl_adt') and \
                self.p.adts.get(lf['impl_adt'], {}).get('enum'):
            return one(dv(0) if lf['name'] != 'new' else TOP)
        if lf is not None and lf.get('trait_item') == 'core::convert::From::from' and lf.get('impl_adt') and \
                self.p.adts.get(lf['impl_adt'], {}).get('enum'):
            return one(dv(0))
        return super().summary(callee, t, args, s, fn, fid, depth)


def flatten_be(v, eng):
    """getter result -> bit list (LSB first) of the big-endian integer it denotes"""
    if is_bv(v):
        return list(v[1])
    if is_c(v):
        return None
    if isinstance(v, tuple) and v[0] == 'adt' and len(v[4]) == 1:
        return flatten_be(v[4][0], eng)
    if isinstance(v, tuple) and v[0] == 'arr':
        bits = []
        for b in reversed(v[1]):
            x = flatten_be(b, eng)
            if x is None:
                return None
            bits += x
        return bits
    return None


def show_cells(cells):
    def c(x):
        if x in (0, 1):
            return str(x)
        if x == T:
            return 'T'
        if x[0] == 'In':
            return 'i%d.%d' % (x[1], x[2])
        if x[0] == 'Val':
            return 'v%d' % x[1]
        if x[0] == 'OR':
            return '(%s|%s)' % (c(x[1]), c(x[2]))
        return '?'
    return ' '.join(c(x) for x in reversed(cells))
