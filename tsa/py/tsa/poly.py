"""Polynomial normal form of arithmetic terms (exact, over the rationals) — to compare an update expression extracted from the
code with a recurrence written down from its mathematical definition, up to algebraic equivalence (floating-point rounding aside).
Division by a non-constant term d is multiplication by the formal atom inv(d)."""
from fractions import Fraction

from .sym import is_c
from .tables import vshow


def _mul(p, q):
    r = {}
    for m1, c1 in p.items():
        for m2, c2 in q.items():
            d = dict(m1)
            for a, e in m2:
                d[a] = d.get(a, 0) + e
            # inv(x)·x = 1
            for a in list(d):
                if a.startswith('inv(') and a[4:-1] in d:
                    b = a[4:-1]
                    k = min(d[a], d[b])
                    d[a] -= k
                    d[b] -= k
            m = tuple(sorted((a, e) for a, e in d.items() if e))
            r[m] = r.get(m, 0) + c1 * c2
    return {m: c for m, c in r.items() if c != 0}


def _add(p, q, k=1):
    r = dict(p)
    for m, c in q.items():
        r[m] = r.get(m, 0) + k * c
    return {m: c for m, c in r.items() if c != 0}


def poly(v, atom_of=None):
    """term -> {monomial: coefficient}; non-arithmetic subterms are atoms (named by vshow or by atom_of)"""
    if is_c(v):
        return {(): Fraction(v[1])} if v[1] else {}
    if atom_of is not None:
        n = atom_of(v)
        if n:
            return {((n, 1),): Fraction(1)}
    if isinstance(v, tuple) and v[0] == 'term' and v[1] in ('Add', 'Sub', 'Mul', 'Div') and len(v[2]) == 2:
        a, b = poly(v[2][0], atom_of), poly(v[2][1], atom_of)
        if v[1] == 'Add':
            return _add(a, b)
        if v[1] == 'Sub':
            return _add(a, b, -1)
        if v[1] == 'Mul':
            return _mul(a, b)
        if len(b) == 1 and list(b)[0] == ():
            return {m: c / b[()] for m, c in a.items()}
        # division by a non-constant: formal inverse of the whole divisor
        name = 'inv(%s)' % _name(v[2][1], atom_of)
        return _mul(a, {((name, 1),): Fraction(1)})
    if isinstance(v, tuple) and v[0] == 'adt' and len(v[4]) == 1:
        return poly(v[4][0], atom_of)
    return {((_name(v, atom_of), 1),): Fraction(1)}


def _name(v, atom_of):
    if atom_of:
        n = atom_of(v)
        if n:
            return n
    return vshow(v)


def equal(p, q):
    return _add(p, q, -1) == {}


def show_poly(p):
    out = []
    for m, c in sorted(p.items()):
        mon = '·'.join('%s^%d' % (a[:24], e) if e != 1 else a[:24] for a, e in m) or '1'
        out.append('%s·%s' % (c, mon))
    return ' + '.join(out) or '0'
