"""A1: who-may-write-field. A write is an assignment whose place goes through the field, a `&mut` borrow of a
place through the field (the borrow may be written through), or an aggregate that initialises the struct."""
from collections import defaultdict


def field_writers(prog, adt, crate=None):
    """-> {field name: [(fn path, line, kind)]}, kind in assign | mutborrow | init"""
    out = defaultdict(list)
    a = prog.adts[adt]
    fields = [f['name'] for f in a['variants'][0]['fields']]
    for path, fn in prog.fns.items():
        if crate and fn['crate'] != crate:
            continue
        for b in fn['blocks']:
            if b['cleanup']:
                continue
            for st in b['stmts']:
                if 'lhs' not in st:
                    continue
                for e in st['lhs']['p']:
                    if e['k'] == 'field' and e.get('of') == adt:
                        out[e['n']].append((path, st['sp']['line'], 'assign'))
                        break
                rv = st['rv']
                if rv['k'] in ('ref', 'rawptr') and (rv.get('mut') or rv['k'] == 'rawptr'):
                    for e in rv['p']['p']:
                        if e['k'] == 'field' and e.get('of') == adt:
                            out[e['n']].append((path, st['sp']['line'], 'mutborrow'))
                            break
                if rv['k'] == 'agg' and rv['kind'].get('a') == 'adt' and rv['kind']['def'] == adt:
                    for f in fields:
                        out[f].append((path, st['sp']['line'], 'init'))
            t = b['term']
            if t['k'] == 'call':
                for e in t['dest']['p']:
                    if e['k'] == 'field' and e.get('of') == adt:
                        out[e['n']].append((path, t['sp']['line'], 'assign'))
                        break
    return out


def writer_fns(prog, adt, field, kinds=('assign', 'mutborrow', 'init')):
    w = field_writers(prog, adt)
    return sorted({p for (p, _, k) in w.get(field, ()) if k in kinds})
