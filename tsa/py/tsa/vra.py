"""A5: panic / overflow / loop audit by value-range reasoning over abstract traces.

Every function in scope is analysed *standalone* on arbitrary arguments (symbols bounded only by their types and by stated
type invariants such as "a packet view's buffer is at least its minimum header size"), with local callees inlined to a bounded
depth. At every panic-capable construct met on a trace — overflow / bounds / division `Assert`s, slice indexing and splitting,
`copy_from_slice`, `unwrap`/`expect`, checked arithmetic of newtypes, explicit panics — the goal (e.g. `end ≤ len`) is turned into
linear inequalities over *atoms* (uninterpreted terms) and proved from: the atoms' intervals (type widths, masks, shifts, min/max,
slice lengths), the literal branch decisions of the trace, and facts established by earlier passed checks. A site is discharged
when it is proved on every trace of its own function, or — if that needs the caller's guard — on every trace of every caller that
reaches it (bounded caller depth). Loops are handled soundly by havocking everything the loop body may modify at the loop
head; a site that is never reached while some trace was cut counts as unknown (fail closed).
"""
import re
from collections import defaultdict

from .cfg import CFG
from .facts import op_place
from .sym import Engine, St, Outcome, C, is_c, key, show, short, INT_W, TOP, UNIT, contains
from .tables import vshow

ISIZE_MAX = 2 ** 63 - 1


def ty_range(ty):
    if ty in INT_W and ty != 'bool' and ty != 'char':
        w = INT_W[ty]
        if ty.startswith('u'):
            return (0, 2 ** w - 1)
        return (-(2 ** (w - 1)), 2 ** (w - 1) - 1)
    if ty == 'bool':
        return (0, 1)
    return None


class Lin:
    __slots__ = ('c', 't')

    def __init__(self, c=0, t=None):
        self.c = c
        self.t = dict(t or {})

    def add(self, o, k=1):
        t = dict(self.t)
        for a, v in o.t.items():
            t[a] = t.get(a, 0) + k * v
            if t[a] == 0:
                del t[a]
        return Lin(self.c + k * o.c, t)

    def scale(self, k):
        return Lin(self.c * k, {a: v * k for a, v in self.t.items()}) if k else Lin(0)

    def isconst(self):
        return not self.t

    def __repr__(self):
        return ' + '.join(['%s*%s' % (v, a[:40]) if v != 1 else a[:40] for a, v in self.t.items()] + [str(self.c)])


class Prover:
    """linear reasoning over atoms with interval bounds; facts are Lin ≥ 0"""

    def __init__(self, eng):
        self.eng = eng
        self.atoms = {}       # atom name -> term
        self._names = {}
        self._bcache = {}

    # ---- linearisation ---------------------------------------------------------------------------------
    def lin(self, v, s=None):
        if not isinstance(v, tuple):
            return None
        k = v[0]
        if k == 'c':
            return Lin(v[1])
        if k == 'adt' and len(v[4]) == 1 and v[1] in self.eng.p.adts and not self.eng.p.adts[v[1]]['enum']:
            return self.lin(v[4][0])
        if k == 'term':
            op, a = v[1], v[2]
            if op in ('call:String::len', 'call:str::len') and len(a) == 1:
                # byte length of a string: the same quantity as len() of the str it derefs to
                x0 = a[0]
                while isinstance(x0, tuple) and x0[0] == 'term' and x0[1] in ('call:String::deref', 'call:String::as_str', 'call:Cow::deref') and x0[2]:
                    x0 = x0[2][0]
                return self.lin(('term', 'len', [x0]))
            if op in ('Add', 'Sub') and len(a) == 2:
                x, y = self.lin(a[0]), self.lin(a[1])
                if x is not None and y is not None:
                    return x.add(y, 1 if op == 'Add' else -1)
            if op == 'Mul' and len(a) == 2:
                x, y = self.lin(a[0]), self.lin(a[1])
                if x is not None and y is not None:
                    if x.isconst():
                        return y.scale(x.c)
                    if y.isconst():
                        return x.scale(y.c)
            if op == 'Shl' and len(a) == 2 and is_c(a[1]):
                x = self.lin(a[0])
                if x is not None and self.eng.no_ovf.get(key(v)):
                    return x.scale(2 ** a[1][1])
            if op == 'len' and isinstance(a[0], tuple) and a[0][0] == 'term' and a[0][1] == 'subslice':
                base, lo, hi = a[0][2]
                x, y = self.lin(hi), self.lin(lo)
                if x is not None and y is not None:
                    return x.add(y, -1)
            if op == 'len' and isinstance(a[0], tuple) and a[0][0] == 'term' and a[0][1].startswith('havoc:') and \
                    isinstance(a[0][2][0], tuple) and (a[0][2][0][0] == 'arr' or (a[0][2][0][0] == 'term' and a[0][2][0][1] == 'repeat')):
                return self.lin(('term', 'len', [a[0][2][0]]))
            if op == 'len' and isinstance(a[0], tuple) and a[0][0] == 'arr':
                return Lin(len(a[0][1]))
            if op == 'len' and isinstance(a[0], tuple) and a[0][0] in ('term', 'sym') and vshow(a[0]) in self.eng.arr_len:
                return Lin(self.eng.arr_len[vshow(a[0])])
            if op == 'len' and isinstance(a[0], tuple) and a[0][0] == 'term' and a[0][1] == 'repeat' and is_c(a[0][2][1]):
                return Lin(a[0][2][1][1])
            if op.startswith('as_'):
                # integer cast: value-preserving when the source provably fits the target type
                src = self.lin(a[0])
                r = ty_range(op[3:])
                if src is not None and r is not None:
                    lo, hi = self.lo(src), self.hi(src)
                    if lo is not None and hi is not None and lo >= r[0] and hi <= r[1]:
                        return src
        if k in ('sym', 'term', 'rec'):
            n = self.name_of(v)
            self.atoms[n] = v
            return Lin(0, {n: 1})
        return None

    def name_of(self, v):
        m = self._names.get(id(v))
        if m is not None and m[0] is v:
            return m[1]
        n = vshow(v)
        self._names[id(v)] = (v, n)
        return n

    # ---- bounds of atoms -----------------------------------------------------------------------------
    def bounds(self, name, depth=0):
        c = self._bcache.get(name)
        if c is not None:
            return c
        r = self._bounds(name, depth)
        if depth == 0:
            self._bcache[name] = r
        return r

    def _bounds(self, name, depth=0):
        v = self.atoms.get(name)
        if v is None or depth > 6:
            return (None, None)
        ty = self.eng.types.get(key(v))
        tr = ty_range(ty) if ty else None
        lo, hi = (tr if tr else (None, None))
        if v[0] == 'term':
            op, a = v[1], v[2]
            sub = lambda x: self._range(x, depth + 1)
            if op == 'len':
                mn = self.eng.min_len(a[0])
                lo, hi = max(lo or 0, mn), min(hi if hi is not None else ISIZE_MAX, ISIZE_MAX)
                x0 = a[0]
                while isinstance(x0, tuple) and x0[0] == 'term' and x0[1] in ('call:Vec::deref', 'call:Vec::as_slice', 'call:Vec::deref_mut') and x0[2]:
                    x0 = x0[2][0]
                mm = re.search(r'#len=(\d+)$', x0[1]) if isinstance(x0, tuple) and x0[0] in ('term', 'sym') and isinstance(x0[1], str) else None
                if mm:
                    lo = hi = int(mm.group(1))
            elif op == 'BitAnd' and len(a) == 2:
                cands = [x[1] for x in a if is_c(x)]
                r0, r1 = sub(a[0]), sub(a[1])
                his = [h for h in (r0[1], r1[1]) if h is not None]
                if his:
                    lo, hi = 0, min(his) if hi is None else min(hi, min(his))
            elif op == 'Shr' and len(a) == 2 and is_c(a[1]):
                r0 = sub(a[0])
                if r0[1] is not None and (r0[0] or 0) >= 0:
                    lo, hi = 0, r0[1] >> a[1][1]
            elif op == 'Shl' and len(a) == 2 and is_c(a[1]):
                r0 = sub(a[0])
                if r0[1] is not None and tr:
                    lo, hi = 0, min(tr[1], r0[1] << a[1][1])
            elif op == 'Rem' and len(a) == 2:
                r1 = sub(a[1])
                if r1[1] is not None and (r1[0] or 0) >= 1:
                    lo, hi = 0, r1[1] - 1
            elif op == 'Div' and len(a) == 2 and is_c(a[1]) and a[1][1] > 0:
                r0 = sub(a[0])
                if r0[0] is not None and r0[1] is not None and r0[0] >= 0:
                    lo, hi = r0[0] // a[1][1], r0[1] // a[1][1]
            elif op in ('Min', 'min') and len(a) == 2:
                r0, r1 = sub(a[0]), sub(a[1])
                his = [h for h in (r0[1], r1[1]) if h is not None]
                if his:
                    hi = min(his) if hi is None else min(hi, min(his))
                if r0[0] is not None and r1[0] is not None:
                    lo = min(r0[0], r1[0]) if lo is None else max(lo, min(r0[0], r1[0]))
            elif op in ('Max', 'max') and len(a) == 2:
                r0, r1 = sub(a[0]), sub(a[1])
                if r0[1] is not None and r1[1] is not None:
                    hi = max(r0[1], r1[1]) if hi is None else min(hi, max(r0[1], r1[1]))
                los = [l for l in (r0[0], r1[0]) if l is not None]
                if los:
                    lo = max(los) if lo is None else max(lo, max(los))
            elif op == 'saturating_sub' and len(a) == 2:
                r0 = sub(a[0])
                lo = 0
                if r0[1] is not None:
                    hi = r0[1] if hi is None else min(hi, r0[1])
            elif op == 'BitOr' and len(a) == 2:
                r0, r1 = sub(a[0]), sub(a[1])
                if r0[1] is not None and r1[1] is not None and (r0[0] or 0) >= 0 and (r1[0] or 0) >= 0:
                    m = (1 << max(r0[1], r1[1]).bit_length()) - 1
                    lo, hi = 0, m if hi is None else min(hi, m)
            elif op.startswith('as_'):
                r = ty_range(op[3:])
                if r:
                    lo, hi = r
                    r0 = sub(a[0])
                    if r0[0] is not None and r0[1] is not None and r0[0] >= r[0] and r0[1] <= r[1]:
                        lo, hi = r0
            elif op == 'index' and isinstance(a[0], tuple):
                et = self.eng.elem_type(a[0])
                r = ty_range(et) if et else None
                if r and lo is None:
                    lo, hi = r
        for (rx, hlo, hhi) in self.eng.range_hints:
            if rx.search(name):
                if callable(hlo):
                    hlo, hhi = hlo(name)
                if hlo is not None:
                    lo = hlo if lo is None else max(lo, hlo)
                if hhi is not None:
                    hi = hhi if hi is None else min(hi, hhi)
        return (lo, hi)

    def _range(self, v, depth=0):
        l = self.lin(v)
        if l is None:
            return (None, None)
        return (self.lo(l, depth), self.hi(l, depth))

    def lo(self, e, depth=0):
        v = e.c
        for a, c in e.t.items():
            lo, hi = self.bounds(a, depth)
            b = lo if c > 0 else hi
            if b is None:
                return None
            v += c * b
        return v

    def hi(self, e, depth=0):
        l = self.lo(e.scale(-1), depth)
        return None if l is None else -l

    # ---- facts ---------------------------------------------------------------------------------------
    def cmp_fact(self, term, truth):
        """comparison term with truth value -> list of Lin ≥ 0"""
        if isinstance(term, tuple) and term[0] == 'term' and term[1] == 'in_range' and len(term[2]) == 3 and truth:
            x_, lo_, hi_ = self.lin(term[2][0]), self.lin(term[2][1]), self.lin(term[2][2])
            return [x_.add(lo_, -1), hi_.add(x_, -1)] if None not in (x_, lo_, hi_) else []
        if not (isinstance(term, tuple) and term[0] == 'term' and len(term[2]) == 2):
            return []
        op = term[1]
        if op in ('call:str::starts_with', 'call:slice::starts_with', 'starts_with') and truth:
            # s.starts_with(p) ⇒ len(s) ≥ len(p)
            def strip(x0):
                while isinstance(x0, tuple) and x0[0] == 'term' and x0[1] in ('call:String::deref', 'call:String::as_str', 'call:Cow::deref') and x0[2]:
                    x0 = x0[2][0]
                return x0
            ls, lp = self.lin(('term', 'len', [strip(term[2][0])])), self.lin(('term', 'len', [strip(term[2][1])]))
            return [ls.add(lp, -1)] if ls is not None and lp is not None else []
        if op not in ('Lt', 'Le', 'Gt', 'Ge', 'Eq', 'Ne'):
            return []
        x, y = term[2]
        sx = isinstance(x, tuple) and x[0] == 'adt' and x[1] == 'core::option::Option' and x[3] == 'Some'
        sy = isinstance(y, tuple) and y[0] == 'adt' and y[1] == 'core::option::Option' and y[3] == 'Some'
        if sx != sy and op in ('Lt', 'Le', 'Gt', 'Ge'):
            # Some(a) < opt (None < Some(_)): true only if opt = Some(b) with a < b, hence a ≤ max(type) − 1
            inner = (x if sx else y)[4][0]
            strict_less = (sx and ((op == 'Lt' and truth) or (op == 'Ge' and not truth))) or (sy and ((op == 'Gt' and truth) or (op == 'Le' and not truth)))
            li = self.lin(inner)
            if strict_less and li is not None:
                h = self.hi(li)
                if h is not None:
                    return [Lin(h - 1).add(li, -1)]
            return []
        a, b = self.lin(term[2][0]), self.lin(term[2][1])
        if a is None or b is None:
            return []
        if not truth:
            op = {'Lt': 'Ge', 'Le': 'Gt', 'Gt': 'Le', 'Ge': 'Lt', 'Eq': 'Ne', 'Ne': 'Eq'}[op]
        if op == 'Lt':
            return [b.add(a, -1).add(Lin(1), -1)]
        if op == 'Le':
            return [b.add(a, -1)]
        if op == 'Gt':
            return [a.add(b, -1).add(Lin(1), -1)]
        if op == 'Ge':
            return [a.add(b, -1)]
        if op == 'Eq':
            return [a.add(b, -1), b.add(a, -1)]
        if op == 'Ne':
            d = a.add(b, -1)
            if self.lo(d) == 0:
                return [d.add(Lin(1), -1)]
            if self.hi(d) == 0:
                return [d.scale(-1).add(Lin(1), -1)]
        return []

    def structural_facts(self, lins):
        """facts implied by the shape of atoms occurring in the given forms (min / saturating_sub / subslice lengths)"""
        out = []
        seen = set()
        names = set()
        for l in lins:
            names |= set(l.t)
        work = list(names)
        while work:
            n = work.pop()
            if n in seen:
                continue
            seen.add(n)
            v = self.atoms.get(n)
            if not v or v[0] != 'term':
                continue
            op, a = v[1], v[2]
            me = Lin(0, {n: 1})
            if op in ('Min', 'min') and len(a) == 2:
                for x in a:
                    lx = self.lin(x)
                    if lx is not None:
                        out.append(lx.add(me, -1))
                        work += list(lx.t)
            elif op in ('Max', 'max') and len(a) == 2:
                for x in a:
                    lx = self.lin(x)
                    if lx is not None:
                        out.append(me.add(lx, -1))
                        work += list(lx.t)
            elif op == 'saturating_sub' and len(a) == 2:
                la, lb = self.lin(a[0]), self.lin(a[1])
                if la is not None:
                    out.append(la.add(me, -1))            # r ≤ a
                    work += list(la.t)
                    if lb is not None:
                        out.append(me.add(la, -1).add(lb))    # r ≥ a − b
                        work += list(lb.t)
            elif op == 'Shr' and len(a) == 2 and is_c(a[1]):
                la = self.lin(a[0])
                if la is not None:
                    out.append(la.add(me.scale(2 ** a[1][1]), -1))   # (x >> k)·2^k ≤ x
                    work += list(la.t)
            elif op == 'BitAnd' and len(a) == 2:
                for x in a:
                    lx = self.lin(x)
                    if lx is not None and (self.lo(lx) or 0) >= 0:
                        out.append(lx.add(me, -1))        # x & y ≤ x
                # x = (x >> k)·2^k + (x & (2^k − 1)) when both atoms are around
                for x, y in ((a[0], a[1]), (a[1], a[0])):
                    if is_c(y) and (y[1] + 1) & y[1] == 0 and y[1] > 0:
                        kbits = y[1].bit_length()
                        shr = ('term', 'Shr', [x, C(kbits)])
                        sn = vshow(shr)
                        lx = self.lin(x)
                        if sn in self.atoms and lx is not None and (self.lo(lx) or 0) >= 0:
                            dec = Lin(0, {sn: 2 ** kbits}).add(me)
                            out.append(lx.add(dec, -1))
                            out.append(dec.add(lx, -1))
            elif op == 'Div' and len(a) == 2 and is_c(a[1]) and a[1][1] > 0:
                la = self.lin(a[0])
                if la is not None:
                    out.append(la.add(me.scale(a[1][1]), -1))       # (x / k)·k ≤ x
                    work += list(la.t)
        return out

    def prove(self, goal, facts, depth=0):
        """goal: Lin, prove goal ≥ 0"""
        if depth == 0:
            self._bcache = {}
        l = self.lo(goal)
        if l is not None and l >= 0:
            return 'interval'
        # case split: +Min(a,b) needs both substitutions, −Max(a,b) likewise; saturating_sub(a,b) = max(a−b, 0)
        if depth < 3:
            for n, c in goal.t.items():
                v = self.atoms.get(n)
                if not v or v[0] != 'term' or len(v[2]) != 2:
                    continue
                op = v[1]
                if (op in ('Min', 'min') and c > 0) or (op in ('Max', 'max') and c < 0):
                    la, lb = self.lin(v[2][0]), self.lin(v[2][1])
                    if la is not None and lb is not None:
                        rest = Lin(goal.c, {k: x for k, x in goal.t.items() if k != n})
                        if self.prove(rest.add(la, c), facts, depth + 1) and self.prove(rest.add(lb, c), facts, depth + 1):
                            return 'minmax-split'
                if op == 'saturating_sub' and c < 0:
                    la, lb = self.lin(v[2][0]), self.lin(v[2][1])
                    if la is not None and lb is not None:
                        rest = Lin(goal.c, {k: x for k, x in goal.t.items() if k != n})
                        if self.prove(rest.add(la.add(lb, -1), c), facts, depth + 1) and self.prove(rest, facts, depth + 1):
                            return 'satsub-split'
        fl = list(facts) + self.structural_facts([goal] + list(facts))
        # relevance filter: keep facts connected to the goal through shared atoms (transitively), dedupe
        rel = set(goal.t)
        keep = []
        pending = list(fl)
        changed = True
        seenf = set()
        while changed:
            changed = False
            nxt = []
            for f in pending:
                if set(f.t) & rel:
                    kf = (f.c, tuple(sorted(f.t.items())))
                    if kf not in seenf:
                        seenf.add(kf)
                        keep.append(f)
                        if not set(f.t) <= rel:
                            rel |= set(f.t)
                            changed = True
                else:
                    nxt.append(f)
            pending = nxt
        fl = keep[:60]
        for f in fl:
            for k in (1, 2, 3, 4, 8):
                l = self.lo(goal.add(f, -k))
                if l is not None and l >= 0:
                    return 'fact'
        n = len(fl)
        if n <= 30:
            for i in range(n):
                for j in range(i, n):
                    for (k1, k2) in ((1, 1), (1, 2), (2, 1), (1, 4), (4, 1), (1, 8), (8, 1)):
                        l = self.lo(goal.add(fl[i], -k1).add(fl[j], -k2))
                        if l is not None and l >= 0:
                            return 'facts2'
        if n <= 10:
            for i in range(n):
                for j in range(i + 1, n):
                    for k in range(j + 1, n):
                        l = self.lo(goal.add(fl[i], -1).add(fl[j], -1).add(fl[k], -1))
                        if l is not None and l >= 0:
                            return 'facts3'
        if self.fourier_motzkin(goal, fl):
            return 'fourier-motzkin'
        # case split on Max / Min / saturating_sub atoms that occur in the facts (their upper bounds are disjunctive)
        if depth < 2:
            cand = []
            for f in fl + [goal]:
                for n in f.t:
                    v = self.atoms.get(n)
                    if v and v[0] == 'term' and len(v[2]) == 2 and v[1] in ('Max', 'max', 'Min', 'min', 'saturating_sub') and n not in cand:
                        cand.append(n)
            for n in cand[:3]:
                v = self.atoms[n]
                la, lb = self.lin(v[2][0]), self.lin(v[2][1])
                if la is None or lb is None:
                    continue
                d_ab = Lin(la.c - lb.c, dict(la.t))
                for k_, c_ in lb.t.items():
                    d_ab.t[k_] = d_ab.t.get(k_, 0) - c_
                d_ba = Lin(-d_ab.c, {k_: -c_ for k_, c_ in d_ab.t.items()})
                if v[1] in ('Max', 'max'):
                    alts = [(la, d_ab), (lb, d_ba)]
                elif v[1] in ('Min', 'min'):
                    alts = [(la, d_ba), (lb, d_ab)]
                else:
                    alts = [(d_ab, d_ab), (Lin(0), d_ba)]

                def subst(l, rep):
                    c = l.t.get(n)
                    if not c:
                        return l
                    r = Lin(l.c + c * rep.c, {k_: x for k_, x in l.t.items() if k_ != n})
                    for k_, x in rep.t.items():
                        r.t[k_] = r.t.get(k_, 0) + c * x
                    r.t = {k_: x for k_, x in r.t.items() if x != 0}
                    return r
                ok = True
                for rep, side in alts:
                    f2 = [subst(f, rep) for f in fl] + [side]
                    if not (self.prove(subst(goal, rep), f2, depth + 1) or self.prove(Lin(-1), f2, depth + 1)):
                        ok = False
                        break
                if ok:
                    return 'fact-split'
        return None

    def fourier_motzkin(self, goal, facts, max_vars=9, max_cons=600):
        """goal ≥ 0 follows from facts (each ≥ 0) and the atoms' interval bounds iff {facts, bounds, goal ≤ −1} is infeasible; decided over
        the rationals by Fourier–Motzkin elimination (sound for integers: a rational refutation is an integer refutation)"""
        cons = [(dict(f.t), f.c) for f in facts]
        cons.append(({a: -c for a, c in goal.t.items()}, -goal.c - 1))
        vars_ = set()
        for t_, _ in cons:
            vars_ |= set(t_)
        if len(vars_) > max_vars:
            return False
        for v in vars_:
            lo, hi = self.bounds(v)
            if lo is not None:
                cons.append(({v: 1}, -lo))
            if hi is not None:
                cons.append(({v: -1}, hi))
        for v in sorted(vars_):
            pos = [c for c in cons if c[0].get(v, 0) > 0]
            neg = [c for c in cons if c[0].get(v, 0) < 0]
            rest = [c for c in cons if c[0].get(v, 0) == 0]
            if len(pos) * len(neg) + len(rest) > max_cons:
                return False
            new = rest
            for (tp, cp) in pos:
                a = tp[v]
                for (tn, cn) in neg:
                    b = -tn[v]
                    t2 = {}
                    for k_, x in tp.items():
                        if k_ != v:
                            t2[k_] = t2.get(k_, 0) + b * x
                    for k_, x in tn.items():
                        if k_ != v:
                            t2[k_] = t2.get(k_, 0) + a * x
                    t2 = {k_: x for k_, x in t2.items() if x != 0}
                    c2 = b * cp + a * cn
                    if not t2:
                        if c2 < 0:
                            return True
                        continue
                    new.append((t2, c2))
            # dedupe
            seen = set()
            cons = []
            for (t2, c2) in new:
                kk = (tuple(sorted(t2.items())), c2)
                if kk not in seen:
                    seen.add(kk)
                    cons.append((t2, c2))
        return any(not t2 and c2 < 0 for (t2, c2) in cons)


INDEX_RX = re.compile(r'core::(slice|array|str)::.*Index(Mut)?<.*>::index(_mut)?$|core::ops::index::Index(Mut)?::index(_mut)?$|alloc::vec::.*Index(Mut)?<.*>::index(_mut)?$')
PANIC_FNS = re.compile(r'core::panicking::|std::rt::begin_panic|core::option::(unwrap_failed|expect_failed)|core::result::unwrap_failed|core::slice::index::slice_|core::str::slice_error')


class RangeEngine(Engine):
    """Engine + site checks. Sites are recorded in self.evals: site id -> list of (root fn, proven?, detail)."""

    def __init__(self, prog, **kw):
        kw.setdefault('inline_depth', 3)
        kw.setdefault('loop_visits', 1)
        kw.setdefault('max_paths', 3000)
        super().__init__(prog, **kw)
        self.types = {}        # key(term) -> integer type
        self.no_ovf = {}
        self.minlens = {}      # symbol-name prefix -> minimum slice length
        self.evals = defaultdict(list)
        self.entered = set()
        self.root = None
        self.P = Prover(self)
        self._cfgs = {}
        self._tbb = {}
        self.slice_elem = {}
        self.arr_len = {}
        self.range_hints = []     # [(compiled regex over atom names, lo, hi)] — stated type invariants
        self.invariants = []      # [callable(prover) -> [Lin ≥ 0]] — stated relational invariants

    # ---- invariants ------------------------------------------------------------------------------------
    def min_len(self, x):
        n = vshow(x)
        for pref, mn in self.minlens.items():
            if n == pref or n.startswith(pref):
                return mn
        return 0

    def elem_type(self, x):
        if isinstance(x, tuple) and x[0] in ('sym', 'term'):
            n = vshow(x)
            if n in self.slice_elem:
                return self.slice_elem[n]
            if x[0] == 'term' and x[1] == 'subslice':
                return self.elem_type(x[2][0])
        return None

    # ---- facts of the current trace --------------------------------------------------------------------
    def trace_facts(self, s):
        fs = []
        for (a, v, _) in s.decisions:
            if isinstance(v, int):
                fs += self.P.cmp_fact(a, bool(v))
            # a `match` on an integer value: the arm taken fixes the value, the fall-through arm excludes the listed ones
            if isinstance(a, tuple) and not (a[0] == 'term' and a[1] in ('Lt', 'Le', 'Gt', 'Ge', 'Eq', 'Ne', 'discr', 'is_some', 'is_ok', 'in_range', 'Not')):
                ty = self.types.get(key(a))
                if ty in INT_W or (isinstance(a, tuple) and a[0] == 'sym' and ty is None and isinstance(v, tuple)):
                    la = self.P.lin(a)
                    if la is not None:
                        if isinstance(v, int) and ty in INT_W:
                            fs += [la.add(Lin(v), -1), Lin(v).add(la, -1)]
                        elif isinstance(v, tuple) and v[0] == 'ne' and ty in INT_W:
                            lo = self.P.lo(la)
                            if lo is not None:
                                while lo in v[1]:
                                    lo += 1
                                fs.append(la.add(Lin(lo), -1))
        for e in s.events:
            if e[0] == 'fact':
                fs.append(e[1])
        for inv in self.invariants:
            fs += inv(self.P, s) if inv.__code__.co_argcount >= 2 else inv(self.P)
        return fs

    def bb_of(self, fn, t):
        m = self._tbb.get(fn['path'])
        if m is None:
            m = {id(b['term']): bi for bi, b in enumerate(fn['blocks'])}
            self._tbb[fn['path']] = m
        return m.get(id(t), -1)

    def record(self, fn, kind, desc, t, ok, how, s):
        self.evals[(fn['path'], kind, desc, self.bb_of(fn, t))].append(
            (self.root, bool(ok), how[:300], t['sp']['line'], None if ok else [(vshow(a)[:90], v) for a, v, _ in s.decisions][-6:]))

    def site(self, fn, kind, desc, goals, s, t, why=''):
        """goals: list of Lin that must be ≥ 0 (None = cannot be expressed → unproven)"""
        sp = t['sp']
        ok = True
        how = []
        if goals is None:
            ok = False
            how = ['not expressible: ' + why]
        else:
            facts = self.trace_facts(s)
            for g in goals:
                if g is None:
                    ok = False
                    how.append('unmodelled operand')
                    continue
                w = self.P.prove(g, facts)
                if not w:
                    ok = False
                    how.append('cannot prove %s ≥ 0' % (g,))
                else:
                    how.append(w)
        self.record(fn, kind, desc, t, ok, '; '.join(how), s)
        # execution continues past the construct only if the check passed: its goals hold afterwards either way
        if goals:
            for g in goals:
                if g is not None:
                    s.events.append(('fact', g))
        return ok

    # ---- hooks -----------------------------------------------------------------------------------------
    def assign(self, place, val, fn, fid, s, sp, is_call=False):
        if not place['p']:
            ty = fn['locals'][place['l']]['ty']
            if ty in INT_W and isinstance(val, tuple) and val[0] in ('term', 'sym'):
                self.types.setdefault(key(val), ty)
            elif isinstance(val, tuple) and val[0] in ('term', 'sym'):
                m = re.fullmatch(r"&(?:'\w+ )?(?:mut )?\[(\w+)\]|&?(?:'\w+ )?(?:mut )?\[(\w+); (\d+)\]|alloc::vec::Vec<(\w+)>", ty)
                if m:
                    self.slice_elem.setdefault(vshow(val), m.group(1) or m.group(2) or m.group(4))
                    if m.group(3):
                        self.arr_len.setdefault(vshow(val), int(m.group(3)))
            if isinstance(val, tuple) and val[0] == 'tuple' and ty.startswith('(') and ty.endswith(', bool)'):
                inner = ty[1:-7]
                if inner in INT_W and isinstance(val[1][0], tuple) and val[1][0][0] == 'term':
                    self.types.setdefault(key(val[1][0]), None)
        super().assign(place, val, fn, fid, s, sp, is_call)

    def project(self, v, step, s):
        # canonical naming: the single field of a local newtype *is* the value (Sequence(x).0 ≡ x), so that `seq.0 − start.0` and
        # `usize::from(seq − start)` talk about the same atoms
        if step[0] == 'f' and isinstance(v, tuple) and v[0] in ('sym', 'term', 'rec') and len(step) > 3 and step[3]:
            a = self.p.adts.get(step[3])
            if a and not a['enum'] and len(a['variants'][0]['fields']) == 1:
                fty = a['variants'][0]['fields'][0]['ty']
                if fty in INT_W:
                    self.types.setdefault(key(v), fty)
                    return v
        r = super().project(v, step, s)
        if step[0] == 'f' and isinstance(r, tuple) and r[0] in ('sym', 'term') and len(step) > 4 and step[4]:
            ty = step[4]
            if ty in INT_W:
                self.types.setdefault(key(r), ty)
            else:
                a = self.p.adts.get(ty)
                if a and not a['enum'] and len(a['variants'][0]['fields']) == 1 and a['variants'][0]['fields'][0]['ty'] in INT_W:
                    self.types.setdefault(key(r), a['variants'][0]['fields'][0]['ty'])
        return r

    def run(self, fn, args, st=None, depth=0):
        if isinstance(fn, str):
            fn = self.p.fns[fn]
        if depth == 0:
            self.root = fn['path']
        self.entered.add((fn['path'], self.root))
        return super().run(fn, args, st, depth)

    def strip_typed(self, v, ty, s):
        """like strip(), but also unwraps symbolic values whose (argument) type is a local single-field newtype"""
        v = self.strip(v, s)
        ty = re.sub(r"^&(?:'\w+ )?(?:mut )?", '', ty or '')
        n = 0
        while isinstance(v, tuple) and v[0] in ('sym', 'rec', 'term') and n < 3:
            a = self.p.adts.get(ty)
            if not a or a['enum'] or len(a['variants'][0]['fields']) != 1:
                break
            f = a['variants'][0]['fields'][0]
            v = self.project(v, ('f', 0, f['name'], ty), s)
            ty = f['ty']
            n += 1
        return v

    def reset_tables(self):
        """side tables are keyed by printed terms, which are only unique within one standalone analysis"""
        self.types = {}
        self.no_ovf = {}
        self.minlens = {}
        self.slice_elem = {}
        self.arr_len = {}
        self.P = Prover(self)

    def on_assert(self, t, fn, fid, s):
        self.check_assert(t, fn, fid, s)

    # ---- loops: havoc everything the body may modify when the head is first entered --------------------------
    def _loops(self, fn):
        r = self._cfgs.get(fn['path'])
        if r is None:
            cfg = CFG(fn)
            heads = {}
            for (src, hdr) in cfg.back_edges():
                body = heads.setdefault(hdr, {hdr})
                st = [src]
                while st:
                    x = st.pop()
                    if x in body:
                        continue
                    body.add(x)
                    st.extend(cfg.pred[x])
            mods = {}
            for hdr, body in heads.items():
                locs, places = set(), []
                for bi in body:
                    b = fn['blocks'][bi]
                    for st_ in b['stmts']:
                        if 'lhs' not in st_:
                            continue
                        lhs = st_['lhs']
                        if not lhs['p'] or not any(e['k'] == 'deref' for e in lhs['p']):
                            locs.add(lhs['l'])
                        else:
                            places.append(lhs)
                        rv = st_['rv']
                        if rv['k'] in ('ref', 'rawptr') and (rv.get('mut') or rv['k'] == 'rawptr'):
                            pl = rv['p']
                            if not any(e['k'] == 'deref' for e in pl['p']):
                                locs.add(pl['l'])
                            else:
                                places.append(pl)
                    t = b['term']
                    if t['k'] == 'call':
                        d = t['dest']
                        if not any(e['k'] == 'deref' for e in d['p']):
                            locs.add(d['l'])
                        else:
                            places.append(d)
                mods[hdr] = (locs, places)
            r = (heads, mods)
            self._cfgs[fn['path']] = r
        return r

    def loop_closed(self, fn, bb):
        return bb in self._loops(fn)[0]

    def _rebound(self, fn, head, l):
        """is the reference local l assigned, inside the loop, anything but a re-borrow / copy of itself? (e.g. `cur = &cur[2..]`)"""
        k = (fn['path'], head, l)
        c = self._rebound_cache.get(k) if hasattr(self, '_rebound_cache') else None
        if c is not None:
            return c
        if not hasattr(self, '_rebound_cache'):
            self._rebound_cache = {}
        body = self._loops(fn)[0][head]
        res = False
        for bi in body:
            b = fn['blocks'][bi]
            for st_ in b['stmts']:
                lhs = st_.get('lhs')
                if not lhs or lhs['l'] != l or lhs['p']:
                    continue
                rv = st_['rv']
                src = None
                if rv['k'] in ('ref', 'rawptr'):
                    src = rv['p']
                elif rv['k'] == 'use':
                    src = rv['a'].get('copy') or rv['a'].get('move')
                if src is None or src['l'] != l or any(e['k'] not in ('deref',) for e in src['p']):
                    res = True
            t = b['term']
            if t['k'] == 'call' and t['dest']['l'] == l and not t['dest']['p']:
                res = True
        self._rebound_cache[k] = res
        return res

    def on_block(self, fn, fid, bb, s, nvisit):
        heads, mods = self._loops(fn)
        if bb not in heads or nvisit != 1:
            return
        locs, places = mods[bb]
        s.nsym += 1
        tag = 'loop%d' % s.nsym
        hv = {}
        s.events.append(('loop-havoc', fn['path'], bb, fid, hv))
        # deref'd places first (their base locals still hold the pre-loop references)
        for pl in places:
            # cut the projection after the last deref + following field steps
            try:
                root, proj = self.resolve(pl, fn, fid, s)
            except Exception:
                continue
            if root is None:
                continue
            fields = '.'.join(str(st_[2] or st_[1]) for st_ in proj if st_[0] == 'f')
            v = ('sym', '%s.%s' % (tag, fields or 'mem'))
            ty = None
            for e in reversed(pl['p']):
                if e['k'] == 'field':
                    ty = e.get('ty')
                    break
            if ty in INT_W:
                self.types[key(v)] = ty
            # only field paths are havocked precisely; element writes havoc the whole container
            cut = []
            for st_ in proj:
                if st_[0] in ('f', 'd'):
                    cut.append(st_)
                else:
                    break
            self.store(root, tuple(cut), v if len(cut) == len(proj) else ('sym', '%s.%s' % (tag, fields or 'mem') + '[*]'), s)
        for l in locs:
            if l == 0:
                continue
            ty = fn['locals'][l]['ty']
            nm = fn['locals'][l]['name'] or ('_%d' % l)
            old = s.mem.get((fid, l))
            if ty.startswith('&') and isinstance(old, tuple) and old[0] == 'ref' and not self._rebound(fn, bb, l):
                # a reference only re-borrowed from itself in the loop keeps pointing at the same object
                continue
            v = ('sym', '%s.%s' % (tag, nm))
            if re.match(r'core::(iter|slice::iter)::', ty) and old is not None:
                # an iterator advanced by the loop: its position is unknown, what it iterates over is not
                v = ('term', 'loopiter', [self.purify(old, s), C(s.nsym)])
            if ty in INT_W:
                self.types[key(v)] = ty
            m_ = re.fullmatch(r"&(?:'\w+ )?(?:mut )?\[(\w+)\]", ty)
            if m_:
                self.slice_elem[vshow(v)] = m_.group(1)
            hv[l] = (v, ty)
            s.mem[(fid, l)] = v

    # asserts: checked here (the base engine only records them)
    def check_assert(self, t, fn, fid, s):
        kind = t['kind']
        if kind in ('MisalignedPointerDereference', 'NullPointerDereference', 'InvalidEnumConstruction'):
            return
        ops = [self.operand(x, fn, fid, s) for x in t['ops']]
        P = self.P
        if kind.startswith('Overflow:'):
            op = kind.split(':')[1]
            ty = t.get('opty') or ''
            r = ty_range(ty)
            a, b = P.lin(self._deref_val(ops[0], s)), P.lin(self._deref_val(ops[1], s))
            desc = '%s %s' % (op, ty)
            if r is None or a is None or b is None:
                return self.site(fn, kind, desc, None, s, t, 'operands')
            if op == 'Add':
                res = a.add(b)
            elif op == 'Sub':
                res = a.add(b, -1)
            elif op == 'Mul':
                if a.isconst():
                    res = b.scale(a.c)
                elif b.isconst():
                    res = a.scale(b.c)
                else:
                    ha, hb = P.hi(a), P.hi(b)
                    la, lb = P.lo(a), P.lo(b)
                    if None not in (ha, hb, la, lb) and la >= 0 and lb >= 0 and ha * hb <= r[1]:
                        self.record(fn, kind, desc, t, True, 'interval product', s)
                        return True
                    return self.site(fn, kind, desc, None, s, t, 'non-linear product')
            elif op in ('Shl', 'Shr'):
                w = INT_W.get(ty, 64)
                return self.site(fn, kind, desc, [Lin(w - 1).add(b, -1), b], s, t)
            else:
                return self.site(fn, kind, desc, None, s, t, 'operator ' + op)
            ok = self.site(fn, kind, desc, [Lin(r[1]).add(res, -1), res.add(Lin(r[0]), -1)], s, t)
            return ok
        if kind == 'BoundsCheck':
            ln, idx = P.lin(self._deref_val(ops[0], s)), P.lin(self._deref_val(ops[1], s))
            if ln is None or idx is None:
                return self.site(fn, kind, 'index', None, s, t, 'operands')
            return self.site(fn, kind, 'index', [ln.add(idx, -1).add(Lin(1), -1)], s, t)
        if kind in ('DivisionByZero', 'RemainderByZero'):
            # the assert's operand is the dividend (for the message); the divisor is inside the condition `Eq(divisor, 0)` (expected false)
            c = self._deref_val(self.operand(t['cond'], fn, fid, s), s)
            if is_c(c):
                ok = bool(c[1]) == bool(t['expected'])
                self.record(fn, kind, 'divisor', t, ok, 'constant divisor' if ok else 'constant zero divisor', s)
                return ok
            dv = None
            if isinstance(c, tuple) and c[0] == 'term' and c[1] in ('Eq', 'Ne') and len(c[2]) == 2:
                zs = [x for x in c[2] if is_c(x) and x[1] == 0]
                nz = [x for x in c[2] if not (is_c(x) and x[1] == 0)]
                if len(zs) == 1 and len(nz) == 1:
                    dv = nz[0]
            d = P.lin(dv) if dv is not None else None
            if d is None:
                return self.site(fn, kind, 'divisor', None, s, t, 'divisor not recognised in the condition')
            l = P.lo(d)
            if l is None or l < 0:
                return self.site(fn, kind, 'divisor', None, s, t, 'signed divisor')
            return self.site(fn, kind, 'divisor', [d.add(Lin(1), -1)], s, t)
        if kind == 'OverflowNeg':
            return self.site(fn, kind, 'neg', None, s, t, 'negation')
        return None

    def summary(self, callee, t, args, s, fn, fid, depth):
        c = callee
        tc = t['callee']
        P = self.P
        one = lambda v: [(v, s)]
        dv = lambda i: self._deref_val(args[i], s)
        sp = t['sp']
        nm = c.split('::')[-1]
        # ---- std iterator contracts: slice.chunks_exact(n) yields sub-slices of exactly n elements; enumerate() pairs them with a counter
        if nm == 'next' and re.search(r'ChunksExact<|Enumerate<', c):
            itv = vshow(self.purify(dv(0), s))
            mce = re.search(r'call:slice::chunks_exact\((.*?), (\d+)\)', itv)
            if mce:
                n_ = int(mce.group(2))
                s.nsym += 1
                k_ = s.nsym
                atom = ('term', 'call:' + short(c), [self.purify(dv(0), s)])
                outs_ = []
                s2 = s.fork()
                for val, st_ in ((1, s2), (0, s)):
                    st_.decisions.append((('term', 'discr', [atom]), val, (fn['path'], sp['line'])))
                    if not val:
                        outs_.append((('adt', 'core::option::Option', 0, 'None', []), st_))
                        continue
                    chunk = ('sym', 'chunk#%d' % k_)
                    self.arr_len[vshow(chunk)] = n_
                    self.slice_elem[vshow(chunk)] = 'u8'
                    if 'Enumerate<' in c:
                        idx = ('sym', 'index#%d' % k_)
                        self.types[key(idx)] = 'usize'
                        pay = ('tuple', [idx, chunk])
                    else:
                        pay = chunk
                    outs_.append((('adt', 'core::option::Option', 1, 'Some', [pay]), st_))
                self.npaths += 1
                return outs_
        if nm == 'next' and re.search(r'Enumerate<', c) and re.search(r'Enumerate<core::slice::iter::Iter(Mut)?<', t.get('callee_args') or c):
            # enumerate() over the elements of an array of known length N: item k is (k, &[mut] a[k]) with k ≤ N − 1
            itv = vshow(self.purify(dv(0), s))
            mar = re.search(r'call:slice::iter(?:_mut)?\(repeat\([^,()]*, (\d+)\)\)', itv)
            if mar and int(mar.group(1)) >= 0:
                n_ = int(mar.group(1))
                s.nsym += 1
                k_ = s.nsym
                atom = ('term', 'call:' + short(c), [self.purify(dv(0), s)])
                outs_ = []
                s2 = s.fork()
                for val, st_ in ((1, s2), (0, s)):
                    if val and n_ == 0:
                        continue
                    st_.decisions.append((('term', 'discr', [atom]), val, (fn['path'], sp['line'])))
                    if not val:
                        outs_.append((('adt', 'core::option::Option', 0, 'None', []), st_))
                        continue
                    idx = ('sym', 'index#%d' % k_)
                    self.types[key(idx)] = 'usize'
                    il = P.lin(idx)
                    if il is not None:
                        st_.events.append(('fact', Lin(n_ - 1).add(il, -1)))
                    elem = ('sym', 'elem#%d' % k_)
                    self.types[key(elem)] = 'u8'
                    outs_.append((('adt', 'core::option::Option', 1, 'Some', [('tuple', [idx, elem])]), st_))
                self.npaths += 1
                return outs_
        # ---- slices ----------------------------------------------------------------------------------
        if INDEX_RX.search(c) or (tc in ('core::ops::index::Index::index', 'core::ops::index::IndexMut::index_mut') and
                                  re.match(r'<(\[|&|alloc::vec::Vec|core::ops)', c) is None and c not in self.p.fns and
                                  re.search(r'\[u8|\[T|Vec<', t.get('callee_args', '') + ''.join(t.get('atys', ())))):
            base, idx = dv(0), dv(1)
            ln = P.lin(('term', 'len', [base]))
            rng = self._range_of(idx)
            if rng is not None:
                lo_v, hi_v, incl = rng
                lo_l = P.lin(lo_v) if lo_v is not None else Lin(0)
                hi_l = P.lin(hi_v) if hi_v is not None else ln
                if incl and hi_l is not None:
                    hi_l = hi_l.add(Lin(1))
                goals = None
                if lo_l is not None and hi_l is not None and ln is not None:
                    goals = [lo_l, hi_l.add(lo_l, -1), ln.add(hi_l, -1)]
                self.site(fn, 'slice-index', 'range', goals, s, t, 'range operands')
                lo_t = lo_v if lo_v is not None else C(0)
                hi_t = (('term', 'Add', [hi_v, C(1)]) if incl else hi_v) if hi_v is not None else ('term', 'len', [base])
                return one(('term', 'subslice', [base, lo_t, hi_t]))
            il = P.lin(idx)
            if il is not None and ln is not None and not (isinstance(idx, tuple) and idx[0] == 'adt'):
                self.site(fn, 'slice-index', 'index', [il, ln.add(il, -1).add(Lin(1), -1)], s, t)
                return one(('term', 'index', [base, idx]))
            self.site(fn, 'slice-index', 'other', None, s, t, 'index operand %s' % vshow(idx)[:60])
            return one(('term', 'index', [base, idx]))
        if c in ('core::slice::<impl [T]>::split_at', 'core::slice::<impl [T]>::split_at_mut'):
            base, mid = dv(0), dv(1)
            ln, ml = P.lin(('term', 'len', [base])), P.lin(mid)
            self.site(fn, 'split_at', 'mid', [ln.add(ml, -1)] if ln is not None and ml is not None else None, s, t)
            return one(('tuple', [('term', 'subslice', [base, C(0), mid]), ('term', 'subslice', [base, mid, ('term', 'len', [base])])]))
        if c in ('core::slice::<impl [T]>::copy_from_slice', 'core::slice::<impl [T]>::clone_from_slice'):
            d, sr = P.lin(('term', 'len', [dv(0)])), P.lin(('term', 'len', [dv(1)]))
            self.site(fn, 'copy_from_slice', 'lengths', [d.add(sr, -1), sr.add(d, -1)] if d is not None and sr is not None else None, s, t)
            return one(UNIT)
        if c == 'core::slice::<impl [T]>::get' and len(args) == 2 and self._range_of(dv(1)) is not None and self._range_of(dv(1))[2] is False:
            # s.get(a..b) / s.get(a..) / s.get(..b): Some(&s[a..b]) iff a ≤ b ≤ len(s) — the decision an explicit bounds test would record, and the
            # sub-slice the indexing form would yield (never panics)
            base = dv(0)
            lo, hi, _inc = self._range_of(dv(1))
            ln = ('term', 'len', [base])
            lo_ = lo if lo is not None else C(0)
            hi_ = hi if hi is not None else ln
            conds = []
            if hi is not None:
                conds.append(('term', 'Le', [hi_, ln]))
            if lo is not None:
                conds.append(('term', 'Le', [lo_, hi_]))
            some = self.adt_val('core::option::Option', 'Some', [('term', 'subslice', [base, lo_, hi_])])
            none = self.adt_val('core::option::Option', 'None')
            if len(conds) == 1:
                atom = conds[0]
                f = s.facts.get(key(atom))
                outs_ = []
                for val in (1, 0):
                    if isinstance(f, int) and f != val:
                        continue
                    s2 = s if (val == 0 or isinstance(f, int)) else s.fork()
                    if not isinstance(f, int):
                        s2.facts[key(atom)] = val
                        s2.decisions.append((atom, val, (fn['path'], t['sp']['line'])))
                    outs_.append((some if val else none, s2))
                if len(outs_) == 2:
                    self.npaths += 1
                return outs_
        if c in ('core::slice::<impl [T]>::first', 'core::slice::<impl [T]>::last', 'core::slice::<impl [T]>::get'):
            return one(('term', 'call:slice::' + nm, [dv(i) for i in range(len(args))]))
        if c == 'core::slice::<impl [T]>::to_vec' or c == 'alloc::slice::<impl [T]>::to_vec':
            return one(dv(0))
        if tc == 'core::convert::TryInto::try_into' and t.get('gargs') and len(t['gargs']) == 2:
            m2 = re.fullmatch(r'\[(\w+); (\d+)\]', t['gargs'][1])
            if m2 and re.match(r"&(?:'\w+ )?\[", t['gargs'][0]):
                v = dv(0)
                ln = P.lin(('term', 'len', [v]))
                if ln is not None and ln.isconst() and ln.c == int(m2.group(2)):
                    r = ('term', 'array_of', [v])
                    self.arr_len[vshow(r)] = ln.c
                    self.slice_elem[vshow(r)] = m2.group(1)
                    return one(('adt', 'core::result::Result', 0, 'Ok', [r]))
        # ---- Option / Result unwraps ---------------------------------------------------------------------
        if (c.startswith('core::option::Option::<T>::') or c.startswith('core::result::Result::<T, E>::')) and nm in ('unwrap', 'expect'):
            v = dv(0)
            good = isinstance(v, tuple) and v[0] == 'adt' and v[3] in ('Some', 'Ok')
            if not good:
                f = s.facts.get(key(('term', 'is_some' if 'option' in c else 'is_ok', [v])))
                d2 = s.facts.get(key(('term', 'discr', [v])))
                good = f == 1 or d2 == (1 if 'option' in c else 0)
            self.record(fn, 'unwrap', nm, t, good, 'value is %s' % vshow(v)[:80], s)
            if not good:
                return one(('term', 'unwrap', [v]))
        # ---- checked arithmetic through std traits (derive_more newtypes, plain ints) ----------------------
        m = re.match(r'core::ops::arith::(Add|Sub|Mul|Div|Rem)::(add|sub|mul|div|rem)$', tc)
        if m:
            lf = self.p.fns.get(c)
            if lf is None or lf.get('derived') or lf['span']['exp']:
                atys = t.get('atys') or ['', '']
                a, b = self.strip_typed(dv(0), atys[0], s), self.strip_typed(dv(1), atys[1] if len(atys) > 1 else '', s)
                ty = self._int_type_of(t, fn)
                la, lb = P.lin(a), P.lin(b)
                r = ty_range(ty) if ty else None
                op = m.group(1)
                if r and la is not None and lb is not None and op in ('Add', 'Sub'):
                    res = la.add(lb, 1 if op == 'Add' else -1)
                    self.site(fn, 'Overflow:' + op, '%s %s (trait)' % (op, ty), [Lin(r[1]).add(res, -1), res.add(Lin(r[0]), -1)], s, t)
                elif op in ('Div', 'Rem') and lb is not None:
                    self.site(fn, 'DivisionByZero', 'divisor (trait)', [lb.add(Lin(1), -1)], s, t)
                elif r is not None or 'Duration' not in c:
                    if not ('Duration' in c or 'SystemTime' in c or 'Instant' in c):
                        self.site(fn, 'Overflow:' + op, '%s %s (trait)' % (op, ty), None, s, t, 'operands')
        m = re.match(r'core::ops::arith::(Add|Sub|Mul)Assign::(add|sub|mul)_assign$', tc)
        if m:
            lf = self.p.fns.get(c)
            if (lf is None or lf.get('derived') or lf['span']['exp']) and isinstance(args[0], tuple) and args[0][0] == 'ref':
                atys = t.get('atys') or ['', '']
                old = self.strip_typed(self.load(args[0][1], args[0][2], s), atys[0], s)
                b = self.strip_typed(dv(1), atys[1] if len(atys) > 1 else '', s)
                ty = self._int_type_of(t, fn, arg=0)
                la, lb = P.lin(old), P.lin(b)
                r = ty_range(ty) if ty else None
                op = m.group(1)
                if r and la is not None and lb is not None and op in ('Add', 'Sub'):
                    res = la.add(lb, 1 if op == 'Add' else -1)
                    self.site(fn, 'Overflow:' + op, '%s %s (trait assign)' % (op, ty), [Lin(r[1]).add(res, -1), res.add(Lin(r[0]), -1)], s, t)
                elif not ('Duration' in c or 'f64' in ''.join(t.get('atys', ()))):
                    self.site(fn, 'Overflow:' + op, '%s (trait assign)' % op, None, s, t, 'operands')
        # ---- explicit panics -------------------------------------------------------------------------------
        if PANIC_FNS.search(c) and t['t'] < 0:
            mac = sp.get('mac', '')
            self.record(fn, 'panic', _macname(mac) or nm, t, False, 'explicit panic reachable', s)
        m = re.fullmatch(r'trippy_core::net::socket::Socket::(read|recv_from)', tc)
        if m and len(args) >= 2:
            # boundary contract (D4): Ok(n) / Ok((n, addr)) with n ≤ buf.len()
            buf = dv(1)
            r = self.opaque_call(callee, t, args, s)
            ln = P.lin(('term', 'len', [buf]))
            for pay in (('term', 'unwrap', [r]), ('term', 'field:0', [r])):
                n = pay if m.group(1) == 'read' else ('term', 'field:0', [pay])
                self.types[key(n)] = 'usize'
                nl = P.lin(n)
                if ln is not None and nl is not None:
                    s.events.append(('fact', ln.add(nl, -1)))
            return one(r)
        if c == 'core::array::from_fn' or c.startswith('core::array::from_fn::'):
            n = None
            for g in t.get('gargs', ()):
                if g.isdigit():
                    n = int(g)
                elif re.fullmatch(r'[A-Z][A-Z0-9_]*', g) and s.mem.get((fid, '#cgen')) is not None:
                    n = s.mem[(fid, '#cgen')]
            f = dv(0)
            if n is not None and n <= 16 and isinstance(f, tuple) and f[0] == 'closure' and f[1] in self.p.fns and depth < self.inline_depth + 2:
                conts = [([], s)]
                for i in range(n):
                    nxt = []
                    for (vals, s2) in conts:
                        r = self._call_value(f, [C(i)], s2, fn, fid, depth, t)
                        if r is None:
                            continue
                        for (x, s3) in r:
                            nxt.append((vals + [x], s3))
                    conts = nxt
                    if not conts:
                        return None
                return [(('arr', vals), s2) for (vals, s2) in conts]
        r = super().summary(callee, t, args, s, fn, fid, depth)
        return r

    def _int_type_of(self, t, fn, arg=None):
        tys = t.get('atys', [])
        cand = tys[arg] if arg is not None and arg < len(tys) else (tys[0] if tys else '')
        cand = cand.replace('&mut ', '').replace('&', '')
        if cand in INT_W:
            return cand
        a = self.p.adts.get(cand)
        n = 0
        while a and not a['enum'] and len(a['variants'][0]['fields']) == 1 and n < 3:
            cand = a['variants'][0]['fields'][0]['ty']
            if cand in INT_W:
                return cand
            a = self.p.adts.get(cand)
            n += 1
        return None

    @staticmethod
    def _range_of(idx):
        """index operand -> (lo, hi, inclusive) for range types, else None"""
        if isinstance(idx, tuple) and idx[0] == 'adt':
            d = idx[1]
            if d == 'core::ops::range::Range':
                return (idx[4][0], idx[4][1], False)
            if d == 'core::ops::range::RangeFrom':
                return (idx[4][0], None, False)
            if d == 'core::ops::range::RangeTo':
                return (None, idx[4][0], False)
            if d == 'core::ops::range::RangeFull':
                return (None, None, False)
            if d == 'core::ops::range::RangeToInclusive':
                return (None, idx[4][0], True)
            if d == 'core::ops::range::RangeInclusive':
                return (idx[4][0], idx[4][1], True)
        return None


def _macname(mac):
    m = re.search(r'"([^"]+)"', mac or '')
    return m.group(1).split('::')[-1] if m else ''


# patch the base engine's assert handling to call check_assert (kept here to leave sym.py generic)
_orig_run = Engine.run


def inventory(prog, fn):
    """static list of panic-capable constructs of a function: [(kind, desc, line, block)]"""
    out = []
    for bi, b in enumerate(fn['blocks']):
        if b['cleanup']:
            continue
        t = b['term']
        if t['k'] == 'assert':
            k = t['kind']
            if k in ('MisalignedPointerDereference', 'NullPointerDereference', 'InvalidEnumConstruction'):
                continue
            if k.startswith('Overflow:'):
                desc = '%s %s' % (k.split(':')[1], t.get('opty', ''))
            elif k == 'BoundsCheck':
                desc = 'index'
            elif k in ('DivisionByZero', 'RemainderByZero'):
                desc = 'divisor'
            else:
                desc = 'neg'
            out.append((k, desc, t['sp']['line'], bi, t['sp']))
        elif t['k'] == 'call':
            c = t['resolved'] or t['callee']
            tc = t['callee']
            nm = c.split('::')[-1]
            if t['sp']['exp'] and t['sp'].get('mcrate') in ('tracing', 'tracing_attributes', 'tracing_core'):
                continue
            if INDEX_RX.search(c):
                out.append(('slice-index', None, t['sp']['line'], bi, t['sp']))
            elif c in ('core::slice::<impl [T]>::split_at', 'core::slice::<impl [T]>::split_at_mut'):
                out.append(('split_at', 'mid', t['sp']['line'], bi, t['sp']))
            elif c in ('core::slice::<impl [T]>::copy_from_slice', 'core::slice::<impl [T]>::clone_from_slice'):
                out.append(('copy_from_slice', 'lengths', t['sp']['line'], bi, t['sp']))
            elif (c.startswith('core::option::Option::<T>::') or c.startswith('core::result::Result::<T, E>::')) and nm in ('unwrap', 'expect'):
                out.append(('unwrap', nm, t['sp']['line'], bi, t['sp']))
            elif PANIC_FNS.search(c) and t['t'] < 0:
                out.append(('panic', _macname(t['sp'].get('mac', '')) or nm, t['sp']['line'], bi, t['sp']))
            elif re.match(r'core::ops::arith::(Add|Sub|Mul|Div|Rem)(Assign)?::', tc):
                lf = prog.fns.get(c)
                if (lf is None or lf.get('derived') or lf['span']['exp']) and not re.search(r'Duration|SystemTime|Instant|f64|f32', c + ''.join(t.get('atys', ()))):
                    out.append(('arith-trait', nm, t['sp']['line'], bi, t['sp']))
            elif re.search(r'arrayvec::.*::(push|insert|remove)$|alloc::vec::Vec::<T, A>::(insert|remove|swap_remove|split_off|drain)$|'
                           r'core::cell::RefCell::<T>::(borrow|borrow_mut)$|::from_secs_f64$|core::num::<impl \w+>::(pow|abs|div_euclid|rem_euclid)$|'
                           r'indexmap::.*Index.*::index(_mut)?$|std::collections::hash::map::.*Index.*::index$|alloc::collections::btree::map::.*Index.*::index$|'
                           r'core::str::.*Index.*::index$|alloc::string::.*Index.*::index(_mut)?$', c):
                out.append(('api', nm, t['sp']['line'], bi, t['sp']))
    return out
