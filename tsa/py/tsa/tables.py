"""Decision tables from abstract traces: compare the decision tree of a function with a boolean spec."""
import itertools
import re

from .sym import show, key


def norm(s):
    return re.sub(r'now#\d+', 'now', s)


def vshow(v):
    return norm(show(v))


class Atom:
    def __init__(self, name, pos, neg=None, truth=None):
        """truth: for non-boolean atoms (enum discriminants) maps the decided value to 0/1, e.g. {1: 1} with
        everything else (including ('ne', ...)) meaning 0"""
        self.name = name
        self.pos = re.compile(pos)
        self.neg = re.compile(neg) if neg else None
        self.truth = truth

    def match(self, atom_str):
        if self.pos.fullmatch(atom_str):
            return 1
        if self.neg is not None and self.neg.fullmatch(atom_str):
            return -1
        return 0


def assignment(outcome, atoms, ignore=None):
    """map a trace's decisions onto named atoms -> (assign dict, unknown atom strings)"""
    assign = {}
    unknown = []
    for (a, v, site) in outcome.st.decisions:
        s = vshow(a)
        if ignore is not None and ignore(s):
            continue
        hit = False
        for at in atoms:
            m = at.match(s)
            if m:
                if at.truth is not None:
                    if isinstance(v, int):
                        val = at.truth.get(v, 0)
                    else:
                        # ('ne', excluded): false iff every "true" value is excluded
                        val = 0 if all(k in v[1] for k, tv in at.truth.items() if tv) else None
                    if val is None:
                        unknown.append('%s = %s' % (s, v))
                    else:
                        assign[at.name] = val if m == 1 else 1 - val
                elif not isinstance(v, int):
                    unknown.append('%s = %s' % (s, v))
                else:
                    val = v if m == 1 else 1 - v
                    if at.name in assign and assign[at.name] != val:
                        unknown.append('inconsistent decisions on %s' % at.name)
                    assign[at.name] = val
                hit = True
                break
        if not hit:
            unknown.append('%s = %s @%s' % (s, v, site))
    return assign, unknown


def check_decision_table(chk, rid, what, where, outs, atoms, observe, spec, ignore=None, key_prefix=None, allow_cut=False):
    """For every abstract trace: under every completion of its decided atoms, spec(assign) must equal
    observe(trace). Also the traces must cover all 2^k assignments (no row undecided).
    Returns number of rows covered."""
    names = [a.name for a in atoms]
    covered = {}
    kp = key_prefix or ('%s|%s' % (rid, what))
    for o in outs:
        if o.kind == 'cut' and not allow_cut:
            chk.fail(rid, what + ':cut', where, 'analysis could not follow a loop in %s: verdict unknown' % what,
                     key=kp + '|cut')
            continue
        assign, unknown = assignment(o, atoms, ignore)
        if unknown:
            chk.fail(rid, what + ':atom', where,
                     '%s: the decision depends on a condition that is not part of the specified policy: %s'
                     % (what, '; '.join(unknown[:3])), key=kp + '|unknown-atom|' + re.sub(r'@.*', '', unknown[0]))
            continue
        obs = observe(o)
        free = [n for n in names if n not in assign]
        for vals in itertools.product([0, 1], repeat=len(free)):
            full = dict(assign)
            full.update(zip(free, vals))
            row = tuple(full[n] for n in names)
            want = spec(full)
            if want is None:      # don't-care row
                covered[row] = obs
                continue
            if row in covered and covered[row] != obs:
                chk.fail(rid, '%s:row%s' % (what, row), where, '%s: two traces disagree on row %s' % (what, full),
                         key=kp + '|ambiguous')
            covered[row] = obs
            if obs != want:
                chk.fail(rid, '%s:row%s' % (what, ''.join(map(str, row))), where,
                         '%s: for %s the code decides %s but the policy requires %s' % (what, full, obs, want),
                         detail={'assignment': full, 'observed': obs, 'required': want,
                                 'decisions': [(vshow(a), v) for a, v, _ in o.st.decisions]},
                         key=kp + '|row|' + ''.join(map(str, row)))
            else:
                chk.ok(rid, '%s:row%s' % (what, ''.join(map(str, row))), '%s -> %s' % (full, obs))
    missing = [r for r in itertools.product([0, 1], repeat=len(names)) if r not in covered]
    dont_care_missing = [r for r in missing if spec(dict(zip(names, r))) is not None]
    if dont_care_missing:
        chk.fail(rid, what + ':coverage', where,
                 '%s: %d of %d rows are not decided by any trace (e.g. %s)' % (
                     what, len(dont_care_missing), 2 ** len(names), dict(zip(names, dont_care_missing[0]))),
                 key=kp + '|coverage')
    return len(covered)


def _floc(fn):
    return '%s:%d' % (fn['span']['file'], fn['span']['line'])


def check_pred_table(chk, rid, what, fn, outs, atoms, spec):
    """a boolean function whose value on each trace is a constant or one remaining atom"""
    names = [a.name for a in atoms]
    seen = {}
    for o in outs:
        if o.kind != 'return':
            chk.fail(rid, what + ':' + o.kind, _floc(fn), '%s has a %s trace' % (what, o.kind), key='%s|%s|%s' % (rid, what, o.kind))
            continue
        assign, unknown = assignment(o, atoms)
        val = vshow(o.value)
        # a returned atom term counts as "decided by that atom"
        free_val = None
        if val not in ('0', '1'):
            for at in atoms:
                m = at.match(val)
                if m:
                    free_val = (at.name, m)
            if free_val is None:
                unknown.append('returns ' + val)
        if unknown:
            chk.fail(rid, what + ':atom', _floc(fn), '%s depends on a condition outside its specification: %s' % (what, unknown[:2]),
                     key='%s|%s|unknown-atom' % (rid, what))
            continue
        free = [n for n in names if n not in assign]
        for vals in itertools.product([0, 1], repeat=len(free)):
            full = dict(assign)
            full.update(zip(free, vals))
            if free_val:
                got = full[free_val[0]] if free_val[1] == 1 else 1 - full[free_val[0]]
            else:
                got = int(val)
            row = tuple(full[n] for n in names)
            seen[row] = got
            if bool(got) == spec(full):
                chk.ok(rid, '%s:row%s' % (what, ''.join(map(str, row))), '%s -> %s' % (full, got))
            else:
                chk.fail(rid, '%s:row%s' % (what, ''.join(map(str, row))), _floc(fn),
                         '%s returns %s for %s; the specification requires %s' % (what, bool(got), full, spec(full)),
                         key='%s|%s|row|%s' % (rid, what, ''.join(map(str, row))))
    if len(seen) != 2 ** len(names):
        chk.fail(rid, what + ':coverage', _floc(fn), '%s: %d of %d rows derived' % (what, len(seen), 2 ** len(names)),
                 key='%s|%s|coverage' % (rid, what))
