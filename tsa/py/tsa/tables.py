"""Decision tables from abstract traces: compare the decision tree of a function with a boolean spec."""
import itertools
import re

from .sym import show, key


def norm(s):
    """print-level canonicalisation: clock readings lose their serial number; the payload of an Option / Result known to be Some / Ok / Err is
    always written field:0(X), whether it came from a match arm, an `unwrap()` or a combinator"""
    s = re.sub(r'now#\d+', 'now', s)
    s = re.sub(r'\bunwrap\(', 'field:0(', s)
    s = re.sub(r'\bunwrap_err\(', 'field:0(', s)
    prev = None
    while prev != s:
        prev = s
        s = re.sub(r'([A-Za-z_][\w\.]*?)#(?:Some|Ok|Err)\.0', r'field:0(\1)', s)
    return s


def vshow(v):
    return norm(show(v))


class Atom:
    def __init__(self, name, pos, neg=None, truth=None):
        """truth: for non-boolean atoms (enum discriminants) maps the decided value to 0/1, e.g. {1: 1} with
        everything else (including ('ne', ...)) meaning 0"""
        self.name = name
        self.pos = re.compile(pos)
        self.neg = re.compile(neg) if neg else None
        self.truth = truth

    def match(self, atom_str):
        # a comparison may be spelt four ways (a < b, b > a, !(a >= b), !(b <= a)); the specification regexes are written in one of them
        for s_, pol in spellings(atom_str):
            if self.pos.fullmatch(s_):
                return pol
            if self.neg is not None and self.neg.fullmatch(s_):
                return -pol
        return 0


_MIRROR = {'Lt': 'Gt', 'Gt': 'Lt', 'Le': 'Ge', 'Ge': 'Le', 'Eq': 'Eq', 'Ne': 'Ne'}
_NEGATE = {'Lt': 'Ge', 'Ge': 'Lt', 'Gt': 'Le', 'Le': 'Gt', 'Eq': 'Ne', 'Ne': 'Eq'}


def split_cmp(s):
    """'Op(a, b)' with Op a comparison and a, b balanced -> (Op, a, b) else None"""
    m = re.match(r'(Lt|Le|Gt|Ge|Eq|Ne)\((.*)\)$', s)
    if not m:
        return None
    body = m.group(2)
    depth = 0
    for i, ch in enumerate(body):
        if ch in '([':
            depth += 1
        elif ch in ')]':
            depth -= 1
            if depth < 0:
                return None
        elif ch == ',' and depth == 0 and body[i:i + 2] == ', ':
            a, b = body[:i], body[i + 2:]
            # exactly two top-level operands
            d2 = 0
            for ch2 in b:
                if ch2 in '([':
                    d2 += 1
                elif ch2 in ')]':
                    d2 -= 1
                elif ch2 == ',' and d2 == 0:
                    return None
            return m.group(1), a, b
    return None


def spellings(s):
    """equivalent spellings of a decision atom with the polarity relative to the original: [(string, +1 | -1)]"""
    out = [(s, 1)]
    c = split_cmp(s)
    if c:
        op, a, b = c
        out.append(('%s(%s, %s)' % (_MIRROR[op], b, a), 1))
        out.append(('%s(%s, %s)' % (_NEGATE[op], a, b), -1))
        out.append(('%s(%s, %s)' % (_MIRROR[_NEGATE[op]], b, a), -1))
    return out


def _negv(v):
    return 1 - v if isinstance(v, int) and not isinstance(v, bool) and v in (0, 1) else v


def canon(s, v):
    """canonical spelling of a decided comparison over unsigned quantities: only `Lt` and `Eq` remain, negation moves into the value,
    `0 < x` / `x >= 1` become `Eq(x, 0)` negated. Other atoms are returned unchanged."""
    c = split_cmp(s)
    if not c:
        m = re.fullmatch(r'(is_some|is_ok)\((.*)\)', s)
        if m:
            return ('discr(%s)' % m.group(2), v if m.group(1) == 'is_some' else _negv(v))
        m = re.fullmatch(r'Not\((.*)\)', s)
        if m:
            return canon(m.group(1), _negv(v))
        return (s, v)
    op, a, b = c
    if op == 'Gt':
        op, a, b = 'Lt', b, a
    elif op == 'Ge':
        op, v = 'Lt', _negv(v)
    elif op == 'Le':
        op, a, b, v = 'Lt', b, a, _negv(v)
    elif op == 'Ne':
        op, v = 'Eq', _negv(v)
    if op == 'Lt' and a == '0':
        op, a, b, v = 'Eq', b, '0', _negv(v)
    elif op == 'Lt' and b == '1':
        op, b = 'Eq', '0'
    if op == 'Eq':
        a, b = sorted([a, b], key=lambda x: (x.isdigit(), x))
    return ('%s(%s, %s)' % (op, a, b), v)


def cdec(outcome_or_list):
    """canonical decisions of a trace as a dict (for order- and spelling-independent comparison with `cwant`)"""
    ds = outcome_or_list.st.decisions if hasattr(outcome_or_list, 'st') else outcome_or_list
    out = {}
    for d in ds:
        a, v = d[0], d[1]
        k, v2 = canon(a if isinstance(a, str) else vshow(a), v)
        out[k] = v2
    return out


def holds(decisions_or_cd, atom):
    """1 / 0 if the trace decided the comparison `atom` (printed form) true / false, None if it did not decide it. Recognises every spelling
    `canon` unifies and, for a comparison with a constant that canonicalises to Eq(X, k), an integer `match X { k => .., _ => .. }`
    (recorded as the decision X = k or X ∉ {..})."""
    cd = decisions_or_cd if isinstance(decisions_or_cd, dict) else cdec(decisions_or_cd)
    k_, v_ = canon(atom, 1)
    got = cd.get(k_)
    if got in (0, 1):
        return int(got == v_)
    m = re.fullmatch(r'Eq\((.*), (\d+)\)', k_)
    if m and m.group(1) in cd:
        x, k = cd[m.group(1)], int(m.group(2))
        eq = None
        if isinstance(x, int) and not isinstance(x, bool):
            eq = int(x == k)
        elif isinstance(x, tuple) and x[0] == 'ne' and k in set(x[1]):
            eq = 0
        if eq is not None:
            return int(eq == v_)
    return None


def cwant(pairs):
    return dict(canon(a, v) for a, v in pairs)


def decided(decisions, wanted):
    """value (0/1) a trace decided for the comparison `wanted` (a printed atom), whichever of its four spellings the code used; None if undecided"""
    for (a, v, *_r) in decisions:
        if not isinstance(v, int):
            continue
        for s_, pol in spellings(a if isinstance(a, str) else vshow(a)):
            if s_ == wanted:
                return v if pol == 1 else 1 - v
    return None


def assignment(outcome, atoms, ignore=None):
    """map a trace's decisions onto named atoms -> (assign dict, unknown atom strings)"""
    assign = {}
    unknown = []
    for (a, v, site) in outcome.st.decisions:
        s = vshow(a)
        if ignore is not None and ignore(s):
            continue
        hit = False
        for at in atoms:
            m = at.match(s)
            if m:
                if at.truth is not None:
                    if isinstance(v, int):
                        val = at.truth.get(v, 0)
                    else:
                        # ('ne', excluded): false iff every "true" value is excluded
                        val = 0 if all(k in v[1] for k, tv in at.truth.items() if tv) else None
                    if val is None:
                        unknown.append('%s = %s' % (s, v))
                    else:
                        assign[at.name] = val if m == 1 else 1 - val
                elif not isinstance(v, int):
                    unknown.append('%s = %s' % (s, v))
                else:
                    val = v if m == 1 else 1 - v
                    if at.name in assign and assign[at.name] != val:
                        unknown.append('inconsistent decisions on %s' % at.name)
                    assign[at.name] = val
                hit = True
                break
        if not hit:
            unknown.append('%s = %s @%s' % (s, v, site))
    return assign, unknown


def check_decision_table(chk, rid, what, where, outs, atoms, observe, spec, ignore=None, key_prefix=None, allow_cut=False):
    """For every abstract trace: under every completion of its decided atoms, spec(assign) must equal
    observe(trace). Also the traces must cover all 2^k assignments (no row undecided).
    Returns number of rows covered."""
    names = [a.name for a in atoms]
    covered = {}
    kp = key_prefix or ('%s|%s' % (rid, what))
    for o in outs:
        if o.kind == 'cut' and not allow_cut:
            chk.fail(rid, what + ':cut', where, 'analysis could not follow a loop in %s: verdict unknown' % what,
                     key=kp + '|cut')
            continue
        assign, unknown = assignment(o, atoms, ignore)
        if unknown:
            chk.fail(rid, what + ':atom', where,
                     '%s: the decision depends on a condition that is not part of the specified policy: %s'
                     % (what, '; '.join(unknown[:3])), key=kp + '|unknown-atom|' + re.sub(r'@.*', '', unknown[0]))
            continue
        obs = observe(o)
        free = [n for n in names if n not in assign]
        for vals in itertools.product([0, 1], repeat=len(free)):
            full = dict(assign)
            full.update(zip(free, vals))
            row = tuple(full[n] for n in names)
            want = spec(full)
            if want is None:      # don't-care row
                covered[row] = obs
                continue
            if row in covered and covered[row] != obs:
                chk.fail(rid, '%s:row%s' % (what, row), where, '%s: two traces disagree on row %s' % (what, full),
                         key=kp + '|ambiguous')
            covered[row] = obs
            if obs != want:
                chk.fail(rid, '%s:row%s' % (what, ''.join(map(str, row))), where,
                         '%s: for %s the code decides %s but the policy requires %s' % (what, full, obs, want),
                         detail={'assignment': full, 'observed': obs, 'required': want,
                                 'decisions': [(vshow(a), v) for a, v, _ in o.st.decisions]},
                         key=kp + '|row|' + ''.join(map(str, row)))
            else:
                chk.ok(rid, '%s:row%s' % (what, ''.join(map(str, row))), '%s -> %s' % (full, obs))
    missing = [r for r in itertools.product([0, 1], repeat=len(names)) if r not in covered]
    dont_care_missing = [r for r in missing if spec(dict(zip(names, r))) is not None]
    if dont_care_missing:
        chk.fail(rid, what + ':coverage', where,
                 '%s: %d of %d rows are not decided by any trace (e.g. %s)' % (
                     what, len(dont_care_missing), 2 ** len(names), dict(zip(names, dont_care_missing[0]))),
                 key=kp + '|coverage')
    return len(covered)


def _floc(fn):
    return '%s:%d' % (fn['span']['file'], fn['span']['line'])


def check_pred_table(chk, rid, what, fn, outs, atoms, spec):
    """a boolean function whose value on each trace is a constant or one remaining atom"""
    names = [a.name for a in atoms]
    seen = {}
    for o in outs:
        if o.kind != 'return':
            chk.fail(rid, what + ':' + o.kind, _floc(fn), '%s has a %s trace' % (what, o.kind), key='%s|%s|%s' % (rid, what, o.kind))
            continue
        assign, unknown = assignment(o, atoms)
        val = vshow(o.value)
        # a returned atom term counts as "decided by that atom"
        free_val = None
        if val not in ('0', '1'):
            for at in atoms:
                m = at.match(val)
                if m:
                    free_val = (at.name, m)
            if free_val is None:
                unknown.append('returns ' + val)
        if unknown:
            chk.fail(rid, what + ':atom', _floc(fn), '%s depends on a condition outside its specification: %s' % (what, unknown[:2]),
                     key='%s|%s|unknown-atom' % (rid, what))
            continue
        free = [n for n in names if n not in assign]
        for vals in itertools.product([0, 1], repeat=len(free)):
            full = dict(assign)
            full.update(zip(free, vals))
            if free_val:
                got = full[free_val[0]] if free_val[1] == 1 else 1 - full[free_val[0]]
            else:
                got = int(val)
            row = tuple(full[n] for n in names)
            seen[row] = got
            if bool(got) == spec(full):
                chk.ok(rid, '%s:row%s' % (what, ''.join(map(str, row))), '%s -> %s' % (full, got))
            else:
                chk.fail(rid, '%s:row%s' % (what, ''.join(map(str, row))), _floc(fn),
                         '%s returns %s for %s; the specification requires %s' % (what, bool(got), full, spec(full)),
                         key='%s|%s|row|%s' % (rid, what, ''.join(map(str, row))))
    if len(seen) != 2 ** len(names):
        chk.fail(rid, what + ':coverage', _floc(fn), '%s: %d of %d rows derived' % (what, len(seen), 2 ** len(names)),
                 key='%s|%s|coverage' % (rid, what))
