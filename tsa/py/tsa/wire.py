"""Wire model for C02 / C11: packet views as records of named header fields.

The packet crate's views are modelled axiomatically — justified by C12, which proves for every field that get_f(set_f(v)) = v and that setters
do not disturb other fields: `T::new(buf)` creates a packet record, `set_f(v)` logs and stores f := v, `get_f()` reads f (or an opaque wire
symbol when the field was never written), `packet()` denotes the packet's bytes and `T::new_view(bytes-of-packet)` re-opens the same record.
This lets the analysis compose *encode* (dispatch → builders) with *decode* (extract → strategy) through the fields themselves, for every
configuration cell, and check builder discipline (each setter once, provenance of its argument, ordering).
"""
import re

from .sym import Engine, St, C, is_c, key, UNIT, TOP, short
from .tables import vshow

VIEW_RX = re.compile(r"^trippy_packet::((?:ipv4|ipv6|udp|tcp)::\w+Packet|icmpv[46]::(?:\w+::)?\w+Packet)(?:::<'[a-z_]+>)?::(\w+)$")
ICMP_FAMILY = ('IcmpPacket', 'EchoRequestPacket', 'EchoReplyPacket', 'TimeExceededPacket', 'DestinationUnreachablePacket')


def fam(t):
    """icmpv4 / icmpv6 view types over one message are interchangeable views"""
    mod = t.split('::')[0]
    name = t.split('::')[-1]
    return mod if name in ICMP_FAMILY and mod.startswith('icmp') else t


class WireEngine(Engine):
    def __init__(self, prog, **kw):
        kw.setdefault('inline_depth', 4)
        super().__init__(prog, **kw)

    # ---- packet records (immutable tuples in the per-trace heap) ------------------------------------------
    def pkt_new(self, s, ty, buf=None, origin='built'):
        s.nsym += 1
        pid = s.nsym
        s.heap[('#pkt', pid)] = ('pktstate', ty, (), (), None, buf, origin)
        return ('pkt', pid)

    def pkt_state(self, s, pv):
        return s.heap.get(('#pkt', pv[1]))

    def pkt_fields(self, s, pv):
        return dict(self.pkt_state(s, pv)[2])

    def pkt_log(self, s, pv):
        return list(self.pkt_state(s, pv)[3])

    def pkt_set(self, s, pv, name, val, site=None):
        stt = self.pkt_state(s, pv)
        f = dict(stt[2])
        f[name] = val
        s.heap[('#pkt', pv[1])] = ('pktstate', stt[1], tuple(sorted(f.items(), key=lambda kv: kv[0])), stt[3] + ((name, val, site),), stt[4], stt[5], stt[6])

    def pkt_set_payload(self, s, pv, val, site=None):
        stt = self.pkt_state(s, pv)
        s.heap[('#pkt', pv[1])] = ('pktstate', stt[1], stt[2], stt[3] + (('payload', val, site),), val, stt[5], stt[6])

    def pkt_get(self, s, pv, name):
        stt = self.pkt_state(s, pv)
        f = dict(stt[2])
        if name in f:
            return f[name]
        return ('sym', 'wire.%s#%d.%s' % (stt[1].split('::')[-1], pv[1], name))

    def as_pkt(self, v, s):
        v = self._deref_val(v, s)
        if isinstance(v, tuple) and v[0] == 'pkt':
            return v
        if isinstance(v, tuple) and v[0] == 'adt' and len(v[4]) == 1:
            return self.as_pkt(v[4][0], s)
        return None

    def bytes_pkt(self, v, s):
        """if v denotes the bytes of a packet record (possibly sub-sliced from offset 0 / re-borrowed) return the packet"""
        v = self._deref_val(v, s)
        n = 0
        while isinstance(v, tuple) and n < 6:
            if v[0] == 'term' and v[1] == 'bytes':
                return v[2][0]
            if v[0] == 'term' and v[1] in ('subslice', 'call:index::index', 'call:array::index', 'call:index::index_mut', 'call:array::index_mut', 'index'):
                v = v[2][0]
            elif v[0] == 'term' and v[1].startswith('havoc:'):
                cp = s.heap.get(('#copy', key(v[2][0])))
                if cp is not None:
                    v = cp[0]          # the array's prefix was overwritten by copy_from_slice(src)
                else:
                    v = v[2][0]
            else:
                break
            n += 1
        return None

    def prefix_of(self, v, s):
        """(prefix source, slice end) if v is `ARRAY[..end]` (or the array) whose head was filled by copy_from_slice"""
        v = self._deref_val(v, s)
        end = None
        if isinstance(v, tuple) and v[0] == 'term' and v[1] in ('call:array::index', 'call:index::index', 'subslice'):
            rng = v[2][1] if v[1] != 'subslice' else None
            if v[1] == 'subslice':
                end = v[2][2]
            elif isinstance(rng, tuple) and rng[0] == 'adt' and rng[1].endswith('RangeTo'):
                end = rng[4][0]
            elif isinstance(rng, tuple) and rng[0] == 'adt' and rng[1].endswith('::Range') and vshow(rng[4][0]) == '0':
                end = rng[4][1]
            v = v[2][0]
        if isinstance(v, tuple) and v[0] == 'term' and v[1].startswith('havoc:'):
            cp = s.heap.get(('#copy', key(v[2][0])))
            if cp is not None:
                return cp[0], cp[1], end
        return None

    # ---- calls ---------------------------------------------------------------------------------------------
    def summary(self, callee, t, args, s, fn, fid, depth):
        c = callee
        one = lambda v: [(v, s)]
        dv = lambda i: self._deref_val(args[i], s)
        m = VIEW_RX.match(c)
        if m:
            ty, meth = m.group(1), m.group(2)
            site = (fn['path'], t['sp']['line'])
            if meth in ('new', 'new_view'):
                inner = self.bytes_pkt(args[0], s)
                if inner is not None:
                    ity = self.pkt_state(s, inner)[1]
                    if fam(ity) == fam(ty):
                        s.events.append(('pkt-view', ty, inner, site))
                        return one(('adt', 'core::result::Result', 0, 'Ok', [inner]))
                pv = self.pkt_new(s, ty, buf=dv(0), origin='built' if meth == 'new' else 'received')
                s.events.append(('pkt-new', ty, pv, dv(0), site, meth))
                return one(('adt', 'core::result::Result', 0, 'Ok', [pv]))
            pv = self.as_pkt(args[0], s) if args else None
            if pv is not None:
                if meth.startswith('set_') and meth != 'set_payload':
                    self.pkt_set(s, pv, meth[4:], self.purify(args[1], s), site)
                    return one(UNIT)
                if meth == 'set_payload':
                    self.pkt_set_payload(s, pv, self.purify(args[1], s), site)
                    return one(UNIT)
                if meth.startswith('get_'):
                    return one(self.pkt_get(s, pv, meth[4:]))
                if meth == 'packet':
                    return one(('term', 'bytes', [pv]))
                if meth in ('payload', 'payload_raw'):
                    stt = self.pkt_state(s, pv)
                    if stt[4] is not None:
                        return one(stt[4])
                    return one(('sym', 'wire.%s#%d.payload' % (stt[1].split('::')[-1], pv[1])))
                if meth == 'extension':
                    return one(('sym', 'wire.%s#%d.extension' % (self.pkt_state(s, pv)[1].split('::')[-1], pv[1])))
            if meth == 'minimum_packet_size':
                return None
        if c.startswith('trippy_packet::checksum::'):
            return one(('term', 'call:' + c.split('::')[-1], [self.purify(a, s) for a in args]))
        # byte-level helpers -------------------------------------------------------------------------------
        mm = re.fullmatch(r'core::num::<impl (u\d+)>::to_(be|le|ne)_bytes', c)
        if mm:
            w = int(mm.group(1)[1:]) // 8
            x = dv(0)
            order = range(w) if mm.group(2) == 'be' else reversed(range(w))
            return one(('arr', [('term', 'byte', [x, C(k)]) for k in order]))
        mm = re.fullmatch(r'core::num::<impl (u\d+)>::from_(be|le|ne)_bytes', c)
        if mm:
            arr = dv(0)
            w = int(mm.group(1)[1:]) // 8
            if isinstance(arr, tuple) and arr[0] == 'arr' and len(arr[1]) == w:
                els = arr[1] if mm.group(2) == 'be' else list(reversed(arr[1]))
                xs = {key(e[2][0]) for e in els if isinstance(e, tuple) and e[0] == 'term' and e[1] == 'byte'}
                if len(xs) == 1 and all(isinstance(e, tuple) and e[0] == 'term' and e[1] == 'byte' and e[2][1] == C(k) for k, e in enumerate(els)):
                    return one(els[0][2][0])
            return one(('term', 'from_%s_bytes' % mm.group(2), [arr]))
        if c == 'core::array::from_fn' or c.startswith('core::array::from_fn::'):
            n = None
            for g in t.get('gargs', ()):
                if g.isdigit():
                    n = int(g)
            f = dv(0)
            if n is not None and n <= 16 and isinstance(f, tuple) and f[0] == 'closure' and f[1] in self.p.fns:
                conts = [([], s)]
                for i in range(n):
                    nxt = []
                    for (vals, s2) in conts:
                        r = self._call_value(f, [C(i)], s2, fn, fid, depth, t)
                        if r is None:
                            continue
                        for (x, s3) in r:
                            nxt.append((vals + [x], s3))
                    conts = nxt
                    if not conts:
                        return None
                return [(('arr', vals), s2) for (vals, s2) in conts]
        if c in ('core::slice::<impl [T]>::copy_from_slice',):
            # dst[..k].copy_from_slice(src): remember the prefix on the destination array (Dublin/IPv6 magic)
            dst, src = args[0], dv(1)
            d = self._deref_val(dst, s)
            s.events.append(('copy', d, src, (fn['path'], t['sp']['line'])))
            if isinstance(d, tuple) and d[0] == 'term' and d[1] in ('call:array::index_mut', 'call:index::index_mut') and len(d[2]) == 2:
                rng = d[2][1]
                k = None
                if isinstance(rng, tuple) and rng[0] == 'adt' and rng[1].endswith('RangeTo'):
                    k = rng[4][0]
                s.heap[('#copy', key(d[2][0]))] = (src, k)
            return one(UNIT)
        if c in ('core::slice::<impl [T]>::as_slice', 'core::array::<impl [T; N]>::as_slice', 'core::slice::<impl [T]>::as_ref'):
            return one(dv(0))
        if c in ('core::slice::<impl [T]>::starts_with',):
            pf = self.prefix_of(args[0], s)
            if pf is not None and key(pf[0]) == key(dv(1)):
                # ARRAY[..end] starts with the bytes copied to its head iff end ≥ their length; `end` is len(prefix) + an unsigned quantity here
                src, k, end = pf
                if end is None:
                    return one(C(1))
                e_ = vshow(end)
                if re.fullmatch(r'Add\(.*, %s\)|Add\(%s, .*\)' % (re.escape(vshow(('term', 'len', [src]))), re.escape(vshow(('term', 'len', [src])))), e_) or \
                        re.fullmatch(r'Add\(.*, %d\)' % (len(src[1]) if src[0] == 'arr' else -1), e_):
                    return one(C(1))
            return one(('term', 'starts_with', [dv(0), dv(1)]))
        if c in ('core::slice::<impl [T]>::len', 'alloc::vec::Vec::<T, A>::len'):
            pk = self.bytes_pkt(args[0], s)
            return one(('term', 'len', [dv(0)]))
        return super().summary(callee, t, args, s, fn, fid, depth)

    def project(self, v, step, s):
        # indexing into a symbolic byte array that came from to_be_bytes
        if step[0] == 'i' and isinstance(v, tuple) and v[0] == 'arr' and is_c(step[1]) and step[1][1] < len(v[1]):
            return v[1][step[1][1]]
        return super().project(v, step, s)
