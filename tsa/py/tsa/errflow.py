"""Error discipline (A1/A3): how is each crate-`Result` produced by a call consumed?
classes: returned | propagated (`?`) | matched (inspected by match / moved into a value) | chained (map_err/or_else/… whose own
result is classified recursively) | swallowed:<idiom> | dropped"""
import re

from .facts import op_place
from .sym import short

SWALLOW = ('unwrap_or_default', 'unwrap_or', 'unwrap_or_else', 'ok', 'is_ok', 'is_err', 'err', 'is_ok_and', 'is_err_and')
CHAIN = ('map_err', 'or_else', 'and_then', 'map', 'inspect_err', 'inspect')


def local_uses(fn, local):
    r = []
    for bi, b in enumerate(fn['blocks']):
        if b['cleanup']:
            continue
        for st in b['stmts']:
            rv = st.get('rv')
            if not rv:
                continue
            ops = [rv.get('a'), rv.get('b')] + list(rv.get('ops', []))
            for o in ops:
                pl = op_place(o) if o else None
                if pl and pl['l'] == local:
                    # a use of a *projection* of the Result (`(res as Err).0`, bound by a match arm) means its variant has been inspected
                    r.append(('stmt', rv['k'] if not pl['p'] else 'payload', st['lhs']['l'] if not st['lhs']['p'] else -1, bi))
            if rv.get('p') and rv['p']['l'] == local:
                r.append(('stmt', rv['k'] if not rv['p']['p'] else 'payload', st['lhs']['l'] if not st['lhs']['p'] else -1, bi))
        t = b['term']
        if t['k'] == 'call':
            for o in t['args']:
                pl = op_place(o)
                if pl and pl['l'] == local:
                    r.append(('call', t['resolved'] or t['callee'], t['dest']['l'] if not t['dest']['p'] else -1, bi))
        elif t['k'] == 'switch':
            pl = op_place(t['d'])
            if pl and pl['l'] == local:
                r.append(('switch', '', -1, bi))
    return r


def classify(fn, local, depth=0):
    if local == 0:
        return 'returned'
    if depth > 8:
        return 'matched'
    u = local_uses(fn, local)
    if not u:
        return 'dropped'
    classes = []
    for (k, what, dest, bi) in u:
        if k == 'call':
            name = short(what).split('::')[-1]
            if name == 'branch':
                classes.append('propagated')
            elif name in CHAIN:
                classes.append(classify(fn, dest, depth + 1) if dest >= 0 else 'matched')
            elif name in SWALLOW:
                classes.append('swallowed:' + name)
            elif name in ('unwrap', 'expect', 'unwrap_err', 'expect_err'):
                classes.append('unwrapped')
            else:
                classes.append('matched')     # handed to another function which receives the Result
        elif k == 'stmt':
            if what in ('use', 'ref') and dest >= 0 and dest != local:
                classes.append(classify(fn, dest, depth + 1))
            else:
                classes.append('matched')
        else:
            classes.append('matched')
    for pref in ('swallowed', 'dropped'):
        for c in classes:
            if c.startswith(pref):
                return c
    for c in ('unwrapped', 'propagated', 'returned', 'matched'):
        if c in classes:
            return c
    return classes[0]


def result_sites(prog, files, err_types=('trippy_core::error::Error', 'std::io::error::Error', 'trippy_core::error::IoError')):
    """-> list of dict(fn, line, callee, cls)"""
    out = []
    for path, fn in prog.fns.items():
        if not any(f in fn['span']['file'] for f in files):
            continue
        if '::tests::' in path or 'mock' in path.lower():
            continue
        for bi, b in enumerate(fn['blocks']):
            if b['cleanup']:
                continue
            t = b['term']
            if t['k'] != 'call' or t['dest']['p']:
                continue
            ty = fn['locals'][t['dest']['l']]['ty']
            if not ty.startswith('core::result::Result<') or not any(e in ty for e in err_types):
                continue
            if t['sp']['exp'] and t['sp'].get('mcrate') in ('tracing', 'tracing_attributes', 'tracing_core'):
                continue
            callee = t['resolved'] or t['callee']
            nm = short(callee).split('::')[-1]
            if nm in CHAIN or nm in ('from_residual',):
                continue    # classified through the producer of their receiver
            out.append({'fn': path, 'line': t['sp']['line'], 'file': t['sp']['file'], 'callee': callee,
                        'cls': classify(fn, t['dest']['l'])})
    return out
