"""Fact extraction: run the TSA rustc driver over /repo's *current working tree* and cache by content hash.

Facts are a pure function of the bytes under crates/, examples/, Cargo.toml, Cargo.lock (+ driver source
and profile flags), so a cache keyed by that hash never serves stale facts; VERIF_NO_CACHE=1 forces a rerun.
"""
import fcntl
import hashlib
import json
import os
import shutil
import subprocess
import sys
import time

VERIF = os.path.abspath(os.path.join(os.path.dirname(__file__), '..', '..', '..'))
REPO = os.environ.get('TSA_REPO', '/repo')
CACHE = os.path.join(VERIF, '.cache')
DRIVER_DIR = os.path.join(VERIF, 'tsa', 'driver')
DRIVER = os.path.join(DRIVER_DIR, 'target', 'release', 'tsa-driver')

EXPECTED = ['trippy_packet.lib', 'trippy_core.lib', 'trippy_tui.lib', 'trippy_dns.lib', 'trippy_privilege.lib',
            'trippy.lib', 'trip.bin']

PROFILES = {
    # dev: overflow checks and debug assertions visible as MIR Asserts / calls
    'dev': '-Zmir-opt-level=0 -Awarnings',
    # release-like: used only to label findings "debug-only" vs "all builds"
    'rel': '-Zmir-opt-level=0 -Awarnings -Coverflow-checks=off -Cdebug-assertions=off',
}


def tree_hash(repo=REPO):
    h = hashlib.sha256()
    roots = ['crates', 'examples']
    files = []
    for r in roots:
        for dp, dn, fn in os.walk(os.path.join(repo, r)):
            dn[:] = sorted(d for d in dn if d not in ('target', '.git'))
            for f in sorted(fn):
                files.append(os.path.join(dp, f))
    for f in ('Cargo.toml', 'Cargo.lock'):
        files.append(os.path.join(repo, f))
    for f in files:
        try:
            with open(f, 'rb') as fh:
                data = fh.read()
        except OSError:
            continue
        h.update(os.path.relpath(f, repo).encode())
        h.update(b'\0')
        h.update(hashlib.sha256(data).digest())
    # the driver is part of the function
    with open(os.path.join(DRIVER_DIR, 'src', 'main.rs'), 'rb') as fh:
        h.update(hashlib.sha256(fh.read()).digest())
    return h.hexdigest()[:20]


def sysroot():
    return subprocess.check_output(['rustc', '+nightly', '--print', 'sysroot'], text=True).strip()


def ensure_driver():
    if os.path.exists(DRIVER) and os.path.getmtime(DRIVER) >= os.path.getmtime(os.path.join(DRIVER_DIR, 'src', 'main.rs')):
        return
    env = dict(os.environ, CARGO_NET_OFFLINE='true')
    subprocess.check_call(['cargo', 'build', '--release', '--offline'], cwd=DRIVER_DIR, env=env,
                          stdout=sys.stderr, stderr=sys.stderr)


def _complete(d):
    return all(os.path.exists(os.path.join(d, e + '.facts.json')) for e in EXPECTED)


def facts_dir(profile='dev', repo=REPO, log=sys.stderr):
    """Return a directory holding fresh facts for the current tree, extracting if needed (fail closed)."""
    assert profile in PROFILES
    os.makedirs(CACHE, exist_ok=True)
    th = tree_hash(repo)
    out = os.path.join(CACHE, 'facts', th, profile)
    no_cache = os.environ.get('VERIF_NO_CACHE') == '1'
    with open(os.path.join(CACHE, 'lock.' + profile), 'w') as lk:
        fcntl.flock(lk, fcntl.LOCK_EX)
        if _complete(out) and not no_cache:
            for d_ in (out, os.path.dirname(out)):
                try:
                    os.utime(d_, None)      # least-recently-USED eviction (see _gc)
                except OSError:
                    pass
            return out
        ensure_driver()
        t0 = time.time()
        tmp = out + '.tmp%d' % os.getpid()
        shutil.rmtree(tmp, ignore_errors=True)
        os.makedirs(tmp)
        target = os.path.join(CACHE, 'target-' + profile)
        # force cargo to re-run the wrapper for workspace members (its freshness cache would skip it)
        fp = os.path.join(target, 'debug', '.fingerprint')
        if os.path.isdir(fp):
            for d in os.listdir(fp):
                if d.startswith(('trippy', 'hello-world', 'toy-traceroute', 'hello_world', 'toy_traceroute')):
                    shutil.rmtree(os.path.join(fp, d), ignore_errors=True)
        env = dict(os.environ)
        env.update({
            'CARGO_NET_OFFLINE': 'true',
            'LD_LIBRARY_PATH': sysroot() + '/lib' + (':' + env['LD_LIBRARY_PATH'] if env.get('LD_LIBRARY_PATH') else ''),
            'RUSTFLAGS': PROFILES[profile],
            'RUSTC_WORKSPACE_WRAPPER': DRIVER,
            'CARGO_TARGET_DIR': target,
            'TSA_OUT': tmp,
        })
        env.pop('RUSTC_WRAPPER', None)
        cmd = ['cargo', '+nightly', 'check', '--offline', '--locked', '--workspace', '--manifest-path',
               os.path.join(repo, 'Cargo.toml')]
        p = subprocess.run(cmd, env=env, stdout=subprocess.PIPE, stderr=subprocess.STDOUT, text=True)
        if p.returncode != 0:
            log.write(p.stdout[-6000:])
            shutil.rmtree(tmp, ignore_errors=True)
            raise SystemExit('TSA: cargo check failed on the current tree (exit %d): no facts, no verdict' % p.returncode)
        if not _complete(tmp):
            missing = [e for e in EXPECTED if not os.path.exists(os.path.join(tmp, e + '.facts.json'))]
            log.write(p.stdout[-3000:])
            log.write('have: %s\n' % os.listdir(tmp))
            shutil.rmtree(tmp, ignore_errors=True)
            raise SystemExit('TSA: driver produced no facts for %s (fail closed)' % missing)
        shutil.rmtree(out, ignore_errors=True)
        os.makedirs(os.path.dirname(out), exist_ok=True)
        os.rename(tmp, out)
        with open(os.path.join(out, 'META.json'), 'w') as fh:
            json.dump({'tree_hash': th, 'profile': profile, 'extract_s': round(time.time() - t0, 1),
                       'time': time.time()}, fh)
        log.write('TSA: extracted %s facts for tree %s in %.1fs\n' % (profile, th, time.time() - t0))
        _gc()
        return out


def _gc(keep=40, min_age_s=3600):
    """evict the least recently used fact sets beyond `keep`, but never one used in the last hour: several checks (self-test variants,
    scratch copies) run in parallel and read their facts after the lock is released"""
    root = os.path.join(CACHE, 'facts')
    ds = [os.path.join(root, d) for d in os.listdir(root)]
    ds.sort(key=lambda d: os.path.getmtime(d), reverse=True)
    now = time.time()
    for d in ds[keep:]:
        try:
            if now - os.path.getmtime(d) > min_age_s:
                shutil.rmtree(d, ignore_errors=True)
        except OSError:
            pass


if __name__ == '__main__':
    prof = sys.argv[1] if len(sys.argv) > 1 else 'dev'
    print(facts_dir(prof))
