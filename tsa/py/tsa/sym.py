"""A4/A3/A9 engine: trace-partitioned abstract interpretation of MIR over a term domain.

Values are constants, opaque symbols (inputs), structured values (adt / tuple / array), references into an
abstract store, and uninterpreted terms. A `switchInt` on a known constant follows one edge; on an unknown
value the analysis *partitions*: one abstract trace per arm, each recording the literal decision taken
(`atom = value`). There are no path constraints beyond those literals and no solver: two decisions on
syntactically identical atoms are kept consistent, nothing else is pruned. Loops are cut after a fixed number
of visits per block per trace and the trace is marked `cut` (rules treat that as "unknown", fail closed).

Per trace the engine returns: outcome kind (return / panic / cut), return value, decisions, and the event log
(calls with abstract arguments, writes to struct fields with abstract values). Decision tables, effect counts
and provenance terms are all read off these.
"""
import copy
import os
import sys
import re

from .facts import op_place

TOP = ('top',)
UNIT = ('unit',)
TRACING_CRATES = ('tracing', 'tracing_attributes', 'tracing_core')


def C(v):
    return ('c', int(v))


def is_c(v):
    return isinstance(v, tuple) and v and v[0] == 'c'


class TooManyPaths(Exception):
    pass


INT_W = {'u8': 8, 'u16': 16, 'u32': 32, 'u64': 64, 'u128': 128, 'usize': 64, 'i8': 8, 'i16': 16, 'i32': 32,
         'i64': 64, 'i128': 128, 'isize': 64, 'bool': 1, 'char': 32}


def show(v, depth=0):
    if depth > 12:
        return '…'
    if not isinstance(v, tuple):
        return repr(v)
    k = v[0]
    if k == 'c':
        return str(v[1])
    if k == 'sym':
        return v[1]
    if k == 'adt':
        n = v[1].split('::')[-1]
        vn = v[3] if isinstance(v[3], str) else str(v[3])
        head = n if vn == n else n + '::' + vn
        return head + ('(' + ', '.join(show(x, depth + 1) for x in v[4]) + ')' if v[4] else '')
    if k == 'tuple':
        return '(' + ', '.join(show(x, depth + 1) for x in v[1]) + ')'
    if k == 'arr':
        return '[' + ', '.join(show(x, depth + 1) for x in v[1][:8]) + (', …' if len(v[1]) > 8 else '') + ']'
    if k == 'term':
        return v[1] + '(' + ', '.join(show(x, depth + 1) for x in v[2]) + ')'
    if k == 'ref':
        return '&' + str(v[1]) + ''.join('.' + str(s[1]) for s in v[2])
    if k == 'rec':
        return v[1] + '{' + ', '.join('%s=%s' % ('.'.join(map(str, kk)), show(x, depth + 1)) for kk, x in sorted(v[2].items(), key=str)) + '}'
    if k == 'ovr':
        return show(v[1], depth + 1)
    if k == 'pkt':
        return 'pkt#%d' % v[1]
    if k == 'closure':
        return 'closure:' + v[1].split('::')[-2]
    if k == 'fn':
        return 'fn:' + v[1]
    return k


class St:
    """per-trace state"""
    __slots__ = ('mem', 'heap', 'facts', 'events', 'decisions', 'visits', 'nsym', 'cut', 'nframes')

    def __init__(self):
        self.mem = {}        # (frame id, local) -> value
        self.heap = {}       # obj id -> value
        self.facts = {}      # atom key -> int | ('ne', frozenset)
        self.events = []
        self.decisions = []  # (atom value, chosen int or ('ne', set), site)
        self.visits = {}
        self.nsym = 0
        self.cut = False
        self.nframes = 0

    def fork(self):
        s = St()
        s.mem = dict(self.mem)
        s.heap = dict(self.heap)
        s.facts = dict(self.facts)
        s.events = list(self.events)
        s.decisions = list(self.decisions)
        s.visits = dict(self.visits)
        s.nsym = self.nsym
        s.cut = self.cut
        s.nframes = self.nframes
        return s


class Outcome:
    __slots__ = ('kind', 'value', 'st', 'site')

    def __init__(self, kind, value, st, site=None):
        self.kind = kind      # 'return' | 'panic' | 'cut'
        self.value = value
        self.st = st
        self.site = site

    def decided(self, pred):
        """decisions on atoms matching pred(atom) -> list of (atom, value)"""
        return [(a, v) for (a, v, _) in self.st.decisions if pred(a)]

    def calls(self, rx=None):
        r = [e for e in self.st.events if e[0] == 'call']
        if rx is not None:
            rxx = re.compile(rx)
            r = [e for e in r if rxx.search(e[1])]
        return r

    def writes(self, field=None, owner=None):
        r = [e for e in self.st.events if e[0] == 'write']
        if field is not None:
            r = [e for e in r if e[2] == field]
        if owner is not None:
            r = [e for e in r if e[1].endswith(owner)]
        return r


def key(v):
    """hashable canonical key of a value"""
    if isinstance(v, tuple):
        return tuple(key(x) for x in v)
    if isinstance(v, list):
        return ('#l',) + tuple(key(x) for x in v)
    if isinstance(v, dict):
        return ('#d',) + tuple(sorted((key(k), key(x)) for k, x in v.items()))
    return v


class Engine:
    def __init__(self, prog, inline_depth=3, loop_visits=2, max_paths=4000, opaque=(), assert_fork=False,
                 inline_filter=None, summaries=None, max_steps=200000):
        self.p = prog
        self.inline_depth = inline_depth
        self.loop_visits = loop_visits
        self.max_paths = max_paths
        self.opaque = [re.compile(o) for o in opaque]
        self.assert_fork = assert_fork
        self.inline_filter = inline_filter
        self.discr_adt = {}      # key of a discr(X) term -> path of X's enum
        self.extra_summaries = summaries or []
        self.max_steps = max_steps
        self.steps = 0
        self.npaths = 0

    # ------------------------------------------------------------------------------------------------
    # helpers for building inputs
    def sym_ref(self, st, name):
        """a reference to a fresh symbolic object"""
        oid = 'o%d' % len(st.heap)
        st.heap[oid] = ('sym', name)
        return ('ref', ('H', oid), ())

    def obj_ref(self, st, val):
        oid = 'o%d' % len(st.heap)
        st.heap[oid] = val
        return ('ref', ('H', oid), ())

    def adt_val(self, path, variant, fields=()):
        if path in self.p.adts:
            names = self.p.variant_names(path)
            vi = names.index(variant) if isinstance(variant, str) else variant
            return ('adt', path, vi, names[vi], list(fields))
        return ('adt', path, variant if isinstance(variant, int) else {'None': 0, 'Some': 1, 'Ok': 0, 'Err': 1}[variant],
                variant if isinstance(variant, str) else str(variant), list(fields))

    # ------------------------------------------------------------------------------------------------
    def run(self, fn, args, st=None, depth=0):
        """Evaluate fn on abstract args. Returns list of Outcome."""
        if isinstance(fn, str):
            fn = self.p.fns[fn]
        if st is None:
            st = St()
        if depth == 0:
            self.steps = 0
            self.npaths = 0
        st.nframes += 1
        fid = st.nframes
        for i, a in enumerate(args):
            st.mem[(fid, i + 1)] = a
        return self._explore(fn, fid, [(0, st)], depth)

    def run_region(self, fn, fid, bb, s, stops):
        """Continue the top-level frame `fid` of fn from block bb in state s until one of the blocks in `stops` is reached (outcome kind
        'stop', where = (path, block)); other outcomes (return / panic / cut) as usual. Used to summarise single-entry regions of long
        straight-line functions (a match and its arms) instead of multiplying traces."""
        s = s.fork()
        for b in stops:
            s.visits[(fid, b)] = 10 ** 6
        self.npaths = 0
        self.steps = 0
        outs = self._explore(fn, fid, [(bb, s)], 0, first_free=True)
        for o in outs:
            if o.kind in ('cut', 'loop-closed') and isinstance(o.site, tuple) and len(o.site) == 2 and o.site[1] in stops:
                o.kind = 'stop'
                o.st.cut = False
                for b in stops:
                    o.st.visits.pop((fid, b), None)
        return outs

    def _explore(self, fn, fid, work, depth, first_free=False):
        outs = []
        while work:
            bb, s = work.pop()
            while True:
                self.steps += 1
                if self.steps > self.max_steps:
                    raise TooManyPaths('step budget exhausted in %s' % fn['path'])
                vk = (fid, bb)
                if first_free:
                    first_free = False        # the region's own entry block may be one of its stops (loops): do not count the entry
                    n = 1
                else:
                    n = s.visits.get(vk, 0) + 1
                    s.visits[vk] = n
                if n > self.loop_visits:
                    if self.loop_closed(fn, bb):
                        outs.append(Outcome('loop-closed', TOP, s, (fn['path'], bb)))
                    else:
                        s.cut = True
                        outs.append(Outcome('cut', TOP, s, (fn['path'], bb)))
                    break
                self.on_block(fn, fid, bb, s, n)
                if n == 1 and not getattr(self, '_in_fill', False):
                    ex_ = self._try_fill_loop(fn, fid, bb, s, depth)
                    if ex_ is not None:
                        bb = ex_
                        continue
                b = fn['blocks'][bb]
                for sti in b['stmts']:
                    if 'lhs' in sti:
                        v = self.rvalue(sti['rv'], fn, fid, s)
                        self.assign(sti['lhs'], v, fn, fid, s, sti['sp'])
                    elif 'setdiscr' in sti:
                        pass
                t = b['term']
                k = t['k']
                if k == 'goto':
                    bb = t['t']
                elif k == 'drop':
                    bb = t['t']
                elif k == 'assert':
                    c = self.operand(t['cond'], fn, fid, s)
                    if t['kind'] == 'BoundsCheck' or t['kind'].startswith('Overflow'):
                        s.events.append(('assert', t['kind'], [self.purify(self.operand(x, fn, fid, s), s) for x in t['ops']],
                                         (fn['path'], t['sp']['line']), t.get('opty')))
                    self.on_assert(t, fn, fid, s)
                    if is_c(c):
                        if bool(c[1]) == bool(t['expected']):
                            bb = t['t']
                        else:
                            outs.append(Outcome('panic', ('assert', t['kind']), s, (fn['path'], bb, t['sp'])))
                            break
                    else:
                        if self.assert_fork:
                            s2 = s.fork()
                            s2.events.append(('assert-fail', t['kind'], fn['path'], t['sp']))
                            outs.append(Outcome('panic', ('assert', t['kind']), s2, (fn['path'], bb, t['sp'])))
                        bb = t['t']
                elif k == 'return':
                    outs.append(Outcome('return', s.mem.get((fid, 0), UNIT), s))
                    break
                elif k in ('unreachable', 'resume'):
                    break
                elif k == 'switch':
                    d = self.operand(t['d'], fn, fid, s)
                    d = self._known(d, s)
                    if (t['sp'].get('mcrate') in TRACING_CRATES) or (
                            not is_c(d) and contains(d, lambda x: isinstance(x, tuple) and x[:2] == ('term', 'tracing'))):
                        # tracing macros: assume the disabled branch (tracing has no effect on program state)
                        tg = [a[1] for a in t['arms'] if int(a[0]) == 0]
                        bb = tg[0] if tg else t['otherwise']
                        continue
                    if is_c(d):
                        tg = [a[1] for a in t['arms'] if int(a[0]) == d[1]]
                        bb = tg[0] if tg else t['otherwise']
                        continue
                    # partition
                    atom, neg = self._atom(d)
                    ak = key(atom)
                    vals = [int(a[0]) for a in t['arms']]
                    is_bool = t['dty'] == 'bool'
                    excluded = s.facts.get(ak)
                    ex = excluded[1] if isinstance(excluded, tuple) else frozenset()
                    branches = []
                    for a in t['arms']:
                        v = int(a[0])
                        if is_bool and neg:
                            v = 1 - v
                        if v in ex:
                            continue
                        branches.append((v, a[1]))
                    if is_bool:
                        ov = 1 - int(t['arms'][0][0]) if len(t['arms']) == 1 else None
                        if ov is not None:
                            if neg:
                                ov = 1 - ov
                            if ov not in ex:
                                branches.append((ov, t['otherwise']))
                    else:
                        rest = frozenset(vals) | ex
                        ov = ('ne', rest)
                        dvs = self._discr_values(self.discr_adt.get(ak, '')) if atom[:2] == ('term', 'discr') else None
                        if dvs is not None and rest <= dvs and len(dvs - rest) == 1:
                            # "none of the listed variants" of an enum with one variant left IS that variant: `if let Some(x) = o … else`
                            # and `match o { None => .., Some(x) => .. }` record the same decision
                            ov = next(iter(dvs - rest))
                        if dvs is not None and dvs <= rest and not os.environ.get('TSA_NO_PRUNE'):
                            # every variant of the enum is listed or already excluded: the otherwise edge is infeasible wherever the match
                            # lowering points it (tuple patterns route it to the catch-all arm instead of an unreachable block)
                            if os.environ.get('TSA_DEBUG_PRUNE'):
                                print('PRUNE', fn['path'][-40:], t['sp']['line'], show(atom)[:80], 'vals', vals, 'ex', sorted(ex), 'dvs', dvs, 'adt', self.discr_adt.get(ak), file=sys.stderr)
                        else:
                            branches.append((ov, t['otherwise']))
                    if is_bool and atom[:2] == ('term', 'Eq') and len(atom[2]) == 2:
                        a0_, a1_ = atom[2]
                        if is_c(a0_):
                            a0_, a1_ = a1_, a0_
                        if isinstance(a0_, tuple) and a0_[:2] == ('term', 'discr') and is_c(a1_):
                            # `x == Enum::Unit` / `matches!(x, Enum::Unit)` compiled to a comparison: record the decision on discr(x)
                            kd, k_ = key(a0_), a1_[1]
                            fd = s.facts.get(kd)
                            exd = fd[1] if isinstance(fd, tuple) else frozenset()
                            dvs = self._discr_values(self.discr_adt.get(kd, ''))
                            nb = []
                            for (v_, tg_) in branches:
                                if v_ == 1:
                                    if (isinstance(fd, int) and fd != k_) or k_ in exd:
                                        continue
                                    nb.append((k_, tg_))
                                else:
                                    if isinstance(fd, int):
                                        if fd == k_:
                                            continue
                                        nb.append((fd, tg_))
                                        continue
                                    rest_ = frozenset({k_}) | exd
                                    ov_ = ('ne', rest_)
                                    if dvs is not None and rest_ <= dvs and len(dvs - rest_) == 1:
                                        ov_ = next(iter(dvs - rest_))
                                    nb.append((ov_, tg_))
                            branches, atom, ak = nb, a0_, kd
                    # the otherwise edge of an enum discriminant switch with all variants listed is unreachable
                    branches = [(v, tg) for (v, tg) in branches
                                if fn['blocks'][tg]['term']['k'] != 'unreachable' or fn['blocks'][tg]['stmts']]
                    self.npaths += max(0, len(branches) - 1)
                    if self.npaths > self.max_paths:
                        raise TooManyPaths('more than %d abstract traces in %s' % (self.max_paths, fn['path']))
                    for (v, tg) in branches[1:]:
                        s2 = s.fork()
                        s2.facts[ak] = v
                        s2.decisions.append((atom, v, (fn['path'], t['sp']['line'])))
                        work.append((tg, s2))
                    if not branches:
                        break
                    v, tg = branches[0]
                    s.facts[ak] = v
                    s.decisions.append((atom, v, (fn['path'], t['sp']['line'])))
                    bb = tg
                elif k == 'call':
                    res = self.call(t, fn, fid, s, depth, bb)
                    if res is None:      # diverged
                        break
                    if isinstance(res, list):
                        # multiple outcomes from an inlined callee: continue each
                        cont = []
                        for (val, s2) in res:
                            if t['t'] < 0:
                                continue
                            self.assign(t['dest'], val, fn, fid, s2, t['sp'], is_call=True)
                            cont.append(s2)
                        if not cont:
                            break
                        for s2 in cont[1:]:
                            work.append((t['t'], s2))
                        s = cont[0]
                        bb = t['t']
                    else:
                        raise AssertionError
                else:
                    outs.append(Outcome('cut', TOP, s, (fn['path'], bb)))
                    break
        # propagate non-return outcomes that happened in callees
        outs.extend(self._pending.pop(fid, []) if hasattr(self, '_pending') else [])
        return outs

    # ------------------------------------------------------------------------------------------------
    def _try_fill_loop(self, fn, fid, bb, s, depth):
        """`for item in <iter_mut over place P> { *item = V }` with a loop-invariant V and no other effect is the assignment P := filled(V) (std contract
        of `for` over a mutable slice / array iterator: every element is visited once). Returns the block after the loop, or None if bb does not
        head such a loop. The body is evaluated once on a fresh item to establish that it stores V into the item and does nothing else."""
        b = fn['blocks'][bb]
        t = b['term']
        if t['k'] != 'call' or b.get('cleanup') or t.get('dest', {}).get('p') or len(t.get('args', ())) != 1:
            return None
        callee = t.get('resolved') or t.get('callee') or ''
        if not re.search(r'slice::iter::IterMut<.*> as core::iter::traits::iterator::Iterator>::next$|array::iter::IntoIter<&mut ', callee) and short(callee) != 'IterMut::next':
            return None
        heads = getattr(self, '_loop_heads', None)
        if heads is None:
            heads = self._loop_heads = {}
        if fn['path'] not in heads:
            from .cfg import CFG
            heads[fn['path']] = {h for (_x, h) in CFG(fn).back_edges()}
        if bb not in heads[fn['path']]:
            return None
        b1 = fn['blocks'][t['t']] if t.get('t') is not None else None
        if not b1 or b1['stmts'][1:] or b1['term']['k'] != 'switch':
            return None
        sw = b1['term']
        arms = {int(a[0]): a[1] for a in sw['arms']}
        body_bb = arms.get(1)
        exit_bb = arms.get(0, sw.get('otherwise'))
        if body_bb is None or exit_bb is None:
            return None
        # the iterated place
        s1 = s.fork()
        for sti in b['stmts']:
            if 'lhs' in sti:
                self.assign(sti['lhs'], self.rvalue(sti['rv'], fn, fid, s1), fn, fid, s1, sti['sp'])
        it = self.operand(t['args'][0], fn, fid, s1)
        if isinstance(it, tuple) and it[0] == 'ref':
            it = self.load(it[1], it[2], s1)
        if not (isinstance(it, tuple) and it[0] == 'term' and re.search(r'into_iter$|iter_mut$', it[1]) and len(it[2]) == 1 and isinstance(it[2][0], tuple)):
            return None
        target = it[2][0]
        if target[0] == 'sym' and re.fullmatch(r'\w+(\.\w+)+', str(target[1])):
            # the opaque iterator constructor kept only the printed path (`self.buffer`): find the parameter object it names and rebuild the place
            base, *flds = target[1].split('.')
            target = None
            for pi in range(1, fn.get('argc', 0) + 1):
                pv = s.mem.get((fid, pi))
                if not (isinstance(pv, tuple) and pv[0] == 'ref' and not pv[2]):
                    continue
                ov = self.load(pv[1], (), s)
                if not (isinstance(ov, tuple) and ov[0] in ('sym', 'rec') and ov[1] == base):
                    continue
                ty = re.sub(r"^&(?:'\w+ )?(?:mut )?", '', fn['locals'][pi]['ty'])
                proj = []
                for fname in flds:
                    a = self.p.adts.get(ty)
                    fl = [(i_, f_) for i_, f_ in enumerate(a['variants'][0]['fields'])] if a and not a.get('enum') else []
                    hit = [(i_, f_) for i_, f_ in fl if f_['name'] == fname]
                    if not hit:
                        proj = None
                        break
                    proj.append(('f', hit[0][0], fname, ty, hit[0][1]['ty']))
                    ty = hit[0][1]['ty']
                if proj:
                    target = ('ref', pv[1], tuple(proj))
                break
        if not (isinstance(target, tuple) and target[0] == 'ref'):
            return None
        item = self.sym_ref(s1, 'fill#item')
        s1.mem[(fid, t['dest']['l'])] = self.adt_val('core::option::Option', 'Some', [item])
        for st_ in b1['stmts']:
            if 'lhs' in st_:
                self.assign(st_['lhs'], self.rvalue(st_['rv'], fn, fid, s1), fn, fid, s1, st_['sp'])
        ne, nd = len(s1.events), len(s1.decisions)
        s1.visits[(fid, bb)] = 10 ** 6
        self._in_fill = True
        try:
            outs = self._explore(fn, fid, [(body_bb, s1)], depth)
        except TooManyPaths:
            outs = []
        finally:
            self._in_fill = False
        if len(outs) != 1 or outs[0].kind not in ('cut', 'loop-closed') or not (isinstance(outs[0].site, tuple) and outs[0].site[1] == bb):
            return None
        o = outs[0]
        if len(o.st.decisions) != nd:
            return None
        for e in o.st.events[ne:]:
            if e[0] == 'write' or (e[0] == 'call' and not re.search(r'::default$', e[1]) and not (e[5] and 'tracing' in e[5])):
                return None
        v = self.purify(self.load(item[1], item[2], o.st), o.st)
        if v == TOP or contains(v, lambda x: isinstance(x, tuple) and x[0] == 'sym' and str(x[1]).startswith('fill#item')):
            return None
        val = ('term', 'filled', [v])
        self.store(target[1], target[2], val, s)
        fsteps = [st_ for st_ in target[2] if st_[0] == 'f' and len(st_) > 3 and st_[3]]
        if fsteps:
            s.events.append(('write', fsteps[-1][3], fsteps[-1][2], val, (fn['path'], t['sp']['line']), '.'.join(str(st_[2]) for st_ in target[2] if st_[0] == 'f')))
        return exit_bb

    def on_assert(self, t, fn, fid, s):
        pass

    def on_block(self, fn, fid, bb, s, nvisit):
        pass

    def loop_closed(self, fn, bb):
        return False

    def _known(self, d, s):
        if is_c(d):
            return d
        atom, neg = self._atom(d)
        f = s.facts.get(key(atom))
        if isinstance(f, int):
            return C(1 - f if neg else f)
        return d

    @staticmethod
    def _atom(d):
        neg = False
        while isinstance(d, tuple) and d[0] == 'term' and d[1] == 'Not' and len(d[2]) == 1:
            d = d[2][0]
            neg = not neg
        return d, neg

    # ---- places ------------------------------------------------------------------------------------
    def resolve(self, place, fn, fid, s):
        """-> (root, proj) location; root None means value-rooted: (None, value)"""
        root = ('L', fid, place['l'])
        proj = ()
        for e in place['p']:
            k = e['k']
            if k == 'deref':
                v = self.load(root, proj, s) if root is not None else proj
                if isinstance(v, tuple) and v[0] == 'ref':
                    root, proj = v[1], v[2]
                elif isinstance(v, tuple) and v[0] in ('term', 'sym', 'ovr') and v != TOP:
                    # deref of a non-reference abstract value (e.g. the `&mut T` returned by an opaque call): the value itself is the
                    # object; writes through it are kept in an overlay so that later reads see them
                    base = v[1] if v[0] == 'ovr' else v
                    root, proj = ('V', key(base), base), ()
                else:
                    root, proj = None, v
            else:
                step = self._step(e, fn, fid, s)
                if root is None:
                    proj = self.project(proj, step, s)
                else:
                    proj = proj + (step,)
        return root, proj

    def _step(self, e, fn, fid, s):
        k = e['k']
        if k == 'field':
            return ('f', e['i'], e['n'], e.get('of', ''), e.get('ty', ''))
        if k == 'downcast':
            return ('d', e['v'], e['n'])
        if k == 'index':
            iv = s.mem.get((fid, e['l']), TOP)
            return ('i', iv)
        if k == 'cidx':
            return ('i', C(e['o'])) if not e['fe'] else ('x',)
        if k == 'subslice':
            # slice pattern `[a, b, rest @ ..]`: rest = base[from .. len − to] (from_end) or base[from .. to]
            return ('s', e['from'], e['to'], bool(e['fe']))
        return ('x',)

    def load(self, root, proj, s):
        if root is None:
            return proj
        if root[0] == 'L':
            v = s.mem.get((root[1], root[2]), TOP)
        elif root[0] == 'V':
            v = s.heap.get(('#V', root[1]), root[2])
        else:
            v = s.heap.get(root[1], TOP)
        for st in proj:
            v = self.project(v, st, s)
        return v

    def project(self, v, step, s):
        k = step[0]
        if not isinstance(v, tuple):
            return TOP
        if v[0] == 'ref' and k in ('f', 'd', 'i'):
            # auto-deref should not happen in MIR; be lenient
            v = self.load(v[1], v[2], s)
        if v[0] == 'ovr':
            if k == 'f' and (step[2] or str(step[1])) in v[2]:
                return v[2][step[2] or str(step[1])]
            return self.project(v[1], step, s)
        if k == 'd':
            if v[0] == 'sym':
                return ('sym', v[1] + '#' + str(step[2] or step[1]))
            return v
        if k == 'f':
            i, name = step[1], step[2]
            if v[0] == 'adt':
                return v[4][i] if i < len(v[4]) else TOP
            if v[0] == 'tuple':
                return v[1][i] if i < len(v[1]) else TOP
            if v[0] == 'closure':
                return v[2][i] if i < len(v[2]) else TOP
            if v[0] == 'sym':
                return ('sym', v[1] + '.' + (name or str(i)))
            if v[0] == 'rec':
                kk = (name or str(i))
                if kk in v[2]:
                    return v[2][kk]
                return ('sym', v[1] + '.' + kk)
            if v[0] == 'term':
                return ('term', 'field:' + (name or str(i)), [v])
            return TOP
        if k == 'i':
            iv = step[1]
            if v[0] == 'arr' and is_c(iv) and iv[1] < len(v[1]):
                return v[1][iv[1]]
            if v[0] in ('sym', 'term', 'arr', 'rec'):
                return ('term', 'index', [v, iv])
            return TOP
        if k == 's':
            if v[0] in ('sym', 'term') and v != TOP:
                ln = ('term', 'len', [v])
                hi = (ln if step[2] == 0 else ('term', 'Sub', [ln, C(step[2])])) if step[3] else C(step[2])
                return ('term', 'subslice', [v, C(step[1]), hi])
            return TOP
        return TOP

    def store(self, root, proj, val, s):
        if root is None:
            return False
        if root[0] == 'L':
            kk = (root[1], root[2])
            s.mem[kk] = self._update(s.mem.get(kk, TOP), proj, val, s)
        elif root[0] == 'V':
            cur = s.heap.get(('#V', root[1]), root[2])
            s.heap[('#V', root[1])] = self._update(cur, proj, val, s) if proj else val
        else:
            s.heap[root[1]] = self._update(s.heap.get(root[1], TOP), proj, val, s)
        return True

    def _update(self, v, proj, val, s):
        if not proj:
            return val
        step = proj[0]
        k = step[0]
        if k == 'd':
            return self._update(v, proj[1:], val, s)
        if k == 'f':
            i, name = step[1], step[2]
            if isinstance(v, tuple) and v[0] == 'adt':
                f = list(v[4])
                while len(f) <= i:
                    f.append(TOP)
                f[i] = self._update(f[i], proj[1:], val, s)
                return ('adt', v[1], v[2], v[3], f)
            if isinstance(v, tuple) and v[0] == 'tuple':
                f = list(v[1])
                while len(f) <= i:
                    f.append(TOP)
                f[i] = self._update(f[i], proj[1:], val, s)
                return ('tuple', f)
            if isinstance(v, tuple) and v[0] in ('sym', 'rec'):
                base = v[1]
                d = dict(v[2]) if v[0] == 'rec' else {}
                kk = name or str(i)
                old = d.get(kk, ('sym', base + '.' + kk))
                d[kk] = self._update(old, proj[1:], val, s)
                return ('rec', base, d)
            if isinstance(v, tuple) and v[0] in ('term', 'ovr'):
                base = v[1] if v[0] == 'ovr' else v
                d = dict(v[2]) if v[0] == 'ovr' else {}
                kk = name or str(i)
                oldv = d.get(kk)
                if oldv is None:
                    oldv = self.project(base, step, s)
                d[kk] = self._update(oldv, proj[1:], val, s)
                return ('ovr', base, d)
            if v == TOP or not isinstance(v, tuple) or v[0] in ('top',):
                # uninitialised local being built field by field (tuple / struct)
                f = [TOP] * (i + 1)
                f[i] = self._update(TOP, proj[1:], val, s)
                return ('tuple', f)
            return TOP
        if k == 'i':
            if isinstance(v, tuple) and v[0] == 'arr' and is_c(step[1]) and step[1][1] < len(v[1]):
                f = list(v[1])
                f[step[1][1]] = self._update(f[step[1][1]], proj[1:], val, s)
                return ('arr', f)
            return ('term', 'updated', [v, step[1], val])
        return TOP

    def assign(self, place, val, fn, fid, s, sp, is_call=False):
        root, proj = self.resolve(place, fn, fid, s)
        # record writes to named struct fields (effects), even when the target is symbolic
        last = None
        for e in place['p']:
            if e['k'] == 'field' and e.get('of'):
                last = e
        through_deref = any(e['k'] == 'deref' for e in place['p'])
        if last is not None and (through_deref or root is None or root[0] in ('H', 'V')):
            s.events.append(('write', last['of'], last['n'], val, (fn['path'], sp['line']), self._place_path(place)))
        elif last is None and through_deref and root is not None and root[0] in ('H', 'V') and proj:
            # `*r = v` where r is a `&mut` to a named field of an object (a helper handed `&mut self.field`): the same effect as writing the field
            fsteps = [st_ for st_ in proj if st_[0] == 'f' and len(st_) > 3 and st_[3]]
            if fsteps and proj[-1] == fsteps[-1]:
                s.events.append(('write', fsteps[-1][3], fsteps[-1][2], val, (fn['path'], sp['line']), '.'.join(str(st_[2]) for st_ in proj if st_[0] == 'f')))
        if root is None:
            return
        self.store(root, proj, val, s)

    @staticmethod
    def _place_path(place):
        return '.'.join(e['n'] for e in place['p'] if e['k'] == 'field')

    # ---- operands / rvalues -------------------------------------------------------------------------
    def operand(self, o, fn, fid, s):
        if o.get('const'):
            if 'bits' in o:
                ty = o['ty']
                if ty in INT_W or ty == 'bool':
                    v = int(o['bits'])
                    if ty.startswith('i') and ty in INT_W:
                        w = INT_W[ty]
                        if v >= 1 << (w - 1):
                            v -= 1 << w
                    return C(v)
                # scalar constant of ADT type (fieldless enum or newtype const)
                if ty in self.p.adts:
                    r = self.const_adt(ty, int(o['bits']))
                    if r is not None:
                        return r
                return ('term', 'const:' + ty, [C(int(o['bits']))])
            if 'fn' in o:
                return ('fn', o.get('fnres') or o['fn'], o.get('fnargs', ''))
            if 'pbytes' in o:
                v = self.decode_bytes(bytes.fromhex(o['pbytes']), o.get('pty', o['ty']))
                if v is not None:
                    return v
            if 'named' in o:
                m = re.search(r'\[.*; (\d+)\]$', o.get('ty', ''))
                return ('sym', 'const ' + o['named'] + ('#len=%s' % m.group(1) if m else ''))
            if o['ty'] == '()':
                return UNIT
            if o['ty'] in INT_W and re.fullmatch(r'Ty\(\w+, \w+/#\d+\)', o.get('dbg', '')):
                cg = s.mem.get((fid, '#cgen'))
                if cg is not None:
                    return C(cg)
            return ('term', 'const', [('sym', o.get('dbg', o['ty'])[:80])])
        p = op_place(o)
        if p is None:
            return TOP
        root, proj = self.resolve(p, fn, fid, s)
        return self.load(root, proj, s)

    def const_adt(self, ty, bits, depth=0):
        """scalar constant of a local type: fieldless enum variant or (nested) single-field newtype"""
        if ty in INT_W:
            return C(bits)
        a = self.p.adts.get(ty)
        if a is None or depth > 4:
            return None
        if a['enum']:
            for vi, var in enumerate(a['variants']):
                if int(var['discr']) == bits and not var['fields']:
                    return ('adt', ty, vi, var['name'], [])
            return None
        fs = a['variants'][0]['fields']
        if len(fs) == 1:
            inner = self.const_adt(fs[0]['ty'], bits, depth + 1)
            if inner is not None:
                return ('adt', ty, 0, a['variants'][0]['name'], [inner])
        return None

    def decode_bytes(self, b, ty):
        if ty in INT_W and len(b) * 8 >= INT_W[ty]:
            return C(int.from_bytes(b[:max(1, INT_W[ty] // 8)], 'little'))
        if ty == 'str':
            return ('term', 'str', [('sym', b.decode('utf8', 'replace'))])
        m = re.fullmatch(r'\[u8(; \d+)?\]', ty)
        if m:
            return ('arr', [C(x) for x in b])
        m = re.fullmatch(r'core::ops::range::RangeInclusive<(\w+)>', ty)
        if m and m.group(1) in INT_W:
            w = INT_W[m.group(1)] // 8
            if len(b) >= 2 * w:
                return ('adt', 'core::ops::range::RangeInclusive', 0, 'RangeInclusive',
                        [C(int.from_bytes(b[:w], 'little')), C(int.from_bytes(b[w:2 * w], 'little')), C(b[2 * w] if len(b) > 2 * w else 0)])
        a = self.p.adts.get(ty)
        if a and not a['enum'] and len(a['variants'][0]['fields']) == 1:
            inner = self.decode_bytes(b, a['variants'][0]['fields'][0]['ty'])
            if inner is not None:
                return ('adt', ty, 0, a['variants'][0]['name'], [inner])
        if a and a['enum'] and len(b) == 1:
            for vi, var in enumerate(a['variants']):
                if int(var['discr']) == b[0] and not var['fields']:
                    return ('adt', ty, vi, var['name'], [])
        if a and a['enum'] and len(b) > 1 and len(a['variants']) <= 256 and \
                all(f_['ty'] in INT_W for var in a['variants'] for f_ in var['fields']):
            # an enum whose data variants carry only integers has no niche: a one-byte tag at offset 0; a fieldless variant is decided by it
            for vi, var in enumerate(a['variants']):
                if int(var['discr']) == b[0] and not var['fields']:
                    return ('adt', ty, vi, var['name'], [])
        return None

    def discr(self, v, adt, s):
        if isinstance(v, tuple):
            if v[0] == 'adt':
                a = self.p.adts.get(v[1])
                if a is not None:
                    return C(int(a['variants'][v[2]]['discr']))
                return C(v[2])
            if v[0] == 'ref':
                return self.discr(self.load(v[1], v[2], s), adt, s)
        t = ('term', 'discr', [v])
        if adt:
            self.discr_adt[key(t)] = adt
        f = s.facts.get(key(t))
        if isinstance(f, int):
            return C(f)
        return t

    def _discr_values(self, adt):
        """the discriminant values of an enum, or None if unknown"""
        if adt in ('core::option::Option', 'core::result::Result') or adt.startswith(('core::option::Option<', 'core::result::Result<')):
            return {0, 1}
        a = self.p.adts.get(adt)
        if a and a.get('enum'):
            try:
                return {int(v_['discr']) for v_ in a['variants']}
            except (KeyError, ValueError, TypeError):
                return None
        return None

    def rvalue(self, rv, fn, fid, s):
        k = rv['k']
        if k == 'use':
            return self.operand(rv['a'], fn, fid, s)
        if k in ('ref', 'rawptr'):
            root, proj = self.resolve(rv['p'], fn, fid, s)
            if root is None:
                return proj       # reference to a value-rooted place: keep the value (transparent)
            if root[0] == 'V':
                return self.load(root, proj, s)   # likewise (the overlay is keyed by the base term, so re-derefs find it again)
            return ('ref', root, proj)
        if k == 'discr':
            root, proj = self.resolve(rv['p'], fn, fid, s)
            return self.discr(self.load(root, proj, s), rv.get('adt'), s)
        if k == 'cast':
            v = self.operand(rv['a'], fn, fid, s)
            ty, frm = rv['ty'], rv.get('from', '')
            if is_c(v) and ty in INT_W:
                w = INT_W[ty]
                x = v[1] & ((1 << w) - 1)
                if ty.startswith('i') and x >= 1 << (w - 1):
                    x -= 1 << w
                return C(x)
            if ty in INT_W and frm in INT_W:
                if INT_W[ty] >= INT_W[frm] and not (frm.startswith('i') and ty.startswith('u')):
                    return v
                return ('term', 'as_' + ty, [v])
            if ty in INT_W and isinstance(v, tuple) and v[0] == 'adt' and not v[4]:
                a = self.p.adts.get(v[1])
                if a:
                    return C(int(a['variants'][v[2]]['discr']))
            if ty in ('f64', 'f32'):
                return ('term', 'as_' + ty, [v])
            return v
        if k == 'agg':
            kd = rv['kind']
            ops = [self.operand(o, fn, fid, s) for o in rv['ops']]
            if kd['a'] == 'tuple':
                return ('tuple', ops) if ops else UNIT
            if kd['a'] == 'array':
                return ('arr', ops)
            if kd['a'] == 'adt':
                return ('adt', kd['def'], kd['v'], kd['vn'], ops)
            if kd['a'] == 'closure':
                return ('closure', kd['def'], ops)
            return TOP
        if k == 'repeat':
            v = self.operand(rv['a'], fn, fid, s)
            n_ = rv['n']
            if isinstance(n_, int) and n_ < 0 and isinstance(s.mem.get((fid, '#cgen')), int):
                n_ = s.mem[(fid, '#cgen')]       # `[x; N]` with N the function's const generic, bound for this frame by the caller
            return ('term', 'repeat', [v, C(n_)])
        if k == 'bin':
            a = self.operand(rv['a'], fn, fid, s)
            b = self.operand(rv['b'], fn, fid, s)
            return self.binop(rv['op'], a, b, rv.get('aty', ''))
        if k == 'un':
            a = self.operand(rv['a'], fn, fid, s)
            op = rv['op']
            if op == 'Not':
                if is_c(a):
                    if rv.get('aty') == 'bool':
                        return C(1 - a[1])
                    w = INT_W.get(rv.get('aty', ''), 64)
                    return C(~a[1] & ((1 << w) - 1))
                if isinstance(a, tuple) and a[0] == 'term' and a[1] == 'Not':
                    return a[2][0]
                return ('term', 'Not', [a])
            if op == 'Neg':
                return C(-a[1]) if is_c(a) else ('term', 'Neg', [a])
            if op == 'PtrMetadata':
                return ('term', 'len', [self._deref_val(a, s)])
            return ('term', op, [a])
        return TOP

    def purify(self, v, s, depth=0):
        """replace references by the values they point to, recursively (for printing / term building)"""
        if depth > 6 or not isinstance(v, tuple):
            return v
        k = v[0]
        if k == 'ref':
            return self.purify(self.load(v[1], v[2], s), s, depth + 1)
        if k == 'adt':
            return ('adt', v[1], v[2], v[3], [self.purify(x, s, depth + 1) for x in v[4]])
        if k in ('tuple', 'arr'):
            return (k, [self.purify(x, s, depth + 1) for x in v[1]])
        if k == 'closure':
            return (k, v[1], [self.purify(x, s, depth + 1) for x in v[2]])
        return v

    def _deref_val(self, v, s):
        n = 0
        while isinstance(v, tuple) and v[0] == 'ref' and n < 8:
            v = self.load(v[1], v[2], s)
            n += 1
        return v

    FOLD = {
        'Add': lambda x, y: x + y, 'Sub': lambda x, y: x - y, 'Mul': lambda x, y: x * y,
        'Eq': lambda x, y: int(x == y), 'Ne': lambda x, y: int(x != y), 'Lt': lambda x, y: int(x < y),
        'Le': lambda x, y: int(x <= y), 'Gt': lambda x, y: int(x > y), 'Ge': lambda x, y: int(x >= y),
        'BitAnd': lambda x, y: x & y, 'BitOr': lambda x, y: x | y, 'BitXor': lambda x, y: x ^ y,
        'Shl': lambda x, y: x << y, 'Shr': lambda x, y: x >> y,
        'Div': lambda x, y: x // y if y else 0, 'Rem': lambda x, y: x % y if y else 0,
    }

    def binop(self, op, a, b, aty=''):
        wo = op.endswith('WithOverflow')
        base = op.replace('WithOverflow', '').replace('Unchecked', '')
        a = self._unwrap_newtype(a)
        b = self._unwrap_newtype(b)
        if is_c(a) and is_c(b) and base in self.FOLD:
            r = self.FOLD[base](a[1], b[1])
            ov = 0
            if aty in INT_W and base in ('Add', 'Sub', 'Mul', 'Shl'):
                w = INT_W[aty]
                if aty.startswith('u'):
                    if r < 0 or r >= 1 << w:
                        ov = 1
                        r &= (1 << w) - 1
            r = C(r)
            return ('tuple', [r, C(ov)]) if wo else r
        if base in ('Eq', 'Ne') and key(a) == key(b) and a != TOP:
            r = C(1 if base == 'Eq' else 0)
            return r
        t = ('term', base, [a, b])
        return ('tuple', [t, ('term', 'ovf', [t])]) if wo else t

    def _unwrap_newtype(self, v):
        return v

    # ---- calls -------------------------------------------------------------------------------------
    def call(self, t, fn, fid, s, depth, bb):
        """returns list of (value, state) continuations, or None if the call diverges on every trace"""
        callee = t['resolved'] or t['callee']
        args = [self.operand(a, fn, fid, s) for a in t['args']]
        site = (fn['path'], t['sp']['line'])
        mac = t['sp']['mac'] if t['sp']['exp'] else ''
        ev = ('call', callee, args, site, t.get('callee_args', ''), mac, depth,
              [self.purify(a, s) for a in args])
        s.events.append(ev)
        if t['t'] < 0 and not (callee in self.p.fns):
            # diverging external call: panic
            self._emit_outcome(fid, Outcome('panic', ('call', callee), s, (fn['path'], bb, t['sp'])))
            return None
        for h in self.extra_summaries:
            r = h(self, callee, t, args, s, fn, fid)
            if r is not None:
                return r
        r = self.summary(callee, t, args, s, fn, fid, depth)
        if r is not None:
            return r
        target = None
        if callee in self.p.fns:
            target = callee
        if target and (depth < self.inline_depth or (self.inline_depth > 0 and not os.environ.get('TSA_NO_LEAF') and self._is_conversion_leaf(target))) and not any(o.search(callee) for o in self.opaque) and \
                (self.inline_filter is None or self.inline_filter(callee)):
            nums = [int(g) for g in t.get('gargs', ()) if g.isdigit()]
            if len(nums) == 1:
                # the callee's single const generic (e.g. get_bytes::<N>): bound for its frame
                s.mem[(s.nframes + 1, '#cgen')] = nums[0]
            outs = self.run(self.p.fns[target], args, s, depth + 1)
            conts = []
            for o in outs:
                if o.kind == 'return':
                    conts.append((o.value, o.st))
                else:
                    self._emit_outcome(fid, o)
            return conts if conts else None
        return [(self.opaque_call(callee, t, args, s), s)]

    def _is_conversion_leaf(self, path):
        """a local `From::from` / `Into::into` impl without calls or branches (newtype wrapping / unwrapping such as `usize::from(Sequence)`): inlined at any
        depth, so that moving an expression into a helper does not turn `usize::from(x)` into an opaque call one level further down"""
        c = getattr(self, '_conv_leaf', None)
        if c is None:
            c = self._conv_leaf = {}
        if path not in c:
            f = self.p.fns[path]
            leaf = len(f['blocks']) <= 2 and all(b['term']['k'] in ('return', 'goto') for b in f['blocks'])
            # an argument-less leaf (`const fn minimum_packet_size() -> usize { 20 }`) is a named constant
            c[path] = (leaf and f.get('argc', 1) == 0 and f['kind'] != 'Closure') or bool(re.search(r'( as core::convert::(From|Into)<[^>]*>>|<impl core::convert::(From|Into)<.*> for [\w:]+>)::(from|into)$', path)) and len(f['blocks']) <= 2 and \
                all(b['term']['k'] in ('return', 'goto') for b in f['blocks'])
        return c[path]

    def _emit_outcome(self, fid, o):
        if not hasattr(self, '_pending'):
            self._pending = {}
        self._pending.setdefault(fid, []).append(o)

    def opaque_call(self, callee, t, args, s):
        # havoc what is passed by &mut
        pure = [self.purify(a, s) for a in args]
        for a, aty in zip(args, t.get('atys', ())):
            if aty.startswith('&mut') and isinstance(a, tuple) and a[0] == 'ref':
                s.nsym += 1
                old = self.load(a[1], a[2], s)
                self.store(a[1], a[2], ('term', 'havoc:' + short(callee), [old, C(s.nsym)]), s)
        return ('term', 'call:' + short(callee), pure)

    # std / idiom summaries --------------------------------------------------------------------------
    def summary(self, callee, t, args, s, fn, fid, depth):
        c = callee
        tc = t['callee']          # trait-level (unresolved) path
        dv = lambda i: self._deref_val(args[i], s)
        one = lambda v: [(v, s)]
        lf = self.p.fns.get(c)
        local_manual = lf is not None and not lf.get('derived') and not lf['span']['exp']
        aty = lambda i: (t.get('atys') or ['', ''])[i] if i < len(t.get('atys') or []) else ''
        if re.search(r'core::ops::range::RangeInclusive::<\w+>::contains$|RangeInclusive::<Idx>::contains$', c) and len(args) == 2:
            r_ = dv(0)
            if isinstance(r_, tuple) and r_[0] == 'adt' and r_[1].endswith('RangeInclusive') and len(r_[4]) >= 2:
                return one(('term', 'in_range', [self.purify(dv(1), s), r_[4][0], r_[4][1]]))
        if c in ('core::net::ip_addr::IpAddr::is_ipv4', 'core::net::ip_addr::IpAddr::is_ipv6') and args:
            # the same decision a `match addr { V4(_) => .., V6(_) => .. }` records: discr(addr) = 0 | 1
            v_ = self.purify(dv(0), s)
            want6 = c.endswith('is_ipv6')
            if isinstance(v_, tuple) and v_[0] == 'adt':
                return one(C(int((v_[2] == 1) == want6)))
            atom = ('term', 'discr', [v_])
            f_ = s.facts.get(key(atom))
            outs_ = []
            for var in (1, 0):
                if isinstance(f_, int) and f_ != var:
                    continue
                s2 = s.fork() if (var == 1 and not isinstance(f_, int)) else s
                if not isinstance(f_, int):
                    s2.facts[key(atom)] = var
                    s2.decisions.append((atom, var, (fn['path'], t['sp']['line'])))
                outs_.append((C(int((var == 1) == want6)), s2))
            return outs_
        if c in ('core::mem::take', 'core::mem::replace') and args and isinstance(args[0], tuple) and args[0][0] == 'ref':
            # mem::take(&mut place) / mem::replace(&mut place, v): returns the old value and WRITES the default / v into the place
            root_, proj_ = args[0][1], tuple(args[0][2])
            oldv = self.purify(self.load(root_, proj_, s), s)
            ga_ = t.get('gargs') or ['']
            newv = self.default_of(ga_[0]) if c.endswith('take') else self.purify(args[1], s)
            if c.endswith('take') and isinstance(newv, tuple) and newv[0] == 'term' and ga_[0] in self.p.adts and self.p.adts[ga_[0]]['enum']:
                # #[derive(Default)] on an enum: the variant marked #[default]
                dv_ = [im for im in self.p.impls if im['adt'] == ga_[0] and im['trait'] == 'core::default::Default']
                dfn = self.p.fns.get(dv_[0]['items'][0]['path']) if dv_ and dv_[0]['items'] else None
                if dfn is not None and depth < 8:
                    outs_d = self.run(dfn, [], s, depth + 1)
                    rets_d = [o for o in outs_d if o.kind == 'return']
                    if len(rets_d) == 1:
                        newv = rets_d[0].value
            self.store(root_, proj_, newv, s)
            fsteps = [st_ for st_ in proj_ if st_[0] == 'f' and len(st_) > 3 and st_[3]]
            if fsteps:
                s.events.append(('write', fsteps[-1][3], fsteps[-1][2], newv, (fn['path'], t['sp']['line']), '.'.join(str(st_[2]) for st_ in proj_ if st_[0] == 'f')))
            return one(oldv)
        if c.endswith('boxed::box_assume_init_into_vec_unsafe') or c.endswith('boxed::box_assume_init_into_vec'):
            # vec![a, b, c]: the element count is in the argument's type Box<MaybeUninit<[T; N]>>
            m = re.search(r'; (\d+)\]>+$', aty(0))
            if m:
                return one(('term', 'vec#len=%s' % m.group(1), [self.purify(args[0], s)]))
        if tc in ('core::cmp::PartialEq::eq', 'core::cmp::PartialEq::ne'):
            if local_manual:
                return None
            for i_, j_ in ((0, 1), (1, 0)):
                cv = self.purify(dv(i_), s)
                if isinstance(cv, tuple) and cv[0] == 'adt' and not cv[4] and cv[1] in self.p.adts and self.p.adts[cv[1]]['enum'] and \
                        (lf is None or lf.get('derived')):
                    # `x == Enum::Unit` with the derived PartialEq: true iff x is that variant — the decision a `match` records
                    other = self.purify(dv(j_), s)
                    if not (isinstance(other, tuple) and other[0] == 'adt'):
                        dk_ = C(int(self.p.adts[cv[1]]['variants'][cv[2]]['discr']))
                        return one(self.binop('Ne' if tc.endswith('::ne') else 'Eq', self.discr(other, cv[1], s), dk_))
            return one(self.binop('Ne' if tc.endswith('::ne') else 'Eq', self.strip_typed(dv(0), aty(0), s), self.strip_typed(dv(1), aty(1), s)))
        m = re.match(r'core::cmp::PartialOrd::(lt|le|gt|ge)$', tc)
        if m:
            if local_manual:
                return None
            return one(self.binop({'lt': 'Lt', 'le': 'Le', 'gt': 'Gt', 'ge': 'Ge'}[m.group(1)],
                                  self.strip_typed(dv(0), aty(0), s), self.strip_typed(dv(1), aty(1), s)))
        if tc in ('core::cmp::Ord::max', 'core::cmp::Ord::min', 'core::cmp::max', 'core::cmp::min'):
            a, b = self.strip(dv(0), s), self.strip(dv(1), s)
            nm = 'Max' if tc.endswith('max') else 'Min'
            if is_c(a) and is_c(b):
                return one(self.rewrap(C(max(a[1], b[1]) if nm == 'Max' else min(a[1], b[1])), t, fn))
            return one(self.rewrap(('term', nm, [a, b]), t, fn))
        if tc in ('core::clone::Clone::clone', 'core::borrow::Borrow::borrow', 'core::convert::AsRef::as_ref',
                  'alloc::borrow::ToOwned::to_owned', 'core::ops::deref::Deref::deref',
                  'core::ops::deref::DerefMut::deref_mut'):
            if local_manual:
                return None
            if tc.startswith('core::ops::deref'):
                return one(args[0] if isinstance(args[0], tuple) and args[0][0] == 'ref' else dv(0))
            return one(dv(0))
        if c.startswith('core::option::Option::<T>::') or c.startswith('core::result::Result::<T, E>::'):
            r = self.option_summary(c.split('::')[-1], c.startswith('core::option'), t, args, s, fn, fid, depth)
            if r is not None:
                return r
        if tc in ('core::convert::Into::into', 'core::convert::From::from') and t.get('gargs') and \
                len(set(t['gargs'])) == 1:
            return one(args[0])
        if tc == 'core::convert::Into::into':
            # resolved to blanket impl: U::from(t); try to find the local From impl
            ga = t.get('gargs', [])
            if len(ga) == 2:
                if ga[0] == ga[1]:
                    return one(args[0])
                cand = '<%s as core::convert::From<%s>>::from' % (ga[1], ga[0])
                if cand in self.p.fns and depth < self.inline_depth:
                    outs = self.run(self.p.fns[cand], args, s, depth + 1)
                    return [(o.value, o.st) for o in outs if o.kind == 'return'] or None
                if ga[0] in INT_W and ga[1] in INT_W:
                    return one(args[0])
                return one(('term', 'into:' + ga[1].split('::')[-1], [dv(0)]))
        if tc == 'core::convert::From::from':
            ga = t.get('gargs', [])
            if len(ga) == 2 and ga[0] in INT_W and ga[1] in INT_W:
                return one(args[0])
        if c == '<T as core::convert::TryInto<U>>::try_into':
            return one(('term', 'try_into', [dv(0)]))
        if tc == 'core::default::Default::default' and lf is None:
            ga = t.get('gargs', [''])[0]
            if ga in INT_W:
                return one(C(0))
            if ga.startswith('core::option::Option<'):
                return one(self.adt_val('core::option::Option', 'None'))
            return one(('term', 'default:' + ga.split('::')[-1], []))
        if c == '<core::option::Option<T> as core::default::Default>::default':
            return one(self.adt_val('core::option::Option', 'None'))
        m = re.match(r'core::ops::(?:arith|bit)::(Add|Sub|Mul|Div|Rem|BitAnd|BitOr|BitXor|Shl|Shr)::(add|sub|mul|div|rem|bitand|bitor|bitxor|shl|shr)$', tc)
        if m and not local_manual:
            opn = m.group(1)
            a, b = self.strip(dv(0), s), self.strip(dv(1), s)
            return one(self.rewrap(self.binop(opn, a, b, ''), t, fn))
        m = re.match(r'core::ops::arith::(Add|Sub|Mul)Assign::(add|sub|mul)_assign$', tc)
        if m and not local_manual:
            a = args[0]
            if isinstance(a, tuple) and a[0] == 'ref':
                old = self.load(a[1], a[2], s)
                new = self.binop(m.group(1), self.strip(old, s), self.strip(dv(1), s), '')
                if isinstance(old, tuple) and old[0] == 'adt' and len(old[4]) == 1:
                    new = ('adt', old[1], old[2], old[3], [new])
                self.store(a[1], a[2], new, s)
                fsteps = [st_ for st_ in a[2] if st_[0] == 'f']
                if fsteps:
                    s.events.append(('write', fsteps[-1][3], fsteps[-1][2], new, (fn['path'], t['sp']['line']),
                                     '.'.join(st_[2] for st_ in fsteps)))
            return one(UNIT)
        if re.match(r'core::bool::<impl bool>::then_some$', c) and len(args) == 2:
            # b.then_some(v): Some(v) iff b — the decision `if b { Some(v) } else { None }` records
            b, v = self.strip(dv(0), s), args[1]
            if is_c(v) or (isinstance(v, tuple) and v[0] == 'term' and v[1] in ('str', 'const', 'bytes')):
                # a literal payload (`flag.then_some("shift")`): nothing downstream depends on where it came from, and a row of such calls would
                # only multiply traces — kept as an opaque Option
                return None if False else [(self.opaque_call(callee, t, args, s), s)]
            if is_c(b):
                return one(self.adt_val('core::option::Option', 'Some', [v]) if b[1] else self.adt_val('core::option::Option', 'None'))
            atom, neg = self._atom(b)
            f = s.facts.get(key(atom))
            outs_ = []
            for val in (1, 0):
                dec = (1 - val) if neg else val
                if isinstance(f, int) and f != dec:
                    continue
                s2 = s if (val == 0 or isinstance(f, int)) else s.fork()
                if not isinstance(f, int):
                    s2.facts[key(atom)] = dec
                    s2.decisions.append((atom, dec, (fn['path'], t['sp']['line'])))
                outs_.append((self.adt_val('core::option::Option', 'Some', [v]) if val else self.adt_val('core::option::Option', 'None'), s2))
            if len(outs_) == 2:
                self.npaths += 1
            return outs_
        m = re.match(r'core::num::<impl (u\d+|usize)>::checked_sub$', c)
        if m and getattr(self, 'fork_checked', True):
            # a.checked_sub(b) on unsigned integers: Some(a − b) iff a ≥ b — the same decision an explicit `a >= b` guard would record
            a, b = self.strip(dv(0), s), self.strip(dv(1), s)
            if is_c(a) and is_c(b):
                return one(self.adt_val('core::option::Option', 'Some', [C(a[1] - b[1])]) if a[1] >= b[1] else self.adt_val('core::option::Option', 'None'))
            atom = ('term', 'Ge', [a, b])
            f = s.facts.get(key(atom))
            outs_ = []
            for val in (1, 0):
                if isinstance(f, int) and f != val:
                    continue
                s2 = s if (val == 0 or isinstance(f, int)) else s.fork()
                if not isinstance(f, int):
                    s2.facts[key(atom)] = val
                    s2.decisions.append((atom, val, (fn['path'], t['sp']['line'])))
                outs_.append((self.adt_val('core::option::Option', 'Some', [('term', 'Sub', [a, b])]) if val else self.adt_val('core::option::Option', 'None'), s2))
            if len(outs_) == 2:
                self.npaths += 1
            return outs_
        m = re.match(r'core::num::<impl (u\d+|usize)>::(saturating_sub|saturating_add|wrapping_add|wrapping_sub|checked_sub|checked_add|min|max|pow|abs_diff)$', c)
        if m:
            a, b = dv(0), dv(1) if len(args) > 1 else None
            return one(('term', m.group(2), [a, b]))
        if c in ('core::slice::<impl [T]>::len', 'alloc::vec::Vec::<T, A>::len', 'core::str::<impl str>::len'):
            return one(('term', 'len', [dv(0)]))
        if c in ('core::slice::<impl [T]>::is_empty', 'alloc::vec::Vec::<T, A>::is_empty'):
            return one(('term', 'Eq', [('term', 'len', [dv(0)]), C(0)]))
        if c == 'std::time::SystemTime::now':
            s.nsym += 1
            return one(('sym', 'now#%d' % s.nsym))
        if tc == 'core::ops::try_trait::Try::branch':
            return self.try_branch(t, args, s)
        if tc == 'core::ops::try_trait::FromResidual::from_residual':
            v = dv(0)
            if isinstance(v, tuple) and v[0] == 'adt':
                return one(v)
            return one(('term', 'residual', [v]))
        if tc in ('core::ops::function::Fn::call', 'core::ops::function::FnMut::call_mut', 'core::ops::function::FnOnce::call_once'):
            f = dv(0)
            if isinstance(f, tuple) and f[0] == 'closure' and f[1] in self.p.fns and depth < self.inline_depth + 2:
                tup = dv(1)
                cargs = [args[0] if isinstance(args[0], tuple) and args[0][0] == 'ref' else self.obj_ref(s, f)]
                cargs += list(tup[1]) if isinstance(tup, tuple) and tup[0] == 'tuple' else ([] if tup == UNIT else [tup])
                cf = self.p.fns[f[1]]
                # by-value closures (FnOnce) take the environment by value
                if cf['locals'][1]['ty'].startswith('&') is False:
                    cargs[0] = f
                outs = self.run(cf, cargs, s, depth + 1)
                conts = [(o.value, o.st) for o in outs if o.kind == 'return']
                for o in outs:
                    if o.kind != 'return':
                        self._emit_outcome(fid, o)
                return conts or None
            if isinstance(f, tuple) and f[0] == 'fn' and f[1] in self.p.fns and depth < self.inline_depth + 2:
                tup = dv(1)
                cargs = list(tup[1]) if isinstance(tup, tuple) and tup[0] == 'tuple' else ([] if tup == UNIT else [tup])
                outs = self.run(self.p.fns[f[1]], cargs, s, depth + 1)
                conts = [(o.value, o.st) for o in outs if o.kind == 'return']
                for o in outs:
                    if o.kind != 'return':
                        self._emit_outcome(fid, o)
                return conts or None
        if c.startswith('tracing') or c.startswith('tracing_core') or '::__macro_support::' in c or \
                'tracing::' in c or c.startswith('<tracing'):
            return one(('term', 'tracing', []))
        if c.startswith('core::fmt::') or c.startswith('<core::fmt::') or c.startswith('alloc::fmt::format'):
            return one(('term', 'fmt', []))
        return None

    def strip_typed(self, v, ty, s):
        return self.strip(v, s)

    def default_of(self, ty):
        if ty in INT_W:
            return C(0)
        if ty.startswith('core::option::Option<'):
            return ('adt', 'core::option::Option', 0, 'None', [])
        a = self.p.adts.get(ty)
        if a and not a['enum'] and len(a['variants'][0]['fields']) == 1:
            has_derived_default = any(im['adt'] == ty and im['trait'] == 'core::default::Default' and im['derived'] for im in self.p.impls)
            if has_derived_default:
                return ('adt', ty, 0, a['variants'][0]['name'], [self.default_of(a['variants'][0]['fields'][0]['ty'])])
        return ('term', 'default:' + ty.split('::')[-1], [])

    def strip(self, v, s):
        """unwrap single-field newtypes (Sequence(x) -> x) for comparisons / arithmetic"""
        v = self._deref_val(v, s)
        n = 0
        while isinstance(v, tuple) and v[0] == 'adt' and len(v[4]) == 1 and v[1] in self.p.adts and \
                not self.p.adts[v[1]]['enum'] and n < 4:
            v = v[4][0]
            n += 1
        if isinstance(v, tuple) and v[0] == 'sym' and v[1].endswith('.0'):
            pass
        return v

    def rewrap(self, v, t, fn):
        """wrap an arithmetic result into the destination's newtype if the destination is a local newtype"""
        dl = t['dest']
        if dl['p']:
            return v
        ty = fn['locals'][dl['l']]['ty']
        a = self.p.adts.get(ty)
        if a and not a['enum'] and len(a['variants'][0]['fields']) == 1:
            return ('adt', ty, 0, a['variants'][0]['name'], [v])
        return v

    def try_branch(self, t, args, s):
        v = self._deref_val(args[0], s)
        CF = 'core::ops::ControlFlow'
        if isinstance(v, tuple) and v[0] == 'adt' and v[1] in ('core::result::Result', 'core::option::Option'):
            good = (v[3] in ('Ok', 'Some'))
            if good:
                return [(('adt', CF, 0, 'Continue', [v[4][0]]), s)]
            res = v if v[1] == 'core::result::Result' else v
            return [(('adt', CF, 1, 'Break', [res]), s)]
        # unknown: partition on is-ok
        atom = ('term', 'is_ok', [v])
        f = s.facts.get(key(atom))
        outs = []
        for val in (1, 0):
            if isinstance(f, int) and f != val:
                continue
            s2 = s.fork() if (val == 1 and not isinstance(f, int)) else s
            if not isinstance(f, int):
                s2.facts[key(atom)] = val
                s2.decisions.append((atom, val, ('try', t['sp']['line'])))
            is_opt = 'option::Option' in t.get('callee_args', '') or 'option::Option' in (t.get('resolved') or '')
            if val:
                pay = ('sym', v[1] + ('#Some.0' if is_opt else '#Ok.0')) if v[0] == 'sym' else ('term', 'unwrap', [v])
                outs.append((('adt', CF, 0, 'Continue', [pay]), s2))
            elif is_opt:
                outs.append((('adt', CF, 1, 'Break', [('adt', 'core::option::Option', 0, 'None', [])]), s2))
            else:
                pay = ('sym', v[1] + '#Err.0') if v[0] == 'sym' else ('term', 'unwrap_err', [v])
                outs.append((('adt', CF, 1, 'Break', [('adt', 'core::result::Result', 1, 'Err', [pay])]), s2))
        return outs

    def option_summary(self, name, is_opt, t, args, s, fn, fid, depth):
        v = self._deref_val(args[0], s)
        one = lambda x: [(x, s)]
        known = isinstance(v, tuple) and v[0] == 'adt'
        good = known and v[3] in ('Some', 'Ok')
        if name in ('is_some', 'is_ok'):
            return one(C(int(good))) if known else one(('term', name, [v]))
        if name in ('is_none', 'is_err'):
            return one(C(int(not good))) if known else one(('term', 'Not', [('term', 'is_some' if is_opt else 'is_ok', [v])]))
        if name in ('unwrap', 'expect', 'unwrap_unchecked'):
            if known:
                if good:
                    return one(v[4][0])
                self._emit_outcome(fid, Outcome('panic', ('call', name), s, (fn['path'], None, t['sp'])))
                return None
            return one(('term', 'unwrap', [v]))
        if name == 'unwrap_or_default':
            if known:
                if good:
                    return one(v[4][0])
                ga = t.get('gargs', [''])[0]
                return one(self.default_of(ga))
            return one(('term', 'unwrap_or_default', [v]))
        if name == 'unwrap_or':
            if known:
                return one(v[4][0] if good else args[1])
            return one(('term', 'unwrap_or', [v, self._deref_val(args[1], s)]))
        if name == 'ok' and known:
            return one(self.adt_val('core::option::Option', 'Some', [v[4][0]]) if good else self.adt_val('core::option::Option', 'None'))
        if name in ('as_ref', 'as_mut', 'copied', 'cloned', 'as_deref'):
            return one(v)
        if name in ('map', 'and_then', 'map_err', 'ok_or', 'ok_or_else', 'or_else', 'unwrap_or_else',
                    'map_or', 'map_or_else', 'is_some_and', 'is_ok_and', 'is_none_or', 'or', 'filter', 'zip', 'xor', 'and'):
            rest = [self._deref_val(a, s) for a in args[1:]]
            cases = []
            if known:
                cases.append((good, v[4][0] if v[4] else UNIT, s))
            else:
                # the same decision atom a `match` on the value records: its discriminant (Option: None = 0, Some = 1; Result: Ok = 0, Err = 1)
                atom = ('term', 'discr', [v])
                f0 = s.facts.get(key(atom))
                f = None
                if isinstance(f0, int):
                    f = int(f0 == 1) if is_opt else int(f0 == 0)
                elif isinstance(f0, tuple) and f0[0] == 'ne':
                    good_d = 1 if is_opt else 0
                    if good_d in f0[1]:
                        f = 0
                for val in (1, 0):
                    if isinstance(f, int) and f != val:
                        continue
                    s2 = s if (val == 0 or isinstance(f, int)) else s.fork()
                    if not isinstance(f, int):
                        dval = (1 if val else 0) if is_opt else (0 if val else 1)
                        s2.facts[key(atom)] = dval
                        s2.decisions.append((atom, dval, (fn['path'], t['sp']['line'])))
                    if isinstance(v, tuple) and v[0] == 'sym':
                        pay = ('sym', v[1] + ('#Some.0' if is_opt else ('#Ok.0' if val else '#Err.0')))
                    else:
                        pay = ('term', 'unwrap' if val else 'unwrap_err', [v])
                    cases.append((bool(val), pay, s2))
                if len(cases) == 2:
                    self.npaths += 1
            OPT, RES = 'core::option::Option', 'core::result::Result'
            some = lambda x: ('adt', OPT, 1, 'Some', [x])
            none = ('adt', OPT, 0, 'None', [])
            okv = lambda x: ('adt', RES, 0, 'Ok', [x])
            errv = lambda x: ('adt', RES, 1, 'Err', [x])
            wrap_good = some if is_opt else okv
            out = []
            for (g, pay, s2) in cases:
                def callf(fv, xs):
                    r = self._call_value(fv, xs, s2, fn, fid, depth, t)
                    if r is None:
                        return [(('term', 'apply', [fv] + xs), s2)]
                    return r
                if name == 'map':
                    out += [(wrap_good(x), s3) for (x, s3) in callf(rest[0], [pay])] if g else [((none if is_opt else errv(pay)), s2)]
                elif name == 'map_err':
                    out += [(okv(pay), s2)] if g else [(errv(x), s3) for (x, s3) in callf(rest[0], [pay])]
                elif name == 'and_then':
                    out += callf(rest[0], [pay]) if g else [((none if is_opt else errv(pay)), s2)]
                elif name == 'map_or':
                    out += callf(rest[1], [pay]) if g else [(rest[0], s2)]
                elif name == 'map_or_else':
                    out += callf(rest[1], [pay]) if g else callf(rest[0], [] if is_opt else [pay])
                elif name in ('is_some_and', 'is_ok_and'):
                    out += callf(rest[0], [pay]) if g else [(C(0), s2)]
                elif name == 'is_none_or':
                    out += callf(rest[0], [pay]) if g else [(C(1), s2)]
                elif name == 'unwrap_or_else':
                    out += [(pay, s2)] if g else callf(rest[0], [] if is_opt else [pay])
                elif name == 'ok_or':
                    out += [(okv(pay), s2)] if g else [(errv(rest[0]), s2)]
                elif name == 'ok_or_else':
                    out += [(okv(pay), s2)] if g else [(errv(x), s3) for (x, s3) in callf(rest[0], [])]
                elif name == 'or':
                    out += [(wrap_good(pay), s2)] if g else [(rest[0], s2)]
                elif name == 'or_else':
                    out += [(wrap_good(pay), s2)] if g else callf(rest[0], [] if is_opt else [pay])
                elif name == 'filter':
                    if not g:
                        out += [(none, s2)]
                    else:
                        for (b_, s3) in callf(rest[0], [self.obj_ref(s2, pay)]):
                            b_ = self._known(b_, s3) if not is_c(b_) else b_
                            if is_c(b_):
                                out.append((some(pay) if b_[1] else none, s3))
                                continue
                            atom_b, neg_b = self._atom(b_)
                            fb = s3.facts.get(key(atom_b))
                            for bv in (1, 0):
                                eff = (1 - bv) if neg_b else bv
                                if isinstance(fb, int) and fb != eff:
                                    continue
                                s4 = s3 if (bv == 0 or isinstance(fb, int)) else s3.fork()
                                if not isinstance(fb, int):
                                    s4.facts[key(atom_b)] = eff
                                    s4.decisions.append((atom_b, eff, (fn['path'], t['sp']['line'])))
                                out.append((some(pay) if bv else none, s4))
                elif name == 'zip':
                    o2 = rest[0]
                    if not g:
                        out += [(none, s2)]
                    elif isinstance(o2, tuple) and o2[0] == 'adt':
                        out += [(some(('tuple', [pay, o2[4][0]])) if o2[3] == 'Some' else none, s2)]
                    else:
                        atom2 = ('term', 'discr', [o2])
                        f2 = s2.facts.get(key(atom2))
                        for bv in (1, 0):
                            if isinstance(f2, int) and f2 != bv:
                                continue
                            if isinstance(f2, tuple) and f2[0] == 'ne' and bv in f2[1]:
                                continue
                            s4 = s2 if bv == 0 else s2.fork()
                            if not isinstance(f2, int):
                                s4.facts[key(atom2)] = bv
                                s4.decisions.append((atom2, bv, (fn['path'], t['sp']['line'])))
                            p2 = ('sym', o2[1] + '#Some.0') if isinstance(o2, tuple) and o2[0] == 'sym' else ('term', 'unwrap', [o2])
                            out.append((some(('tuple', [pay, p2])) if bv else none, s4))
                elif name == 'and':
                    out += [(rest[0], s2)] if g else [((none if is_opt else errv(pay)), s2)]
                elif name == 'xor':
                    return None
            return out or None
        return None

    def _call_value(self, f, cargs, s, fn, fid, depth, t):
        f = self._deref_val(f, s)
        if isinstance(f, tuple) and f[0] == 'closure' and f[1] in self.p.fns and depth < self.inline_depth + 2:
            cf = self.p.fns[f[1]]
            env = f if not cf['locals'][1]['ty'].startswith('&') else self.obj_ref(s, f)
            outs = self.run(cf, [env] + cargs, s, depth + 1)
            for o in outs:
                if o.kind != 'return':
                    self._emit_outcome(fid, o)
            return [(o.value, o.st) for o in outs if o.kind == 'return'] or None
        if isinstance(f, tuple) and f[0] == 'fn' and f[1] in self.p.fns and depth < self.inline_depth + 2:
            outs = self.run(self.p.fns[f[1]], cargs, s, depth + 1)
            for o in outs:
                if o.kind != 'return':
                    self._emit_outcome(fid, o)
            return [(o.value, o.st) for o in outs if o.kind == 'return'] or None
        if isinstance(f, tuple) and f[0] == 'fn':
            # constructor function of a tuple struct / variant used as a value, e.g. `.map(Sequence)`
            return [(('term', 'call:' + short(f[1]), cargs), s)]
        return None


def short(path):
    """`a::b::Type::<T>::method` -> `Type::method`; `<a::X<..> as b::Trait<..>>::m` -> `X::m`"""
    if path.startswith('<'):
        depth = 0
        for i, ch in enumerate(path):
            if ch == '<':
                depth += 1
            elif ch == '>' and path[i - 1] != '-':
                depth -= 1
                if depth == 0:
                    inner, rest = path[1:i], path[i + 1:]
                    break
        else:
            inner, rest = path, ''
        # split at top-level " as "
        d = 0
        selfty = inner
        trait = ''
        for j in range(len(inner)):
            if inner[j] == '<':
                d += 1
            elif inner[j] == '>' and inner[j - 1] != '-':
                d -= 1
            elif d == 0 and inner.startswith(' as ', j):
                selfty = inner[:j]
                trait = inner[j + 4:]
                break
        selfty = re.sub(r'<.*', '', selfty.lstrip('&').replace('mut ', '')).split('::')[-1]
        if re.fullmatch(r'[A-Z][A-Za-z]?', selfty) and trait:
            selfty = re.sub(r'<.*', '', trait).split('::')[-1]
        return selfty + rest
    path = re.sub(r'::<[^<>]*(<[^<>]*(<[^<>]*>[^<>]*)*>[^<>]*)*>', '', path)
    parts = path.split('::')
    return '::'.join(parts[-2:]) if len(parts) >= 2 else path


# ---- helpers for rules ------------------------------------------------------------------------------

def contains(v, pred, depth=0):
    """does abstract value v contain a sub-value satisfying pred?"""
    if depth > 30:
        return False
    if pred(v):
        return True
    if isinstance(v, tuple):
        if v[0] == 'adt':
            return any(contains(x, pred, depth + 1) for x in v[4])
        if v[0] in ('tuple', 'arr'):
            return any(contains(x, pred, depth + 1) for x in v[1])
        if v[0] == 'term':
            return any(contains(x, pred, depth + 1) for x in v[2])
        if v[0] == 'rec':
            return any(contains(x, pred, depth + 1) for x in v[2].values())
        if v[0] == 'closure':
            return any(contains(x, pred, depth + 1) for x in v[2])
    return False


def syms(v, acc=None, depth=0):
    """all symbol names in v"""
    if acc is None:
        acc = set()
    if depth > 30 or not isinstance(v, tuple):
        return acc
    if v[0] == 'sym':
        acc.add(v[1])
    elif v[0] == 'adt':
        for x in v[4]:
            syms(x, acc, depth + 1)
    elif v[0] in ('tuple', 'arr'):
        for x in v[1]:
            syms(x, acc, depth + 1)
    elif v[0] == 'term':
        for x in v[2]:
            syms(x, acc, depth + 1)
    elif v[0] == 'rec':
        acc.add(v[1])
        for x in v[2].values():
            syms(x, acc, depth + 1)
    elif v[0] == 'closure':
        for x in v[2]:
            syms(x, acc, depth + 1)
    return acc
