"""Call graph over the exported program (A1): resolved edges, closure edges, fn-item-as-value edges,
virtual edges for trait-parameter / dyn calls and for std adaptors that call trait impls out of sight."""
import re
from collections import defaultdict

from .facts import op_place


def _operands_of_stmt(st):
    rv = st.get('rv')
    if not rv:
        return
    for k in ('a', 'b'):
        if k in rv:
            yield rv[k]
    for o in rv.get('ops', ()):
        yield o


class CallGraph:
    def __init__(self, prog):
        self.p = prog
        self.out = defaultdict(set)      # caller -> {callee}
        self.sites = defaultdict(list)   # callee -> [(caller, block index, kind)]
        self.ext = defaultdict(list)     # caller -> [(block index, external callee path)]
        # trait item -> impl method paths
        self.by_trait_item = defaultdict(list)
        self.adt_trait_impls = defaultdict(list)   # adt path -> [method path] for impls of traits
        for im in prog.impls:
            for it in im['items']:
                if it['trait_item']:
                    self.by_trait_item[it['trait_item']].append(it['path'])
                    if im['adt']:
                        self.adt_trait_impls[im['adt']].append(it['path'])
        self._adt_rx = None
        for path, fn in prog.fns.items():
            self._scan(path, fn)

    def _edge(self, a, b, bi, kind):
        self.out[a].add(b)
        self.sites[b].append((a, bi, kind))

    def _adts_in(self, s):
        if self._adt_rx is None:
            self._adt_rx = re.compile(r'trippy_[a-z]+(?:::[A-Za-z_][A-Za-z0-9_]*)+')
        return [m for m in self._adt_rx.findall(s) if m in self.p.adts]

    def _scan(self, path, fn):
        fns = self.p.fns
        for bi, b in enumerate(fn['blocks']):
            if b['cleanup']:
                continue
            for st in b['stmts']:
                rv = st.get('rv')
                if not rv:
                    continue
                if rv['k'] == 'agg' and rv['kind'].get('a') == 'closure':
                    c = rv['kind']['def']
                    if c in fns:
                        self._edge(path, c, bi, 'closure')
                for o in _operands_of_stmt(st):
                    self._fnconst(path, bi, o)
            t = b['term']
            if t['k'] != 'call':
                continue
            for o in t['args']:
                self._fnconst(path, bi, o)
            tgt = None
            if t['resolved'] and t['resolved'] in fns:
                tgt = t['resolved']
            elif t['callee'] in fns and not t['resolved']:
                tgt = t['callee']
            if tgt:
                self._edge(path, tgt, bi, 'call')
                # a resolved local call with generic closure arguments may call those closures
                for c in t.get('closures', ()):
                    if c in fns:
                        self._edge(path, c, bi, 'closure-arg')
                continue
            callee = t['resolved'] or t['callee']
            # unresolved trait method (type parameter / dyn): all local impls
            if not t['resolved'] and t['callee'] in self.by_trait_item:
                for m in self.by_trait_item[t['callee']]:
                    if m in fns:
                        self._edge(path, m, bi, 'virtual')
                continue
            self.ext[path].append((bi, callee))
            # external callee: closures in generic args may be invoked; local ADTs' trait impls may be invoked
            for c in t.get('closures', ()):
                if c in fns:
                    self._edge(path, c, bi, 'closure-arg')
            seen = set()
            for g in list(t.get('gargs', ())) + list(t.get('atys', ())):
                for adt in self._adts_in(g):
                    if adt in seen:
                        continue
                    seen.add(adt)
                    for m in self.adt_trait_impls.get(adt, ()):
                        if m in fns:
                            self._edge(path, m, bi, 'adt-trait')

    def _fnconst(self, path, bi, o):
        if o.get('const') and ('fn' in o):
            tgt = o.get('fnres') or o['fn']
            if tgt in self.p.fns:
                self._edge(path, tgt, bi, 'fn-value')
            elif o['fn'] in self.by_trait_item:
                for m in self.by_trait_item[o['fn']]:
                    self._edge(path, m, bi, 'fn-value-virtual')

    def reachable(self, roots, kinds=None, stop=()):
        seen = set()
        st = list(roots)
        parent = {}
        while st:
            f = st.pop()
            if f in seen or f in stop:
                continue
            seen.add(f)
            for g in self.out.get(f, ()):
                if g not in seen:
                    parent.setdefault(g, f)
                    st.append(g)
        self.last_parent = parent
        return seen

    def chain(self, f):
        """call chain root -> f from the last reachable() run"""
        r = [f]
        while r[-1] in self.last_parent:
            r.append(self.last_parent[r[-1]])
        return list(reversed(r))

    def callers(self, path):
        return sorted({a for (a, _, _) in self.sites.get(path, ())})
