"""MIR pretty printer for the exported facts (debugging aid and report text)."""
import sys


def place(p, fn=None):
    s = '_%d' % p['l']
    if fn is not None:
        nm = fn['locals'][p['l']]['name']
        if nm:
            s += '{%s}' % nm
    for e in p['p']:
        k = e['k']
        if k == 'deref':
            s = '(*%s)' % s
        elif k == 'field':
            s += '.%s' % (e['n'] or e['i'])
        elif k == 'index':
            s += '[_%d]' % e['l']
        elif k == 'cidx':
            s += '[%s%d]' % ('-' if e['fe'] else '', e['o'])
        elif k == 'subslice':
            s += '[%d..%s%d]' % (e['from'], '-' if e['fe'] else '', e['to'])
        elif k == 'downcast':
            s += ' as %s' % e['n']
        else:
            s += '.?'
    return s


def operand(o, fn=None):
    if o.get('const'):
        if 'fn' in o:
            return 'fn:' + o['fn']
        if 'named' in o:
            return '%s(=%s)' % (o['named'].split('::')[-1], o.get('bits', '?'))
        if 'bits' in o:
            return '%s_%s' % (o['bits'], o['ty'])
        return 'const<%s>' % o.get('dbg', o['ty'])[:60]
    if 'copy' in o:
        return place(o['copy'], fn)
    if 'move' in o:
        return 'move ' + place(o['move'], fn)
    return '?'


def rvalue(rv, fn=None):
    k = rv['k']
    if k == 'use':
        return operand(rv['a'], fn)
    if k == 'ref':
        return '&%s%s' % ('mut ' if rv.get('mut') else '', place(rv['p'], fn))
    if k == 'bin':
        return '%s(%s, %s)' % (rv['op'], operand(rv['a'], fn), operand(rv['b'], fn))
    if k == 'un':
        return '%s(%s)' % (rv['op'], operand(rv['a'], fn))
    if k == 'cast':
        return '%s as %s [%s]' % (operand(rv['a'], fn), rv['ty'], rv['ck'][:24])
    if k == 'discr':
        return 'discr(%s)' % place(rv['p'], fn)
    if k == 'agg':
        kd = rv['kind']
        nm = kd.get('def', kd['a'])
        if kd['a'] == 'adt':
            nm += '::' + kd['vn']
        return '%s{%s}' % (nm, ', '.join(operand(o, fn) for o in rv['ops']))
    if k == 'repeat':
        return '[%s; %s]' % (operand(rv['a'], fn), rv['n'])
    if k == 'rawptr':
        return '&raw %s' % place(rv['p'], fn)
    return '?%s' % rv.get('dbg', '')[:60]


def dump(fn, out=sys.stdout):
    out.write('fn %s  (%s:%d) argc=%d\n' % (fn['path'], fn['span']['file'], fn['span']['line'], fn['argc']))
    for i, l in enumerate(fn['locals']):
        out.write('   let _%d: %s %s\n' % (i, l['ty'], ('// ' + l['name']) if l['name'] else ''))
    for bi, b in enumerate(fn['blocks']):
        out.write(' bb%d%s:\n' % (bi, ' (cleanup)' if b['cleanup'] else ''))
        for st in b['stmts']:
            if 'lhs' in st:
                out.write('    %s = %s   // L%d\n' % (place(st['lhs'], fn), rvalue(st['rv'], fn), st['sp']['line']))
            else:
                out.write('    discriminant(%s) = %d\n' % (place(st['setdiscr'], fn), st['v']))
        t = b['term']
        k = t['k']
        if k == 'goto':
            out.write('    goto bb%d\n' % t['t'])
        elif k == 'switch':
            out.write('    switch %s [%s, otherwise bb%d]  // L%d\n' % (
                operand(t['d'], fn), ', '.join('%s→bb%d' % (a[0], a[1]) for a in t['arms']), t['otherwise'],
                t['sp']['line']))
        elif k == 'call':
            out.write('    %s = %s(%s) → bb%d   // L%d %s\n' % (
                place(t['dest'], fn), t['resolved'] or t['callee_args'] or t['callee'],
                ', '.join(operand(a, fn) for a in t['args']), t['t'], t['sp']['line'],
                ('[' + t['sp']['mac'] + ']') if t['sp']['exp'] else ''))
        elif k == 'assert':
            out.write('    assert(%s == %s, %s(%s)) → bb%d  // L%d\n' % (
                operand(t['cond'], fn), t['expected'], t['kind'], ', '.join(operand(o, fn) for o in t['ops']),
                t['t'], t['sp']['line']))
        elif k == 'drop':
            out.write('    drop(%s) → bb%d\n' % (place(t['p'], fn), t['t']))
        else:
            out.write('    %s\n' % k)


if __name__ == '__main__':
    from .facts import Program
    prog = Program(crates=tuple(sys.argv[2].split(',')) if len(sys.argv) > 2 else ('packet', 'core', 'tui'))
    for f in prog.find(sys.argv[1], unique=False):
        dump(f)
        print()
