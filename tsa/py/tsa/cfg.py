"""CFG utilities over exported MIR blocks: successors, dominators, post-dominators, loops, reachability."""


def succs(fn, bi, unwind=False):
    t = fn['blocks'][bi]['term']
    k = t['k']
    if k == 'goto':
        return [t['t']]
    if k == 'switch':
        d = t['d']
        pl = d.get('copy') or d.get('move')
        if pl is not None and not pl['p']:
            # `_n = const false; switchInt(move _n)` within the block
            for st in reversed(fn['blocks'][bi]['stmts']):
                if 'lhs' in st and st['lhs']['l'] == pl['l'] and not st['lhs']['p']:
                    a = st['rv'].get('a') if st['rv']['k'] == 'use' else None
                    if a and a.get('const') and 'bits' in a:
                        d = a
                    break
        if d.get('const') and 'bits' in d:
            # constant condition (`if false { loop {} }` in macro expansions): only the matching edge exists
            hit = [a[1] for a in t['arms'] if int(a[0]) == int(d['bits'])]
            return [hit[0] if hit else t['otherwise']]
        r = [a[1] for a in t['arms']]
        r.append(t['otherwise'])
        # dedupe, keep order
        seen = []
        for x in r:
            if x not in seen:
                seen.append(x)
        return seen
    if k in ('drop', 'assert'):
        return [t['t']]
    if k == 'call':
        return [t['t']] if t['t'] >= 0 else []
    return []


class CFG:
    def __init__(self, fn):
        self.fn = fn
        n = len(fn['blocks'])
        self.n = n
        self.succ = [succs(fn, i) for i in range(n)]
        self.reach = self._reach(0)
        self.pred = [[] for _ in range(n)]
        for i in self.reach:
            for s in self.succ[i]:
                self.pred[s].append(i)
        self._dom = None
        self._pdom = None
        self.exits = [i for i in self.reach if fn['blocks'][i]['term']['k'] == 'return']
        # blocks that diverge (panic / unreachable / call without target)
        self.diverge = [i for i in self.reach if not self.succ[i] and fn['blocks'][i]['term']['k'] != 'return']

    def _reach(self, start):
        seen = set()
        st = [start]
        while st:
            b = st.pop()
            if b in seen:
                continue
            seen.add(b)
            st.extend(self.succ[b])
        return seen

    def reach_from(self, start, avoid=()):
        seen = set()
        st = [start]
        while st:
            b = st.pop()
            if b in seen or b in avoid:
                continue
            seen.add(b)
            st.extend(self.succ[b])
        return seen

    # --- dominators (iterative sets; functions are small) ------------------------------------------------
    def dom(self):
        if self._dom is None:
            self._dom = self._dominators(0, self.succ, self.pred, self.reach)
        return self._dom

    @staticmethod
    def _dominators(entry, succ, pred, nodes):
        nodes = set(nodes)
        dom = {n: set(nodes) for n in nodes}
        dom[entry] = {entry}
        changed = True
        order = sorted(nodes)
        while changed:
            changed = False
            for n in order:
                if n == entry:
                    continue
                ps = [p for p in pred[n] if p in nodes]
                if ps:
                    new = set.intersection(*(dom[p] for p in ps)) | {n}
                else:
                    new = {n}
                if new != dom[n]:
                    dom[n] = new
                    changed = True
        return dom

    def dominates(self, a, b):
        """block a dominates block b"""
        return a in self.dom().get(b, ())

    def pdom(self):
        """post-dominators w.r.t. normal return exits (diverging blocks are ignored: a panic is not an exit)"""
        if self._pdom is None:
            # virtual exit node = n
            nodes = set(b for b in self.reach if self._can_return(b))
            succ = {b: [s for s in self.succ[b] if s in nodes] for b in nodes}
            vexit = self.n
            rsucc = {b: [] for b in nodes}
            rsucc[vexit] = []
            rpred = {b: [] for b in nodes}
            rpred[vexit] = []
            for b in nodes:
                outs = succ[b] if self.fn['blocks'][b]['term']['k'] != 'return' else [vexit]
                for s in outs:
                    # reversed graph: edge s -> b
                    rsucc[s].append(b)
                    rpred[b].append(s)
            allnodes = set(nodes) | {vexit}
            dom = {n: set(allnodes) for n in allnodes}
            dom[vexit] = {vexit}
            changed = True
            while changed:
                changed = False
                for n in sorted(allnodes):
                    if n == vexit:
                        continue
                    ps = rpred[n]
                    new = (set.intersection(*(dom[p] for p in ps)) if ps else set()) | {n}
                    if new != dom[n]:
                        dom[n] = new
                        changed = True
            self._pdom = dom
        return self._pdom

    def _can_return(self, b):
        if not hasattr(self, '_cr'):
            cr = set(self.exits)
            changed = True
            while changed:
                changed = False
                for x in self.reach:
                    if x not in cr and any(s in cr for s in self.succ[x]):
                        cr.add(x)
                        changed = True
            self._cr = cr
        return b in self._cr

    def postdominates(self, a, b):
        """every returning path from b passes through a"""
        return a in self.pdom().get(b, ())

    def back_edges(self):
        """(src, dst) edges where dst dominates src"""
        r = []
        for b in self.reach:
            for s in self.succ[b]:
                if self.dominates(s, b):
                    r.append((b, s))
        return r

    def loop_blocks(self):
        """blocks in natural loops"""
        inloop = set()
        for (src, hdr) in self.back_edges():
            body = {hdr}
            st = [src]
            while st:
                x = st.pop()
                if x in body:
                    continue
                body.add(x)
                st.extend(self.pred[x])
            inloop |= body
        return inloop

    def edge_dominates(self, a, target, b):
        """Does taking edge a->target dominate block b?  (b reachable only via that edge).
        True iff b is unreachable from entry once edge a->target is removed."""
        seen = set()
        st = [0]
        while st:
            x = st.pop()
            if x in seen:
                continue
            seen.add(x)
            for s in self.succ[x]:
                if x == a and s == target:
                    continue
                st.append(s)
        if a in seen or a == 0:
            # a itself reachable; but the a->target edge removed. If a has another edge to the same target
            # (switch arms deduped) we already removed all of them.
            pass
        return b not in seen
