"""Check result bookkeeping: obligations, violations, known findings, floors, evidence, exit code."""
import json
import os
import sys
import time

VERIF = os.path.abspath(os.path.join(os.path.dirname(__file__), '..', '..', '..'))
EVID = os.environ.get('TSA_EVIDENCE_DIR') or os.path.join(VERIF, 'evidence')
KNOWN = os.path.join(VERIF, 'known_findings.json')


class Check:
    def __init__(self, pid, tier, level='other'):
        self.pid = pid
        self.tier = tier
        self.level = level
        self.t0 = time.time()
        self.obligations = []      # (rule, instance, ok, detail)
        self.violations = []       # dict(key, rule, where, what, detail)
        self.samples = []
        self.assumptions = []
        self.trusted = ['rustc nightly type check + MIR construction + const eval', 'TSA driver serialisation',
                        'TSA python analyses', 'oracles under /verif/tsa/spec and in the rule modules']
        self.rules = {}            # rule -> {'desc', 'instances', 'floor'}
        self.functions = set()
        self.call_sites = 0
        self.notes = []
        self.nontrivial = set()
        self.explanation = ''
        self.extra = {}

    # ---- recording ------------------------------------------------------------------------------------
    def rule(self, rid, desc, floor=1):
        self.rules[rid] = {'desc': desc, 'instances': 0, 'floor': floor, 'failed': 0}

    def ok(self, rid, instance, detail='', nontrivial=True):
        self.rules[rid]['instances'] += 1
        self.obligations.append((rid, instance, True))
        if nontrivial:
            self.nontrivial.add((rid, instance))
        if len(self.samples) < 12 or (len(self.samples) < 40 and not any(s['rule'] == rid for s in self.samples)):
            self.samples.append({'rule': rid, 'instance': instance, 'verdict': 'holds', 'reason': str(detail)[:300]})

    def fail(self, rid, instance, where, what, detail=None, key=None):
        """A violated obligation. `key` identifies it without line numbers (for known-findings matching)."""
        self.rules[rid]['instances'] += 1
        self.rules[rid]['failed'] += 1
        self.obligations.append((rid, instance, False))
        self.nontrivial.add((rid, instance))
        k = key or '%s|%s' % (rid, instance)
        self.violations.append({'key': k, 'rule': rid, 'instance': instance, 'where': where, 'what': what,
                                'detail': detail})

    def anchor_lost(self, rid, what):
        if rid not in self.rules:
            self.rule(rid, 'anchor', floor=0)
        self.fail(rid, 'anchor-lost', '?', 'anchor lost: %s (the property can no longer be established)' % what,
                  key='%s|anchor-lost|%s' % (rid, what))

    def fn_seen(self, *paths):
        for p in paths:
            self.functions.add(p)

    # ---- finishing ------------------------------------------------------------------------------------
    def finish(self):
        known = []
        if os.path.exists(KNOWN):
            with open(KNOWN) as fh:
                known = [k for k in json.load(fh).get('findings', []) if k.get('property') == self.pid]
        known_keys = {k['key']: k for k in known if k.get('status') == 'known'}
        # floors
        for rid, r in self.rules.items():
            if r['instances'] < r['floor']:
                self.violations.append({'key': '%s|floor' % rid, 'rule': rid, 'instance': 'floor', 'where': '-',
                                        'what': 'rule %s matched %d instances, fewer than the %d confirmed by hand '
                                                '(a rule that matches nothing must not pass)' %
                                                (rid, r['instances'], r['floor']), 'detail': None})
        new = []
        kf = []
        for v in self.violations:
            if v['key'] in known_keys:
                kf.append(v)
            else:
                new.append(v)
        os.makedirs(os.path.join(EVID, 'violations'), exist_ok=True)
        for old in os.listdir(os.path.join(EVID, 'violations')):
            if old.startswith(self.pid + '-'):
                os.remove(os.path.join(EVID, 'violations', old))
        lines = []
        for v in kf:
            lines.append('KNOWN-FINDING: property=%s %s [%s] at %s' % (self.pid, v['what'], v['key'], v['where']))
        for i, v in enumerate(new):
            path = os.path.join(EVID, 'violations', '%s-%d.json' % (self.pid, i))
            with open(path, 'w') as fh:
                json.dump({'property': self.pid, 'tier': self.tier, **v}, fh, indent=1, default=str)
            if i < 8:
                lines.append('VIOLATION property=%s replay=%s' % (self.pid, path))
                lines.append('  rule=%s instance=%s at %s: %s' % (v['rule'], v['instance'], v['where'], v['what'][:400]))
            elif i == 8:
                lines.append('  (+%d more violations; reports under %s)' % (len(new) - 8, os.path.join(EVID, 'violations')))
        n_obl = len(self.obligations)
        n_ok = sum(1 for o in self.obligations if o[2])
        cov = {
            'explanation': self.explanation,
            'evaluations': n_obl,
            'distinct_nontrivial': len(self.nontrivial),
            'rule': 'one evaluation = one rule instance (site, cell, table row, field or function) decided from MIR '
                    'facts; non-trivial = not discharged by a constant-only argument; distinct by (rule, instance key)',
            'obligations': n_obl,
            'discharged': n_ok + len(kf) if self.level != 'proof' else n_ok,
            'samples': self.samples[:40],
            'checker_cmd': './bin/check %s --tier %s' % (self.pid, self.tier),
            'trusted_base': self.trusted,
            'exhaustive': True,
            'rules': {rid: {'desc': r['desc'], 'instances': r['instances'], 'floor': r['floor'],
                            'failed': r['failed']} for rid, r in self.rules.items()},
            'functions_analysed': len(self.functions),
            'call_sites': self.call_sites,
            'known_findings_matched': [v['key'] for v in kf],
            'notes': self.notes,
        }
        cov.update(self.extra)
        ev = {
            'property_id': self.pid,
            'tier': self.tier,
            'seed': int(os.environ.get('VERIF_SEED', '0') or 0),
            'level': self.level,
            'coverage': cov,
            'assumptions': self.assumptions,
            'wall_s': round(time.time() - self.t0, 2),
            'violations': len(new),
        }
        os.makedirs(EVID, exist_ok=True)
        tmp = os.path.join(EVID, '%s.json.tmp%d' % (self.pid, os.getpid()))
        with open(tmp, 'w') as fh:
            json.dump(ev, fh, indent=1, default=str)
        os.replace(tmp, os.path.join(EVID, '%s.json' % self.pid))
        for ln in lines:
            print(ln)
        print('%s tier=%s: %d obligations, %d held, %d known findings, %d violations, %d functions, %.1fs' % (
            self.pid, self.tier, n_obl, n_ok, len(kf), len(new), len(self.functions), time.time() - self.t0))
        return 1 if new else 0


class SubCheck:
    """Run another property's rule module inside this check, importing only the selected rules under a prefixed id.
    (Several properties share structural clauses — e.g. C01's slot agreement is C07.R3 — and must not drift apart.)"""

    def __init__(self, chk, prefix, only):
        self.chk, self.prefix, self.only = chk, prefix, set(only)
        self.assumptions, self.trusted, self.notes, self.extra = [], [], [], {}
        self.explanation = ''
        self.call_sites = 0
        self.tier = chk.tier

    def rule(self, rid, desc, floor=1):
        if rid in self.only:
            self.chk.rule(self.prefix + rid, '[%s] %s' % (self.prefix.rstrip('.'), desc), floor=floor)

    def ok(self, rid, instance, detail='', nontrivial=True):
        if rid in self.only:
            self.chk.ok(self.prefix + rid, instance, detail, nontrivial)

    def fail(self, rid, instance, where, what, detail=None, key=None):
        if rid in self.only:
            k = key or '%s|%s' % (rid, instance)
            self.chk.fail(self.prefix + rid, instance, where, what, detail, key=self.prefix + k)

    def anchor_lost(self, rid, what):
        self.chk.anchor_lost(self.prefix + rid, what)

    def fn_seen(self, *paths):
        self.chk.fn_seen(*paths)


def run_sub(chk, module, prefix, only):
    if isinstance(chk, SubCheck):
        return          # imports do not nest (two properties may import clauses of each other)
    import importlib
    mod = importlib.import_module('tsa.rules.%s' % module)
    mod.run(SubCheck(chk, prefix, only), chk.tier)
