"""C14 — ICMP multi-part extensions are parsed faithfully and always terminate.

 R1 (A5) no out-of-bounds / overflow in split, the four split_payload_extension functions, both iterators, Extensions::try_from and the From
    conversions: the same site audit as C04, restricted to the functions reachable from the extension entry points.
 R2 iterators: on every `Some` trace of ExtensionObjectIter::next / MplsLabelStackIter::next the cursor advances by at least 4 octets and never
    passes the end of the buffer (so every yielded object lies inside the message and iteration terminates); `None` once the cursor is past the end.
 R3 split: both results are sub-slices of the argument, the quoted datagram ends before the extension starts (no overlap), on every trace.
 R4 split's decision table equals the RFC 4884 rule (compliant > 128: split at length; compliant ≤ 128: datagram trimmed to length, extension
    at 128; legacy: split at 128; extension only if ≥ 4 octets remain; otherwise everything is datagram).
 R5 scale factors: length is get_length()·4 in both ICMPv4 types and ·8 in both ICMPv6 types, computed without narrowing; the ICMP payload
    starts after the 8-octet header; only extension version 2 is interpreted.
 R7 what is reported: ExtensionObjectPacket::payload() is packet[4 .. max(min(length, len), 4)]; an unknown object is reported with its own class,
    sub-type and payload(); label-stack entries are copied getter by getter from every member the iterator yields; an object is an MPLS
    stack iff its class is 1 and the stack is parsed from the object's own payload.
 R6 sibling cross-check of the extension parse mode table in extract_probe_resp (informational where the siblings differ).
Not decided: "reports exactly the objects, labels and values that were encoded" as a round-trip equality (it follows from C12 for the fields,
R2 for the walk and R7 for what is copied, but the composition is not mechanised).
"""
import re

from .common import *
from ..audit import Audit
from ..callgraph import CallGraph
from ..vra import RangeEngine, Lin
from .c04 import audit_scope, ALLOW, BOUNDARY

LEVEL = 'other'


def run(chk, tier):
    prog = program(crates=('packet', 'core'))
    chk.explanation = __doc__
    cg = CallGraph(prog)

    # ---- R1 ---------------------------------------------------------------------------------------------
    roots = [f['path'] for f in prog.fns.values() if '::tests::' not in f['path'] and (
        re.search(r'extension_splitter::split$', prog.short(f['path'])) or
        re.search(r'::split_payload_extension$', prog.short(f['path'])) or
        (f.get('impl_trait') == 'core::iter::traits::iterator::Iterator' and f['name'] == 'next' and f['path'].startswith('<trippy_packet::icmp_extension')) or
        (f['path'].startswith('trippy_core::net::extension::') and f['kind'] != 'Closure') or
        (f.get('impl_adt', '') or '').startswith('trippy_packet::icmp_extension::') and f.get('pubvis') and f['kind'] == 'AssocFn' and
        f['argc'] >= 1 and f['locals'][1]['ty'].startswith('&') and not f['locals'][1]['ty'].startswith('&mut'))]
    stop = {p_ for p_ in prog.fns if '::tests::' in p_ or 'trippy_core::net::platform::' in p_}
    scope = {p_ for p_ in cg.reachable(roots, stop=stop) if prog.fns[p_]['crate'] in ('packet', 'core')}
    scope = {p_ for p_ in scope if not (prog.fns[p_]['span']['exp'] and re.match(r'core::ops::(arith|bit)::', prog.fns[p_].get('trait_item') or ''))}
    chk.rule('R1', 'every panic-capable site reachable from the extension entry points is discharged', floor=18)
    chk.rule('R1t', 'loops in scope terminate', floor=0)
    chk.extra['roots'] = len(roots)
    if len(roots) < 20:
        chk.fail('R1', 'roots', '?', 'only %d extension entry points found' % len(roots), key='R1|roots')
    audit_scope(chk, prog, cg, roots, scope, tier, 'R1', 'R1t', ALLOW, BOUNDARY)

    # ---- R2 ---------------------------------------------------------------------------------------------
    chk.rule('R2', 'iterator progress (≥ 4 octets per item), containment (cursor ≤ len) and end condition', floor=6)
    A = Audit(prog)
    for pat, minstep in ((r'ExtensionObjectIter', 4), (r'MplsLabelStackIter', 4)):
        fns = [f for f in prog.fns.values() if f.get('impl_trait') == 'core::iter::traits::iterator::Iterator' and f['name'] == 'next' and pat in f['path']]
        if len(fns) != 1:
            chk.fail('R2', pat + ':anchor', '?', 'Iterator::next of %s not found' % pat, key='R2|%s|anchor' % pat)
            continue
        fn = fns[0]
        chk.fn_seen(fn['path'])
        # Buffer::get_bytes is a primitive (its model is checked by C12.OB, its bounds by R1): what matters here is which bytes it names
        eng = RangeEngine(prog, inline_depth=4, opaque=[r'buffer::Buffer(::<.*>)?::get_bytes$'])
        A.eng = eng
        st = St()
        eng.reset_tables()
        outs = eng.run(fn, A.args_for(fn, st), st)
        P = eng.P
        nsome = nnone = 0
        for i, o in enumerate(outs):
            if o.kind != 'return':
                chk.fail('R2', '%s:trace%d' % (pat, i), fn_loc(fn), '%s::next has a %s trace' % (pat, o.kind), key='R2|%s|%s' % (pat, o.kind))
                continue
            v = o.value
            is_some = isinstance(v, tuple) and v[0] == 'adt' and v[3] == 'Some'
            is_none = isinstance(v, tuple) and v[0] == 'adt' and v[3] == 'None'
            wr = [e for e in o.st.events if e[0] == 'write' and e[2] == 'offset']
            facts = eng.trace_facts(o.st)
            if is_some:
                nsome += 1
                if len(wr) != 1:
                    chk.fail('R2', '%s:some%d:cursor' % (pat, i), fn_loc(fn), '%s::next yields an item without advancing its cursor exactly once' % pat, key='R2|%s|cursor' % pat)
                    continue
                new = P.lin(wr[0][3])
                old = P.lin(('sym', 'self.offset'))
                # the buffer the iterator walks: any len(...) atom over self.buf
                lens = [P.lin(t_) for n_, t_ in list(P.atoms.items()) if n_.startswith('len(self.buf')]
                prog_ok = new is not None and P.prove(new.add(old, -1).add(Lin(minstep), -1), facts)
                cont_ok = new is not None and any(P.prove(l_.add(new, -1), facts) for l_ in lens if l_ is not None)
                if prog_ok:
                    chk.ok('R2', '%s:some%d:progress' % (pat, i), 'cursor += ≥ %d' % minstep)
                else:
                    chk.fail('R2', '%s:some%d:progress' % (pat, i), fn_loc(fn), '%s::next can yield an item while advancing the cursor by less than %d octets '
                             '(new cursor %s): iteration may not terminate' % (pat, minstep, vshow(wr[0][3])[:80]), key='R2|%s|progress' % pat)
                if cont_ok:
                    chk.ok('R2', '%s:some%d:containment' % (pat, i), 'new cursor ≤ len(buffer)')
                else:
                    chk.fail('R2', '%s:some%d:containment' % (pat, i), fn_loc(fn), '%s::next yields an item whose declared extent is not shown to lie inside the '
                             'buffer (new cursor %s may pass the end): a truncated object would be reported' % (pat, vshow(wr[0][3])[:80]), key='R2|%s|containment' % pat)
                # the step is the item's own extent: the object's length field (read from the buffer at the cursor) / one 4-octet label entry
                if new is not None:
                    step = new.add(old, -1)
                    if pat == 'MplsLabelStackIter':
                        step_ok = step.isconst() and step.c == 4
                        want_step = 'exactly 4 octets (one label stack entry)'
                    else:
                        step_ok = (not step.isconst()) and step.c == 0 and len(step.t) == 1 and list(step.t.values()) == [1] and 'self.buf' in list(step.t)[0]
                        want_step = 'the length field of the object at the cursor'
                    if step_ok:
                        chk.ok('R2', '%s:some%d:step' % (pat, i), 'cursor advances by %s' % want_step)
                    else:
                        chk.fail('R2', '%s:some%d:step' % (pat, i), fn_loc(fn), '%s::next advances its cursor by %s; it must advance by %s, or the following items are read from the middle of this one' % (
                            pat, step, want_step), key='R2|%s|step' % pat)
                if pat == 'MplsLabelStackIter':
                    bw = [e for e in o.st.events if e[0] == 'write' and e[2] == 'bos']
                    if len(bw) == 1 and 'self.buf' in vshow(eng.purify(bw[0][3], o.st)):
                        chk.ok('R2', '%s:some%d:bos' % (pat, i), 'bottom-of-stack flag of the yielded entry is remembered')
                    else:
                        chk.fail('R2', '%s:some%d:bos' % (pat, i), fn_loc(fn), 'MplsLabelStackIter::next yields an entry without recording its bottom-of-stack bit: the walk continues past the end of the label stack',
                                 key='R2|MplsLabelStackIter|bos')
                # the yielded slice is a sub-slice of the buffer
                pay = vshow(eng.purify(v[4][0], o.st))
                if re.match(r'subslice\(self\.buf', pay):
                    chk.ok('R2', '%s:some%d:subslice' % (pat, i), pay[:70])
                else:
                    chk.fail('R2', '%s:some%d:subslice' % (pat, i), fn_loc(fn), '%s::next yields %s, not a sub-slice of its buffer' % (pat, pay[:80]), key='R2|%s|subslice' % pat)
            elif is_none:
                nnone += 1
                if wr:
                    chk.fail('R2', '%s:none%d' % (pat, i), fn_loc(fn), '%s::next returns None but moves the cursor' % pat, key='R2|%s|none-moves' % pat)
                else:
                    chk.ok('R2', '%s:none%d' % (pat, i), [(vshow(a)[:50], x) for a, x, _ in o.st.decisions][-2:], nontrivial=False)
            else:
                chk.fail('R2', '%s:trace%d' % (pat, i), fn_loc(fn), '%s::next returns %s' % (pat, vshow(v)[:60]), key='R2|%s|shape' % pat)
        if not nsome or not nnone:
            chk.fail('R2', pat + ':coverage', fn_loc(fn), '%s::next: %d Some / %d None traces' % (pat, nsome, nnone), key='R2|%s|coverage' % pat)

    # ---- R3 / R4: split ---------------------------------------------------------------------------------
    chk.rule('R3', 'split: results are disjoint sub-slices of the argument', floor=5)
    chk.rule('R4', 'split implements the RFC 4884 rule (decision table)', floor=5)
    fs = prog.find(r'extension_splitter::split$')
    chk.fn_seen(fs['path'])
    eng = RangeEngine(prog, inline_depth=2)
    eng.reset_tables()
    st = St()
    a_len, a_pay = ('sym', 'length'), ('sym', 'icmp_payload')
    eng.types[key(a_len)] = 'usize'
    eng.slice_elem['icmp_payload'] = 'u8'
    outs = eng.run(fs, [a_len, a_pay], st)
    P = eng.P
    LEN = P.lin(('term', 'len', [a_pay]))
    L = P.lin(a_len)
    rows = set()
    for i, o in enumerate(outs):
        if o.kind != 'return' or not (isinstance(o.value, tuple) and o.value[0] == 'tuple'):
            chk.fail('R3', 'split:trace%d' % i, fn_loc(fs), 'split has a %s trace' % o.kind, key='R3|split|' + o.kind)
            continue
        facts = eng.trace_facts(o.st)
        pay, ext = eng.purify(o.value[1][0], o.st), eng.purify(o.value[1][1], o.st)
        pb = _bounds_of(P, pay, a_pay)
        has_ext = isinstance(ext, tuple) and ext[0] == 'adt' and ext[3] == 'Some'
        eb = _bounds_of(P, ext[4][0], a_pay) if has_ext else None
        if pb is None or (has_ext and eb is None):
            chk.fail('R3', 'split:trace%d:subslice' % i, fn_loc(fs), 'split returns %s / %s: not sub-slices of its argument' % (vshow(pay)[:60], vshow(ext)[:60]), key='R3|split|subslice')
            continue
        inside = P.prove(LEN.add(pb[1], -1), facts) and (not has_ext or (P.prove(LEN.add(eb[1], -1), facts) and P.prove(eb[0], facts)))
        disjoint = (not has_ext) or P.prove(eb[0].add(pb[1], -1), facts)
        if inside and disjoint:
            chk.ok('R3', 'split:trace%d' % i, 'datagram [%s, %s) extension %s' % (pb[0], pb[1], ('[%s, %s)' % eb) if has_ext else 'none'))
        else:
            chk.fail('R3', 'split:trace%d' % i, fn_loc(fs), 'split: datagram [%s, %s) and extension %s are not shown disjoint and inside the message' % (
                pb[0], pb[1], ('[%s, %s)' % eb) if has_ext else 'none'), key='R3|split|overlap')
        # R4: classify the trace by the RFC's conditions, using the prover on the trace's facts
        def holds(g):
            return bool(P.prove(g, facts))
        gt_len = holds(L.add(LEN, -1).add(Lin(1), -1))              # length > len
        le_len = holds(LEN.add(L, -1))
        big = holds(LEN.add(Lin(129), -1))                           # len > 128
        small = holds(Lin(128).add(LEN, -1))
        l_big = holds(L.add(Lin(129), -1))
        l_small = holds(Lin(128).add(L, -1))
        l_pos = holds(L.add(Lin(1), -1))
        l_zero = holds(L.scale(-1))
        want = None
        if gt_len or (le_len and small):
            row, want = ('length>len' if gt_len else 'len<=128'), ((Lin(0), LEN), None)
        elif le_len and big and l_big:
            row = 'compliant>128'
            enough = holds(LEN.add(L, -1).add(Lin(4), -1))
            short_ = holds(L.add(Lin(3)).add(LEN, -1))
            want = ((Lin(0), L), (L, LEN)) if enough else (((Lin(0), LEN), None) if short_ else 'undecided')
            row += ':ext>=4' if enough else ':ext<4'
        elif le_len and big and l_small and (l_pos or l_zero):
            row = 'compliant<=128' if l_pos else 'legacy'
            enough = holds(LEN.add(Lin(132), -1))
            short_ = holds(Lin(131).add(LEN, -1))
            end = L if l_pos else Lin(128)
            want = ((Lin(0), end), (Lin(128), LEN)) if enough else (((Lin(0), LEN), None) if short_ else 'undecided')
            row += ':ext>=4' if enough else ':ext<4'
        elif le_len and big and l_small and holds(Lin(131).add(LEN, -1)):
            # fewer than 4 octets after offset 128: "compliant ≤ 128" and "legacy" ask for the same answer (no extension), so a trace need not
            # tell them apart
            row, want = 'compliant<=128:ext<4', ((Lin(0), LEN), None)
            rows.add('legacy:ext<4')
        else:
            row = 'unclassified'
        rows.add(row)
        if want is None or want == 'undecided':
            chk.fail('R4', 'split:trace%d:%s' % (i, row), fn_loc(fs), 'split decides on conditions outside the RFC 4884 rule (decisions %s)' % (
                [(vshow(a)[:50], x) for a, x, _ in o.st.decisions],), key='R4|split|unclassified')
            continue
        (wp, we) = want
        same = lambda x, y: P.prove(x.add(y, -1), facts) and P.prove(y.add(x, -1), facts)
        good = same(pb[0], wp[0]) and same(pb[1], wp[1]) and ((we is None) == (not has_ext)) and (we is None or (same(eb[0], we[0]) and same(eb[1], we[1])))
        if good:
            chk.ok('R4', 'split:%s' % row, 'datagram [0, %s) extension %s' % (wp[1], ('[%s, len)' % we[0]) if we else 'none'))
        else:
            chk.fail('R4', 'split:%s' % row, fn_loc(fs), 'split in case %s returns datagram [%s, %s) / extension %s; RFC 4884 requires datagram [0, %s) / extension %s' % (
                row, pb[0], pb[1], ('[%s, %s)' % eb) if has_ext else 'none', wp[1], ('[%s, len)' % we[0]) if we else 'none'), key='R4|split|' + row)
    need = {'length>len', 'len<=128', 'compliant>128:ext>=4', 'compliant>128:ext<4', 'compliant<=128:ext>=4', 'compliant<=128:ext<4', 'legacy:ext>=4', 'legacy:ext<4'}
    if not need <= rows:
        chk.fail('R4', 'split:coverage', fn_loc(fs), 'RFC 4884 cases not derived from split: %s' % sorted(need - rows), key='R4|split|coverage')

    # ---- R5 ---------------------------------------------------------------------------------------------
    chk.rule('R5', 'scale factors 4 (ICMPv4) / 8 (ICMPv6), payload after the 8-octet header, version 2 only', floor=5)
    for fam, k in (('icmpv4', 4), ('icmpv6', 8)):
        for ty in ('time_exceeded::TimeExceededPacket', 'destination_unreachable::DestinationUnreachablePacket'):
            f = prog.find(r'%s::%s::split_payload_extension$' % (fam, ty))
            chk.fn_seen(f['path'])
            eng = RangeEngine(prog, inline_depth=2, opaque=[r'::get_length$', r'Buffer::<.*>::as_slice$', r'extension_splitter::split$'])     # depth 2: the payload may come from the view's own payload_raw()
            A.eng = eng
            eng.reset_tables()
            st = St()
            outs = eng.run(f, A.args_for(f, st), st)
            good = False
            detail = ''
            for o in outs:
                sc = [e for e in o.st.events if e[0] == 'call' and e[1].endswith('extension_splitter::split')]
                if len(sc) != 1:
                    continue
                ln = eng.P.lin(sc[0][7][0])
                pay = vshow(sc[0][7][1])
                gl = [n_ for n_ in (ln.t if ln else {}) if 'get_length(self)' in n_]
                detail = 'split(%s, %s)' % (vshow(sc[0][7][0])[:60], pay[:70])
                if ln is not None and len(ln.t) == 1 and gl and ln.t[gl[0]] == k and ln.c == 0 and \
                        re.fullmatch(r'subslice\(call:Buffer::as_slice\(self\.buf\), 8, len\(call:Buffer::as_slice\(self\.buf\)\)\)', pay):
                    good = True
            tag = '%s::%s' % (fam, ty.split('::')[-1])
            if good:
                chk.ok('R5', tag + ':scale', '%s — length = get_length() × %d' % (detail, k))
            else:
                chk.fail('R5', tag + ':scale', fn_loc(f), '%s::split_payload_extension must call split(get_length() × %d (without narrowing), buf[8..]); found %s' % (
                    tag, k, detail or 'no single call to split'), key='R5|%s|scale' % tag)
    # the structure is parsed exactly when its version field equals the supported version (any other version yields no extensions, not a parse)
    ftv = [f_ for p_, f_ in prog.fns.items() if re.search(r'TryFrom<.*ExtensionsPacket<.*>> for trippy_core::probe::Extensions>::try_from$', p_)]
    if ftv:
        from ..tables import holds
        ev_ = Engine(prog, inline_depth=0)
        stv = St()
        okv, seenv = True, set()
        for o in ev_.run(ftv[0], [('sym', 'value')], stv):
            if o.kind != 'return':
                continue
            va = [vshow(a) for a, v, _ in o.st.decisions if 'get_version' in vshow(a)]
            m_ = re.search(r'(call:ExtensionHeaderPacket::get_version\(.*?\)\)\)\)), (\d+)\)', va[0]) if va else None
            eq = holds(o.st.decisions, 'Eq(%s, 2)' % m_.group(1)) if m_ else None
            parses = bool(user_calls(o, r'ExtensionsPacket::(<.*>::)?objects$|ExtensionsPacket.*::objects$'))
            if va and eq is None:
                okv = False            # decided on the version in some other way than equality with 2
            if parses and eq != 1:
                okv = False
            if eq == 0 and vshow(o.value) != 'Result::Ok(call:Extensions::default())':
                okv = False
            if eq is not None:
                seenv.add(eq)
        if okv and seenv == {0, 1}:
            chk.ok('R5', 'version-test', 'objects are parsed iff header.version == 2; any other version yields no extensions')
        else:
            chk.fail('R5', 'version-test', fn_loc(ftv[0]), 'Extensions::try_from does not parse the objects exactly when the version field equals 2 (RFC 4884 defines version 2 only)', key='R5|version-test')
    ver = prog.consts.get('trippy_core::net::extension::ICMP_EXTENSION_VERSION')
    if ver and ver['bits'] == '2':
        chk.ok('R5', 'version', 'ICMP_EXTENSION_VERSION = 2')
    else:
        chk.fail('R5', 'version', 'crates/trippy-core/src/net/extension.rs', 'the supported ICMP extension version is %s, RFC 4884 defines version 2' % (ver and ver['bits']), key='R5|version')

    # ---- R6 (informational) --------------------------------------------------------------------------------
    chk.rule('R6', 'extension parse-mode table of extract_probe_resp (sibling cross-check, informational)', floor=0)
    table = {}
    for fam in ('ipv4::Ipv4', 'ipv6::Ipv6'):
        f = prog.find(r'net::%s::extract_probe_resp$' % fam)
        calls = set()
        for b in f['blocks']:
            t = b['term']
            if t['k'] == 'call' and not b['cleanup']:
                c = short(t['resolved'] or t['callee'])
                if re.search(r'(TimeExceededPacket|DestinationUnreachablePacket)::(payload|payload_raw|extension)$', c):
                    calls.add(c)
        table[fam] = sorted(calls)
    chk.notes.append('extension-mode accessors used: %s' % table)
    if table.get('ipv4::Ipv4') == table.get('ipv6::Ipv6'):
        chk.ok('R6', 'v4-v6-agree', table['ipv4::Ipv4'], nontrivial=False)
    else:
        chk.notes.append('v4 and v6 extract_probe_resp use different accessor sets (informational)')
    if not any(c.startswith('DestinationUnreachablePacket::payload_raw') for c in table.get('ipv4::Ipv4', [])):
        chk.notes.append('sibling difference: DestinationUnreachable always uses payload() (RFC 4884 split) even with extension parsing Disabled, '
                         'while TimeExceeded uses payload_raw(); no observable defect was derived from it')

    # ---- R7: what is reported for each object ------------------------------------------------------------------
    chk.rule('R7', 'conversion: an object\'s bytes are its own payload (clipped to its length field), class and labels are copied by name, MPLS iff class 1', floor=5)
    e7 = Engine(prog, inline_depth=0)
    W = lambda x: r'(?:as_usize\()?%s\)?' % x

    def conv(rx):
        fs_ = [f_ for p_, f_ in prog.fns.items() if re.search(rx, p_) and '::tests' not in p_ and f_['kind'] != 'Closure']
        if len(fs_) != 1:
            chk.fail('R7', 'anchor:' + rx[:40], '?', 'conversion %s not found (anchor lost)' % rx, key='R7|anchor|' + rx[:40])
            return None, []
        chk.fn_seen(fs_[0]['path'])
        st_ = St()
        a_ = [('sym', 'value')] if not fs_[0]['locals'][1]['ty'].startswith('&') else [e7.sym_ref(st_, 'self')]
        return fs_[0], e7.run(fs_[0], a_, st_)

    def fields_of(adt, val):
        """`Adt(a, b, c)` as printed -> {field name: printed value} (top-level split on commas)"""
        names = [y['name'] for y in prog.adt(adt)['variants'][0]['fields']]
        m_ = re.fullmatch(r'\w+\((.*)\)', val, re.S)
        if not m_:
            return None
        parts, depth, cur = [], 0, ''
        for ch in m_.group(1):
            if ch == ',' and depth == 0:
                parts.append(cur.strip())
                cur = ''
                continue
            depth += ch in '([{'
            depth -= ch in ')]}'
            cur += ch
        parts.append(cur.strip())
        return dict(zip(names, parts)) if len(parts) == len(names) else None
    # (a) the payload of an object: from the 4-octet object header to its own length field, clipped to the buffer and never before the header
    f_, outs_ = conv(r'extension_object::ExtensionObjectPacket(::<.*>)?::payload$')
    MINP, BUF = r'call:ExtensionObjectPacket::minimum_packet_size\(\)', r'call:Buffer::as_slice\(self\.buf\)'
    LEN, BL = W(r'call:ExtensionObjectPacket::get_length\(self\)'), r'len\(%s\)' % r'call:Buffer::as_slice\(self\.buf\)'
    clip = r'(?:Min\(%s, %s\)|Min\(%s, %s\))' % (LEN, BL, BL, LEN)
    end_ = r'(?:Max\(%s, (?:%s|4)\)|Max\((?:%s|4), %s\))' % (clip, MINP, MINP, clip)
    vals = sorted({vshow(o.value) if o.kind == 'return' else o.kind for o in outs_})
    if f_ is not None:
        if len(vals) == 1 and re.fullmatch(r'call:index::index\(%s, Range\((?:%s|4), %s\)\)|subslice\(%s, (?:%s|4), %s\)' % (BUF, MINP, end_, BUF, MINP, end_), vals[0]) and not any(o.st.decisions for o in outs_):
            chk.ok('R7', 'object:payload', 'packet[4 .. max(min(length, len), 4)]')
        else:
            chk.fail('R7', 'object:payload', fn_loc(f_), 'ExtensionObjectPacket::payload is %s; an object\'s payload runs from its 4-octet header to its own length field (clipped to the buffer)' % [v[:200] for v in vals], key='R7|object|payload')
    # (b) unknown objects: class, sub-type and exactly the object's own payload
    f_, outs_ = conv(r'From<.*ExtensionObjectPacket<.*>> for trippy_core::probe::UnknownExtension>::from$')
    if f_ is not None:
        vals = sorted({vshow(o.value) if o.kind == 'return' else o.kind for o in outs_})
        fl = fields_of('trippy_core::probe::UnknownExtension', vals[0]) if len(vals) == 1 else None
        want = {'class_num': r'call:ClassNum::id\(call:ExtensionObjectPacket::get_class_num\(value\)\)', 'class_subtype': r'field:0\(call:ExtensionObjectPacket::get_class_subtype\(value\)\)|call:ClassSubType::id\(call:ExtensionObjectPacket::get_class_subtype\(value\)\)',
                'bytes': r'(?:call:\w+::(?:to_owned|to_vec|from)\()?call:ExtensionObjectPacket::payload\(value\)\)?'}
        bad = [k for k in want if fl is None or not re.fullmatch(want[k], fl.get(k, ''))]
        if not bad:
            chk.ok('R7', 'unknown:fields', fl)
        else:
            chk.fail('R7', 'unknown:fields', fn_loc(f_), 'UnknownExtension::from takes %s from %s; class, sub-type and the bytes of an object are its own getters and its own payload() (the object slices handed out by the iterator run to the end of the whole structure: only payload() clips them)' % (
                bad, {k: (fl or {}).get(k, vals)[:120] if fl else str(vals)[:160] for k in bad}), key='R7|unknown|' + ','.join(bad))
    # (c) label stack entries are copied field by field
    f_, outs_ = conv(r'From<.*MplsLabelStackMemberPacket<.*>> for trippy_core::probe::MplsLabelStackMember>::from$')
    if f_ is not None:
        vals = sorted({vshow(o.value) if o.kind == 'return' else o.kind for o in outs_})
        fl = fields_of('trippy_core::probe::MplsLabelStackMember', vals[0]) if len(vals) == 1 else None
        bad = [k for k in (fl or {'?': ''}) if not re.fullmatch(r'call:MplsLabelStackMemberPacket::get_%s\(value\)' % k, (fl or {}).get(k, ''))]
        if fl and not bad:
            chk.ok('R7', 'mpls-member:fields', fl)
        else:
            chk.fail('R7', 'mpls-member:fields', fn_loc(f_), 'MplsLabelStackMember::from fills %s from %s, not from the getter of the same name' % (bad, fl or vals), key='R7|mpls-member|' + ','.join(bad))
    # (d) the stack is made of every member the iterator yields
    f_, outs_ = conv(r'From<.*MplsLabelStackPacket<.*>> for trippy_core::probe::MplsLabelStack>::from$')
    if f_ is not None:
        vals = sorted({vshow(o.value) if o.kind == 'return' else o.kind for o in outs_})
        okm = len(vals) == 1 and re.fullmatch(r'MplsLabelStack\(call:Iterator::collect\(call:Iterator::map\(call:Iterator::flat_map\(call:MplsLabelStackPacket::members\(value\), fn:[^,]*MplsLabelStackMemberPacket::<.a>::new_view\), fn:[^,]*MplsLabelStackMember>::from\)\)\)', vals[0])
        if not okm and len(vals) == 1 and re.fullmatch(r'MplsLabelStack\(call:Iterator::collect\(call:Iterator::map\(call:Iterator::filter_map\(call:MplsLabelStackPacket::members\(value\), closure:[\w:{}#]+\), fn:[^,]*MplsLabelStackMember>::from\)\)\)', vals[0]):
            # the same selection as a closure: `.filter_map(|bytes| new_view(bytes).ok())` keeps exactly the members that can be viewed, like flat_map over the Result
            mcl = [c_ for c_ in prog.fns.values() if c_['kind'] == 'Closure' and c_.get('parent') == f_['path']]
            if len(mcl) == 1:
                stm = St()
                em = Engine(prog, inline_depth=0)
                mo = sorted({vshow(o.value) if o.kind == 'return' else o.kind for o in em.run(mcl[0], [em.sym_ref(stm, 'env'), ('sym', 'bytes')], stm)})
                okm = mo == ['ok(call:MplsLabelStackMemberPacket::new_view(bytes))'] or mo == ['call:Result::ok(call:MplsLabelStackMemberPacket::new_view(bytes))']
                if not okm:
                    vals = vals + ['closure: %s' % mo]
        if not okm:
            # the same collection as an explicit loop: `for bytes in value.members() { if let Ok(m) = new_view(bytes) { v.push(from(m)) } }` — by the std
            # contract of `for`, every item of members() is visited once; each visit views the item and pushes its conversion iff the view succeeds
            el = Engine(prog, inline_depth=0, loop_visits=2)
            stl = St()
            lo = el.run(f_, [('sym', 'value')], stl)
            okl, nvis = bool(lo), 0
            for o in lo:
                ev = user_calls(o)
                dec = {vshow(a): v for a, v, _ in o.st.decisions}
                names = [short(c[1]) for c in ev]
                if names[:3] != ['Vec::new', 'MplsLabelStackPacket::members', 'IntoIterator::into_iter'] or vshow(ev[1][7][0]) != 'value':
                    okl = False
                    continue
                i = 3
                while i < len(ev):
                    if not re.search(r'::next$', ev[i][1]):
                        okl = False
                        break
                    item = 'field:0(%s)' % vshow(('term', 'call:' + short(ev[i][1]), ev[i][7]))
                    j = i + 1
                    body = []
                    while j < len(ev) and not re.search(r'::next$', ev[j][1]):
                        body.append(ev[j])
                        j += 1
                    bn = [short(c[1]) for c in body]
                    if body:
                        nvis += 1
                        nv = vshow(('term', 'call:' + short(body[0][1]), body[0][7]))
                        if bn[0] != 'MplsLabelStackMemberPacket::new_view' or vshow(body[0][7][0]) != item:
                            okl = False
                        elif dec.get('discr(%s)' % nv) == 0:
                            # truncated traces may stop after the view; a completed visit converts and pushes exactly once
                            if bn[1:] not in (['extension::from', 'Vec::push'], ['extension::from'], []) or (len(body) > 1 and vshow(body[1][7][0]) != 'field:0(%s)' % nv) or \
                                    (len(body) > 2 and not vshow(body[2][7][1]).startswith('call:extension::from(field:0(%s' % nv[:60])):
                                okl = False
                            if o.kind == 'return' and bn[1:] != ['extension::from', 'Vec::push']:
                                okl = False
                        elif dec.get('discr(%s)' % nv) == 1 and bn[1:]:
                            okl = False
                    i = j
                if o.kind == 'return' and not re.fullmatch(r'MplsLabelStack\((call:Vec::new\(\)|havoc:Vec::push\(.*\))\)', vshow(o.value)):
                    okl = False
            if okl and nvis:
                okm = True
        if okm:
            chk.ok('R7', 'mpls-stack:members', 'members().flat_map(new_view).map(from).collect()')
        else:
            chk.fail('R7', 'mpls-stack:members', fn_loc(f_), 'MplsLabelStack::from is %s; expected every member of value.members(), viewed and converted' % [v[:200] for v in vals], key='R7|mpls-stack')
    # (e) dispatch on the class: MPLS label stack iff class 1, built from the object's own payload
    cls_ = [f_ for p_, f_ in prog.fns.items() if re.search(r'TryFrom<.*ExtensionsPacket<.*>> for trippy_core::probe::Extensions>::try_from::\{closure#\d+\}$', p_)]
    cn = prog.variant_names('trippy_packet::icmp_extension::extension_object::ClassNum')
    MPLS = cn.index('MultiProtocolLabelSwitchingLabelStack')
    conv_args = lambda c_, st_: [e7.sym_ref(st_, 'env'), ('sym', 'obj')]
    if not cls_:
        # the per-object conversion may be a named function handed to `map` instead of a closure: take whatever function try_from maps over the objects
        ftf = [f_ for p_, f_ in prog.fns.items() if re.search(r'TryFrom<.*ExtensionsPacket<.*>> for trippy_core::probe::Extensions>::try_from$', p_)]
        for f_ in ftf[:1]:
            st_ = St()
            e70 = Engine(prog, inline_depth=0)
            for o in e70.run(f_, [('sym', 'value')], st_):
                for c in user_calls(o, r'Iterator::map$'):
                    fv = c[7][1]
                    if isinstance(fv, tuple) and fv[0] == 'fn' and fv[1] in prog.fns and prog.fns[fv[1]] not in cls_:
                        cls_.append(prog.fns[fv[1]])
        conv_args = lambda c_, st_: [('sym', 'obj')]
    okd, whyd, rows = bool(cls_), 'no per-object conversion (closure or function mapped over the objects) found', 0
    for c_ in cls_[:1]:
        st_ = St()
        for o in e7.run(c_, conv_args(c_, st_), st_):
            d = [(vshow(a), v) for a, v, _ in o.st.decisions]
            val = vshow(o.value)
            cd_ = [v for a, v in d if a == 'discr(call:ExtensionObjectPacket::get_class_num(obj))']
            is_mpls = None if len(cd_) != 1 else (cd_[0] == MPLS if isinstance(cd_[0], int) else (False if (isinstance(cd_[0], tuple) and cd_[0][0] == 'ne' and MPLS in set(cd_[0][1])) else None))
            rows += 1
            NV = r'call:MplsLabelStackPacket::new_view\(call:ExtensionObjectPacket::payload\(obj\)\)'
            if is_mpls is True:
                if not re.fullmatch(r'Result::Ok\(Extension::Mpls\(call:extension::from\(field:0\(%s\)\)\)\)|Result::Err\(field:0\(%s\)\)' % (NV, NV), val):
                    okd, whyd = False, 'a class-1 object becomes %s' % val[:160]
            elif is_mpls is False:
                if val != 'Result::Ok(Extension::Unknown(call:extension::from(obj)))':
                    okd, whyd = False, 'an object of another class becomes %s' % val[:160]
            else:
                okd, whyd = False, 'the per-object conversion decides on %s' % d
    if okd and rows >= 3:
        chk.ok('R7', 'dispatch', 'Mpls(new_view(obj.payload())) iff class 1, Unknown(obj) otherwise')
    else:
        chk.fail('R7', 'dispatch', '?', 'Extensions::try_from: %s' % whyd, key='R7|dispatch')


def _bounds_of(P, v, base):
    """v is `base` or a (nested) subslice of it -> (start Lin, end Lin) relative to base, else None"""
    if key(v) == key(base):
        return (Lin(0), P.lin(('term', 'len', [base])))
    if isinstance(v, tuple) and v[0] == 'term' and v[1] == 'subslice':
        inner = _bounds_of(P, v[2][0], base)
        lo, hi = P.lin(v[2][1]), P.lin(v[2][2])
        if inner is None or lo is None or hi is None:
            return None
        return (inner[0].add(lo), inner[0].add(hi))
    return None
