"""C18 — hop privacy: hidden hops never reach the screen (information-flow guard rule on abstract traces).

Where hop-identifying data can enter the front end is a closed list (R0, a census over the type-checked program): `Hop::addrs`,
`Hop::addrs_with_counts` (every address, and through them every DNS / AS / GeoIP lookup, starts there), `Tracer::source_addr`, and the fields of
world.rs's `MapEntry` (GeoIP names and coordinates gathered per location). `State::flows` is used for ids and counts only.
 R0 census: every call in trippy_tui::frontend to a trippy-core API whose result carries addresses is in that list; Flow entries are never
    projected or formatted in the front end.
 R1 reveal sites are guarded: on every abstract trace of the enclosing function that reaches a reveal call on hop X, the trace holds the
    decision "X is shown" — a comparison of `privacy_max_ttl` with Some(X.ttl()) for that same X, on its shown edge. A function that reveals a hop
    it receives as a parameter (format_details) or captures (a closure) without deciding itself hands the obligation to every caller / creation
    site (followed to the roots). Frozen exceptions, each with its own obligation: `TuiApp::max_hosts` (the closure only counts addresses) and
    `build_map_entries` (collector; its consumers are R3).
 R2 polarity (a finite set of orderings): every ordering comparison that mentions privacy_max_ttl on a reveal path is one of
    ge(P, Some(T)) / le(Some(T), P) [true ⇒ hidden] or gt(Some(T), P) / lt(P, Some(T)) [true ⇒ shown]; anything else (>, swapped operands, a ttl
    of another hop) is an off-by-one or wrong-hop leak. P is the live configuration (`*.tui_config.privacy_max_ttl`, or a `config` parameter
    that every caller binds to `app.tui_config`).
 R3 MapEntry consumers: a function reading a MapEntry's revealing fields is reached only under `entry.hops.iter().any(|h| Some(*h) > P)` for that
    entry, or reads them under `entry.hops.contains(X.ttl())` with every consumer of the collected text guarded by "X is shown".
 R4 the source address is looked up only on the `privacy_max_ttl.is_none()` edge.
 R5 privacy transitions: privacy_max_ttl is written only by expand_privacy (None → Some(0); Some(n) → Some(n+1) iff n < hop count of the selected
    flow) and contract_privacy (Some(n>0) → Some(n−1); Some(0) → None; None unchanged), and the constructor; each is invoked from the key loop
    only under its own binding.
Not decided: what ratatui finally paints (cells), text reaching the screen by a path that does not start at a listed source (the configured target
address is shown by design), terminal sizes.
"""
import re

from .common import *
from ..callgraph import CallGraph
from ..writers import field_writers
from ..tables import decided, canon, cdec, holds

LEVEL = 'other'
HOP_SOURCES = {'trippy_core::state::Hop::addrs': 0, 'trippy_core::state::Hop::addrs_with_counts': 0}
SRC_ADDR = 'trippy_core::tracer::Tracer::source_addr'
MAPENTRY = 'trippy_tui::frontend::render::world::MapEntry'
ENTRY_SAFE_FIELDS = {'hops'}
# address-bearing APIs that are not hop reveals, with the reason
CENSUS_OK = {
    'trippy_core::tracer::Tracer::target_addr': 'the configured target: shown by design (header, tabs)',
    'trippy_core::state::State::flows': 'ids / counts only: see the Flow projection rule',
}
ALLOW = {
    'trippy_tui::frontend::tui_app::TuiApp::max_hosts::{closure}': ('count-only', r'call:\w+::count\(call:Hop::addrs\(p1\)\)'),
    'trippy_tui::frontend::render::world::build_map_entries': ('collector', None),
}
HIDDEN_TRUE = {('Ge', 'P', 'T'), ('Le', 'T', 'P')}
SHOWN_TRUE = {('Gt', 'T', 'P'), ('Lt', 'P', 'T')}


def in_scope(path):
    return path.startswith('trippy_tui::frontend') and '::tests' not in path


def fn_args(eng, st, fn):
    args = []
    clo = fn['kind'] == 'Closure'
    for i in range(1, fn['argc'] + 1):
        nm = ('env' if i == 1 else 'p%d' % (i - 1)) if clo else 'a%d' % (i - 1)
        ty = fn['locals'][i]['ty']
        args.append(eng.sym_ref(st, nm) if (ty.startswith('&') or (clo and i == 1)) else ('sym', nm))
    return args


def privacy_predicates(prog):
    """front-end functions that only compute a bool from privacy_max_ttl (a named form of the comparison): they read the field, return bool and
    call nothing of this crate — their decision is evaluated in the caller's trace, with the caller's arguments, like the comparison they name"""
    out = set()
    for path, fn in prog.fns.items():
        if not in_scope(path) or fn['kind'] == 'Closure' or fn['locals'][0]['ty'] != 'bool':
            continue
        reads = []

        def see(pl):
            for e in pl['p']:
                if e['k'] == 'field' and e.get('n') == 'privacy_max_ttl':
                    reads.append(1)
        walk_places(fn['blocks'], see)
        calls = [(b['term'].get('resolved') or b['term']['callee']) for b in fn['blocks'] if b['term']['k'] == 'call' and not b['cleanup']]
        if reads and not any(c.startswith('trippy_tui::') for c in calls) and not any(c in HOP_SOURCES or c == SRC_ADDR for c in calls):
            out.add(path)
    return out


class Traces:
    def __init__(self, prog):
        self.prog = prog
        self.cache = {}
        self.preds = privacy_predicates(prog)

    def of(self, path):
        if path not in self.cache:
            fn = self.prog.fns[path]
            eng = Engine(self.prog, inline_depth=1, inline_filter=lambda c: c in self.preds)
            st = St()
            self.cache[path] = eng.run(fn, fn_args(eng, st, fn), st)
        return self.cache[path]


def is_p(t):
    return vshow(t).endswith('.privacy_max_ttl')


def classify(atom, x):
    """-> None (not a privacy comparison) | ('shown'|'hidden' when true) | ('bad', why)"""
    if not (isinstance(atom, tuple) and atom[0] == 'term'):
        return None
    s = vshow(atom)
    if 'privacy_max_ttl' not in s:
        return None
    if atom[1] not in ('Ge', 'Gt', 'Le', 'Lt', 'Eq', 'Ne') or len(atom[2]) != 2:
        return None
    l, r = atom[2]
    tt = 'Option::Some(call:Hop::ttl(%s))' % x

    def role(t):
        if is_p(t):
            return 'P'
        if vshow(t) == tt:
            return 'T'
        return '?'
    k = (atom[1], role(l), role(r))
    if k in HIDDEN_TRUE:
        return 'hidden'
    if k in SHOWN_TRUE:
        return 'shown'
    if '?' in k:
        return ('other', s)
    return ('bad', s)


def shown_on(o, x):
    """(is X decided shown on this trace, [bad comparisons about X], P terms used)"""
    ok = False
    bad = []
    ps = []
    for a, v, _ in o.st.decisions:
        c = classify(a, x)
        if c is None or (isinstance(c, tuple) and c[0] == 'other'):
            continue
        if isinstance(c, tuple):
            bad.append(c[1])
            continue
        if (c == 'hidden' and v == 0) or (c == 'shown' and v == 1):
            ok = True
            ps.append(vshow([t for t in a[2] if is_p(t)][0]))
    return ok, bad, ps


def walk_places(obj, fn):
    if isinstance(obj, dict):
        if 'p' in obj and isinstance(obj['p'], list) and 'l' in obj:
            fn(obj)
        for v in obj.values():
            walk_places(v, fn)
    elif isinstance(obj, list):
        for v in obj:
            walk_places(v, fn)


def contains_closure(v, path, depth=0):
    if not isinstance(v, (tuple, list)) or depth > 12:
        return False
    if isinstance(v, tuple) and len(v) >= 2 and v[0] == 'closure' and v[1] == path:
        return True
    return any(contains_closure(x, path, depth + 1) for x in v if isinstance(x, (tuple, list)))


def find_closure(v, path, depth=0):
    if not isinstance(v, (tuple, list)) or depth > 12:
        return None
    if isinstance(v, tuple) and len(v) >= 3 and v[0] == 'closure' and v[1] == path:
        return v
    for x in v:
        if isinstance(x, (tuple, list)):
            r = find_closure(x, path, depth + 1)
            if r is not None:
                return r
    return None


def run(chk, tier):
    prog = program(crates=('tui',))
    chk.explanation = __doc__
    cg = CallGraph(prog)
    tr = Traces(prog)
    for r, d, fl in (('R0', 'census of address-bearing sources in the front end', 8), ('R1', 'every reveal site is decided "shown" for the same hop on every trace', 6),
                     ('R2', 'privacy comparisons have the hidden/shown polarity and read the live configuration', 3), ('R3', 'MapEntry consumers are guarded', 4),
                     ('R4', 'source address only when privacy is off', 1), ('R5', 'privacy moves in steps of one, under its own key binding', 5)):
        chk.rule(r, d, floor=fl)

    # ---- R0 census ---------------------------------------------------------------------------------------
    sites = []            # (fn path, callee, term)
    FLOW = 'trippy_core::flows::Flow'
    for path, fn in prog.fns.items():
        if not in_scope(path):
            continue
        chk.fn_seen(path)
        for b in fn['blocks']:
            t = b['term']
            if t['k'] != 'call' or b['cleanup']:
                continue
            callee = t.get('resolved') or t['callee']
            ty = t['func'].get('ty', '')
            m = re.search(r'\) -> (.*?) \{', ty)
            ret = m.group(1) if m else ''
            if callee.startswith('trippy_core::') and re.search(r'IpAddr|flows::Flow\b', ret):
                sites.append((path, callee, t))
            if any(FLOW == g or g.endswith('flows::FlowEntry') for g in t.get('gargs', ())) and 'fmt' in callee:
                chk.fail('R0', 'flow-format', loc(t['sp']), 'a Flow (a list of hop addresses) is formatted in the front end: %s' % short(path), key='R0|flow-format|%s' % short(path))

        def proj(pl, path=path, fn=fn):
            for e in pl['p']:
                if e['k'] == 'field' and e.get('of') in (FLOW, 'trippy_core::flows::FlowEntry'):
                    chk.fail('R0', 'flow-entries', fn_loc(fn), '%s reads the entries of a Flow (hop addresses) outside any privacy rule' % short(path), key='R0|flow-entries|%s' % short(path))
        walk_places(fn['blocks'], proj)
    n_src = 0
    for path, callee, t in sites:
        if callee in HOP_SOURCES or callee == SRC_ADDR:
            n_src += 1
            chk.ok('R0', 'source:%s@%s' % (short(callee), short(path)), 'classified reveal source')
        elif callee in CENSUS_OK:
            chk.ok('R0', 'benign:%s@%s' % (short(callee), short(path)), CENSUS_OK[callee], nontrivial=False)
        else:
            chk.fail('R0', 'unclassified:%s' % short(callee), loc(t['sp']), '%s obtains addresses through %s, which no privacy rule covers' % (short(path), short(callee)),
                     key='R0|unclassified|%s|%s' % (short(path), short(callee)))
    if n_src < 5:
        chk.fail('R0', 'count', '-', 'only %d reveal source sites found (7 confirmed by hand, floor 5): anchor lost' % n_src, key='R0|count')
    else:
        chk.ok('R0', 'flow-entries', 'Flow / FlowEntry never projected or formatted in the front end')

    # ---- R1 / R2: hop reveal sites -------------------------------------------------------------------------
    pbases = set()

    def analyse(path, targets, depth, chain):
        """targets: {callee path: arg index of the hop}. Every trace of `path` reaching a target call must decide its hop shown."""
        fn = prog.fns[path]
        outs = tr.of(path)
        carriers = {}      # hop term -> example
        n_sites = 0
        for o in outs:
            for e in o.st.events:
                if e[0] != 'call' or e[1] not in targets:
                    continue
                n_sites += 1
                x = vshow(e[7][targets[e[1]]])
                ok, bad, ps = shown_on(o, x)
                inst = '%s→%s(%s)' % (short(path), short(e[1]), x[:40])
                for b_ in bad:
                    chk.fail('R2', 'polarity:' + inst, fn_loc(fn), 'on the way to revealing %s in %s the privacy comparison is %s; hidden must be privacy_max_ttl >= Some(ttl) (equivalently shown iff Some(ttl) > privacy_max_ttl)' % (
                        x, short(path), b_), key='R2|polarity|%s|%s' % (short(path), short(e[1])))
                if ok:
                    chk.ok('R1', inst, 'decided shown on this trace' + (' (via %s)' % ' ← '.join(chain) if chain else ''))
                    for p_ in ps:
                        pbases.add((path, p_))
                elif bad:
                    pass
                else:
                    carriers.setdefault(x, e)
        for x, e in carriers.items():
            inst = '%s→%s(%s)' % (short(path), short(e[1]), x[:40])
            al = ALLOW.get(re.sub(r'\{closure#\d+\}', '{closure}', path))
            if al:
                if al[0] == 'count-only':
                    vals = {vshow(o.value) for o in outs if o.kind == 'return'}
                    if all(re.fullmatch(al[1], v) for v in vals) and vals:
                        chk.ok('R1', inst, 'allowed: only counts the addresses (%s)' % sorted(vals))
                    else:
                        chk.fail('R1', inst, fn_loc(fn), '%s was allowed because it only counted addresses; it now returns %s' % (short(path), sorted(vals)), key='R1|allow|%s' % short(path))
                else:
                    chk.ok('R1', inst, 'allowed collector: consumers are checked by R3')
                continue
            m = re.fullmatch(r'a(\d+)', x)
            mc = re.fullmatch(r'env\.(\d+)', x)
            if depth >= 5:
                chk.fail('R1', inst, fn_loc(fn), 'reveal of %s is not decided within 5 callers (%s)' % (x, ' ← '.join(chain + [short(path)])), key='R1|depth|%s' % short(path))
            elif m and fn['kind'] != 'Closure':
                callers = [c for c in cg.callers(path) if in_scope(c)]
                if not callers:
                    chk.ok('R1', inst, 'carrier without callers in the front end (dead)', nontrivial=False)
                for c in callers:
                    analyse(c, {path: int(m.group(1))}, depth + 1, chain + [short(path)])
            elif mc and fn['kind'] == 'Closure':
                parent = fn.get('parent')
                analyse_closure_site(parent, path, int(mc.group(1)), depth + 1, chain + [short(path)])
            else:
                chk.fail('R1', inst, loc(e[3][1]) if False else fn_loc(fn), '%s reveals the addresses of hop `%s` (%s) on a trace that never compares that hop\'s ttl with privacy_max_ttl' % (
                    short(path), x, short(e[1])), key='R1|unguarded|%s|%s' % (short(path), short(e[1])))
        return n_sites

    def analyse_closure_site(parent, cpath, cap, depth, chain):
        """the closure reveals its captured hop #cap: every trace of the parent on which the closure is handed to a call must decide that hop shown"""
        fn = prog.fns[parent]
        outs = tr.of(parent)
        seen = False
        for o in outs:
            for e in o.st.events:
                if e[0] != 'call' or not any(contains_closure(a, cpath) for a in e[7]):
                    continue
                cv = [find_closure(a, cpath) for a in e[7]]
                cv = [c for c in cv if c is not None][0]
                caps = cv[2]
                x = vshow(caps[cap]) if cap < len(caps) else '?'
                seen = True
                ok, bad, ps = shown_on(o, x)
                inst = '%s creates %s(%s)' % (short(parent), short(cpath), x[:40])
                for b_ in bad:
                    chk.fail('R2', 'polarity:' + inst, fn_loc(fn), 'on the way to revealing %s in %s the privacy comparison is %s' % (x, short(parent), b_), key='R2|polarity|%s|closure' % short(parent))
                if ok:
                    chk.ok('R1', inst, 'decided shown on this trace')
                    for p_ in ps:
                        pbases.add((parent, p_))
                elif not bad:
                    m = re.fullmatch(r'a(\d+)', x)
                    if m and fn['kind'] != 'Closure' and depth < 5:
                        for c in [c for c in cg.callers(parent) if in_scope(c)]:
                            analyse(c, {parent: int(m.group(1))}, depth + 1, chain + [short(parent)])
                    else:
                        chk.fail('R1', inst, fn_loc(fn), '%s hands a closure that reveals the addresses of hop `%s` to %s on a trace that never compares that hop\'s ttl with privacy_max_ttl' % (
                            short(parent), x, short(e[1])), key='R1|unguarded|%s|closure' % short(parent))
                break
        if not seen:
            chk.fail('R1', 'closure-site:%s' % short(cpath), fn_loc(fn), 'cannot find where %s is created in %s' % (short(cpath), short(parent)), key='R1|closure-site|%s' % short(cpath))

    direct = sorted({p for p, c, _ in sites if c in HOP_SOURCES})
    for p in direct:
        analyse(p, HOP_SOURCES, 0, [])

    # P must be the live configuration
    for (path, p_) in sorted(pbases):
        fn = prog.fns[path]
        inst = 'config:%s:%s' % (short(path), p_)
        if re.search(r'\.tui_config\.privacy_max_ttl$', p_):
            chk.ok('R2', inst, 'reads app.tui_config')
            continue
        m = re.fullmatch(r'a(\d+)\.privacy_max_ttl', p_)

        def cap_term(cpath, n):
            """the parent's term captured as upvar #n of closure cpath (None if it cannot be found or differs between traces)"""
            parent = prog.fns[cpath].get('parent')
            vals = set()
            for o in tr.of(parent):
                for e in o.st.events:
                    if e[0] == 'call':
                        for a in e[7]:
                            cv = find_closure(a, cpath)
                            if cv is not None and n < len(cv[2]):
                                vals.add(vshow(cv[2][n]))
            return (parent, vals.pop()) if len(vals) == 1 else (parent, None)

        def is_cfg(fpath, v, depth):
            if v is None or depth > 8:
                return False
            if re.search(r'\.tui_config$', v):
                return True
            mm = re.fullmatch(r'a(\d+)', v)
            if mm and prog.fns[fpath]['kind'] != 'Closure':
                return bound(fpath, int(mm.group(1)), depth + 1)
            mc = re.fullmatch(r'env\.(\d+)', v)
            if mc and prog.fns[fpath]['kind'] == 'Closure':
                parent, pv = cap_term(fpath, int(mc.group(1)))
                return is_cfg(parent, pv, depth + 1)
            return False

        def bound(fpath, k, depth):
            callers = [c for c in cg.callers(fpath) if in_scope(c)]
            if not callers:
                return False
            for c in callers:
                for o in tr.of(c):
                    for e in o.st.events:
                        if e[0] == 'call' and e[1] == fpath and not is_cfg(c, vshow(e[7][k]), depth):
                            return False
            return True
        good = bool(m) and bound(path, int(m.group(1)), 0)
        if good:
            chk.ok('R2', inst, 'parameter bound to app.tui_config by every caller')
        else:
            chk.fail('R2', inst, fn_loc(fn), '%s compares a hop with `%s`, which is not the live app.tui_config value' % (short(path), p_), key='R2|config|%s' % short(path))

    # ---- R3 MapEntry consumers ---------------------------------------------------------------------------
    readers = {}
    for path, fn in prog.fns.items():
        if not in_scope(path) or path == 'trippy_tui::frontend::render::world::build_map_entries' or path.startswith('trippy_tui::frontend::render::world::build_map_entries::'):
            continue
        if fn.get('derived'):
            continue
        flds = set()

        def proj(pl, flds=flds):
            for e in pl['p']:
                if e['k'] == 'field' and e.get('of') == MAPENTRY and e['n'] not in ENTRY_SAFE_FIELDS:
                    flds.add(e['n'])
        walk_places(fn['blocks'], proj)
        if flds:
            readers[path] = flds
    if len(readers) < 4:
        chk.fail('R3', 'readers', '-', 'only %d MapEntry readers found (4 confirmed by hand): anchor lost' % len(readers), key='R3|readers')

    def any_guard_ok(o, ent, owner):
        """"some hop of the entry is shown" holds on the trace: any(iter(ent.hops), |h| Some(*h) > P) = 1, or, the same set of orderings,
        all(iter(ent.hops), |h| P >= Some(*h)) = 0"""
        PT = r'env\.\d+\.tui_config\.privacy_max_ttl'
        SHOWN = r'Gt\(Option::Some\(p1\), %s\)|Lt\(%s, Option::Some\(p1\)\)' % (PT, PT)
        HIDDEN = r'Ge\(%s, Option::Some\(p1\)\)|Le\(Option::Some\(p1\), %s\)' % (PT, PT)
        for a, v, _ in o.st.decisions:
            m_ = isinstance(a, tuple) and a[0] == 'term' and len(a[2]) == 2 and re.search(r'(?:::|^call:\w+::)(any|all)$', a[1])
            if not m_:
                continue
            if vshow(a[2][0]) not in ('call:slice::iter(field:hops(%s))' % ent, 'call:slice::iter(%s.hops)' % ent):
                continue
            k = a[2][1]
            if not (isinstance(k, tuple) and k[0] == 'closure'):
                continue
            kouts = tr.of(k[1])
            vals = {vshow(x.value) for x in kouts if x.kind == 'return'}
            want, holds = (SHOWN, 1) if m_.group(1) == 'any' else (HIDDEN, 0)
            good = vals and all(re.fullmatch(want, x) for x in vals)
            if not good:
                return 'bad:%s %s' % (m_.group(1), sorted(vals))
            if v == holds:
                return 'ok'
        return None

    for path, flds in sorted(readers.items()):
        fn = prog.fns[path]
        ei = [i - 1 for i in range(1, fn['argc'] + 1) if MAPENTRY in fn['locals'][i]['ty']]
        if fn['kind'] != 'Closure':
            if len(ei) != 1:
                chk.fail('R3', 'reader:%s' % short(path), fn_loc(fn), '%s reads MapEntry fields %s but does not take one entry as a parameter' % (short(path), sorted(flds)), key='R3|shape|%s' % short(path))
                continue
            callers = [c for c in cg.callers(path) if in_scope(c)]
            n = 0
            for c in callers:
                for o in tr.of(c):
                    for e in o.st.events:
                        if e[0] != 'call' or e[1] != path:
                            continue
                        n += 1
                        ent = vshow(e[7][ei[0]])
                        g = any_guard_ok(o, ent, c)
                        inst = '%s→%s' % (short(c), short(path))
                        if g == 'ok':
                            chk.ok('R3', inst, 'under any(|h| Some(*h) > privacy_max_ttl) over the same entry\'s hops')
                        else:
                            chk.fail('R3', inst, fn_loc(prog.fns[c]), '%s draws a map entry (fields %s) on a trace without `entry.hops.iter().any(|h| Some(*h) > privacy_max_ttl)` being true for that entry%s' % (
                                short(c), sorted(flds), '' if g is None else ' (the predicate is %s)' % g[4:]), key='R3|unguarded|%s|%s' % (short(c), short(path)))
            if not n:
                chk.ok('R3', 'reader:%s' % short(path), 'no caller in the front end', nontrivial=False)
        else:
            # closure reading an entry it is applied to: contains(entry.hops, ttl(captured hop)) on every reading trace, consumers guarded in the parent
            outs = tr.of(path)
            cap = None
            good = True
            for o in outs:
                reads = any(re.search(r'\bp1\.(%s)\b' % '|'.join(sorted(flds)), vshow(x)) for e in o.st.events if e[0] == 'call' for x in e[7]) or \
                    re.search(r'\bp1\.(%s)\b' % '|'.join(sorted(flds)), vshow(o.value) if o.kind == 'return' else '')
                if not reads:
                    continue
                d = [(vshow(a), v) for a, v, _ in o.st.decisions]
                mm = [re.fullmatch(r'call:slice::contains\(p1\.hops, call:Hop::ttl\(env\.(\d+)\)\)', a) for a, v in d if v == 1]
                mm = [m for m in mm if m]
                if not mm:
                    good = False
                else:
                    cap = int(mm[0].group(1))
            inst = 'closure:%s' % short(path)
            rpath = path         # the closure whose captured hop restricts the entries
            if (not good or cap is None) and fn.get('parent'):
                # the restriction may sit in a separate `.filter(|entry| entry.hops.contains(&hop.ttl()))` in front of the `.map(..)` that reads the fields:
                # every trace of the parent that applies this closure applies it to `Iterator::filter(_, P)` and P returns exactly that containment
                preds = set()
                applied = 0
                for o in tr.of(fn['parent']):
                    for e in o.st.events:
                        if e[0] != 'call' or not any(isinstance(a, tuple) and a[0] == 'closure' and a[1] == path for a in e[7]):
                            continue
                        applied += 1
                        rcv = e[7][0]
                        if re.search(r'Iterator::map$', e[1]) and isinstance(rcv, tuple) and rcv[0] == 'term' and re.search(r'Iterator::filter$', rcv[1]) and \
                                len(rcv[2]) == 2 and isinstance(rcv[2][1], tuple) and rcv[2][1][0] == 'closure':
                            preds.add(rcv[2][1][1])
                        else:
                            preds.add(None)
                if applied and len(preds) == 1 and None not in preds:
                    pp = next(iter(preds))
                    pv = {vshow(o.value) for o in tr.of(pp) if o.kind == 'return'}
                    pm = [re.fullmatch(r'call:slice::contains\(p1\.hops, call:Hop::ttl\(env\.(\d+)\)\)', v_) for v_ in pv]
                    if pv and all(pm) and len({m.group(1) for m in pm}) == 1 and all(o.kind == 'return' for o in tr.of(pp)):
                        good, cap, rpath = True, int(pm[0].group(1)), pp
            if not good or cap is None:
                chk.fail('R3', inst, fn_loc(fn), '%s reads MapEntry fields %s of entries that are not restricted to those containing the captured hop\'s ttl' % (short(path), sorted(flds)), key='R3|closure|%s' % short(path))
                continue
            chk.ok('R3', inst, 'reads %s only under entry.hops.contains(ttl(captured hop #%d))' % (sorted(flds), cap))
            parent = fn['parent']
            pouts = tr.of(parent)
            okp = True
            why = ''
            n_cons = 0
            ADAPT = re.compile(r'::(filter_map|map|filter|collect|iter|into_iter|collect_vec)$')
            for o in pouts:
                x = None
                consumed = False
                for e in o.st.events:
                    if e[0] != 'call':
                        continue
                    if any(contains_closure(a, path) for a in e[7]):
                        cv = [find_closure(a, rpath) for a in e[7]]
                        cv = [c_ for c_ in cv if c_ is not None]
                        if cv:
                            x = vshow(cv[0][2][cap])
                        if not ADAPT.search(e[1]):
                            consumed = True
                for a, v, _ in o.st.decisions:
                    if contains_closure(a, path):
                        consumed = True
                if o.kind == 'return' and contains_closure(o.value, path):
                    consumed = True
                if consumed:
                    n_cons += 1
                    ok, bad, ps = shown_on(o, x)
                    if bad:
                        okp, why = False, 'privacy comparison %s' % bad[0]
                    elif not ok:
                        okp, why = False, 'the collected location text is used on a trace that never decides hop `%s` shown' % x
            if okp and n_cons:
                chk.ok('R3', 'consumers:%s' % short(parent), '%d consuming traces, all decide the selected hop shown' % n_cons)
            else:
                chk.fail('R3', 'consumers:%s' % short(parent), fn_loc(prog.fns[parent]), '%s: %s' % (short(parent), why or 'no consuming trace found'), key='R3|consumers|%s' % short(parent))

    # ---- R4 source address ----------------------------------------------------------------------------------
    n4 = 0
    for path in sorted({p for p, c, _ in sites if c == SRC_ADDR}):
        fn = prog.fns[path]
        for o in tr.of(path):
            if not any(e[0] == 'call' and e[1] == SRC_ADDR for e in o.st.events):
                continue
            d = [(vshow(a), v) for a, v, _ in o.st.decisions]
            off = any((re.fullmatch(r'is_some\(.*\.tui_config\.privacy_max_ttl\)', a) and v == 0) or (re.fullmatch(r'is_none\(.*\.tui_config\.privacy_max_ttl\)', a) and v == 1) or
                      (re.fullmatch(r'discr\(.*\.tui_config\.privacy_max_ttl\)', a) and v == 0) for a, v in d)
            n4 += 1
            if off:
                chk.ok('R4', '%s#%d' % (short(path), n4), 'source address read only with privacy off')
            else:
                chk.fail('R4', short(path), fn_loc(fn), '%s looks up the source address on a trace where privacy_max_ttl may be set' % short(path), key='R4|%s' % short(path))

    # ---- R5 transitions ---------------------------------------------------------------------------------------
    TC = 'trippy_tui::frontend::config::TuiConfig'
    w = field_writers(prog, TC).get('privacy_max_ttl', [])
    wf = sorted({short(p) for p, _, k in w})
    if set(wf) <= {'TuiApp::expand_privacy', 'TuiApp::contract_privacy', 'TuiConfig::new'} and len(wf) >= 3:
        chk.ok('R5', 'writers', wf)
    else:
        chk.fail('R5', 'writers', '-', 'privacy_max_ttl is written by %s (expected expand_privacy, contract_privacy and the constructor only)' % wf, key='R5|writers')

    PV = 'a0.tui_config.privacy_max_ttl'
    HOPS = 'len(call:State::hops_for_flow(call:TuiApp::tracer_data(a0), a0.selected_flow))'

    def table(rx, classify, want):
        """every trace falls into one class of the specified transition (whatever spelling decides it) and writes exactly that class's value"""
        f = prog.find(rx)
        chk.fn_seen(f['path'])
        inst = short(f['path'])
        seen = {}
        ok, why = True, ''
        rows = []
        for o in tr.of(f['path']):
            dec = [(vshow(a_), v_) for a_, v_, _ in o.st.decisions]
            ws = [vshow(e[3]) for e in o.st.events if e[0] == 'write' and e[2] == 'privacy_max_ttl']
            rows.append('%s → %s' % (dec, ws or 'unchanged'))
            if o.kind != 'return':
                ok, why = False, 'a trace ends in %s' % o.kind
                continue
            some = None
            for a_, v_ in dec:
                if a_ == 'discr(%s)' % PV:
                    some = 1 if v_ == 1 else 0 if (v_ == 0 or (isinstance(v_, tuple) and v_[0] == 'ne' and set(v_[1]) == {1})) else None
            cls = classify(some, o.st.decisions, dec)
            known = {'discr(%s)' % PV}
            if cls is None:
                ok, why = False, 'a trace decides on conditions outside the specified transition: %s' % dec
                continue
            rx_, unchanged_ok = want[cls]
            good = (len(ws) == 1 and re.fullmatch(rx_, ws[0])) if rx_ else (not ws or (unchanged_ok and len(ws) == 1 and re.fullmatch(unchanged_ok, ws[0])))
            if not good:
                ok, why = False, 'in case "%s" privacy_max_ttl becomes %s' % (cls, ws or 'unchanged')
            seen[cls] = seen.get(cls, 0) + 1
        if ok and set(seen) != set(want):
            ok, why = False, 'cases %s are never distinguished' % sorted(set(want) - set(seen))
        if ok:
            chk.ok('R5', inst, '; '.join('%s: %d trace(s)' % kv for kv in sorted(seen.items())))
        else:
            chk.fail('R5', inst, fn_loc(f), '%s must move privacy by exactly one step: %s; found %s' % (inst, why, rows), key='R5|%s' % inst)

    def cls_expand(some, decisions, dec):
        if some == 0:
            return 'off'
        if some != 1:
            return None
        lt = decided(decisions, 'Lt(field:0(%s), %s)' % (PV, HOPS))
        return None if lt is None else ('below' if lt else 'at-end')

    def cls_contract(some, decisions, dec):
        if some == 0:
            return 'off'
        if some != 1:
            return None
        x = 'field:0(%s)' % PV
        # unsigned: x > 0, x >= 1, x != 0, 0 < x … are one decision (canonical form)
        pos = holds(decisions, 'Gt(%s, 0)' % x)
        if pos is None:
            for a_, v_ in dec:
                if a_ == x:                                   # an integer match on the value itself
                    pos = 0 if v_ == 0 else 1 if (isinstance(v_, tuple) and v_[0] == 'ne' and 0 in set(v_[1])) else None
        return None if pos is None else ('positive' if pos else 'zero')
    FV = r'field:0\(a0\.tui_config\.privacy_max_ttl\)'
    table(r'tui_app::TuiApp::expand_privacy$', cls_expand, {
        'off': (r'Option::Some\(0\)', None),
        'below': (r'Option::Some\(Add\(%s, 1\)\)|Option::Some\(Add\(1, %s\)\)' % (FV, FV), None),
        'at-end': (None, r'Option::Some\(%s\)|a0\.tui_config\.privacy_max_ttl' % FV)})
    table(r'tui_app::TuiApp::contract_privacy$', cls_contract, {
        'off': (None, r'Option::None|a0\.tui_config\.privacy_max_ttl'),
        'positive': (r'Option::Some\(Sub\(%s, 1\)\)' % FV, None),
        'zero': (r'Option::None', None)})
    # key bindings: the call sites of expand_privacy / contract_privacy sit on the true edge of their own binding's check
    from ..cfg import CFG
    for name in ('expand_privacy', 'contract_privacy'):
        target = prog.find(r'tui_app::TuiApp::%s$' % name)['path']
        callers = [c for c in cg.callers(target) if in_scope(c)]
        if not callers:
            chk.fail('R5', 'binding:' + name, '-', 'TuiApp::%s is never called' % name, key='R5|binding|%s' % name)
        for c in callers:
            fn = prog.fns[c]
            g = CFG(fn)
            dom = g.dom()
            for bi, b in enumerate(fn['blocks']):
                t = b['term']
                if t['k'] != 'call' or (t.get('resolved') or t['callee']) != target or bi not in g.reach:
                    continue
                flds = set()
                for si in dom[bi]:
                    ts = fn['blocks'][si]['term']
                    if ts['k'] != 'switch':
                        continue
                    d = ts['d'].get('copy') or ts['d'].get('move')
                    if d is None or d['p']:
                        continue
                    src = [x for x in dom[si] if fn['blocks'][x]['term']['k'] == 'call' and fn['blocks'][x]['term'].get('dest', {}).get('l') == d['l'] and
                           (fn['blocks'][x]['term'].get('resolved') or fn['blocks'][x]['term']['callee']).endswith('KeyBinding::check')]
                    if not src:
                        continue
                    true_t = [tg for (v, tg) in ts['arms'] if int(v) != 0] + ([ts['otherwise']] if all(int(v) == 0 for v, _ in ts['arms']) else [])
                    if not any(tt in dom[bi] or tt == bi for tt in true_t):
                        continue
                    a0 = fn['blocks'][src[0]]['term']['args'][0]
                    pl = a0.get('move') or a0.get('copy') or {}
                    flds.add(binding_field(fn, pl.get('l')))
                inst = 'binding:%s@%s' % (name, short(c))
                if flds == {name}:
                    chk.ok('R5', inst, 'called on the true edge of bindings.%s.check(key) only' % name)
                else:
                    chk.fail('R5', inst, loc(t['sp']), 'TuiApp::%s is invoked under the key binding(s) %s in %s' % (name, sorted(str(x) for x in flds), short(c)), key='R5|binding|%s' % name)


def binding_field(fn, local):
    """the Bindings field a reference local was borrowed from (searching assignments to that local)"""
    if local is None:
        return None
    for b in fn['blocks']:
        for st_ in b['stmts']:
            lhs = st_.get('lhs')
            if lhs and lhs['l'] == local and not lhs['p']:
                rv = st_['rv']
                pl = rv.get('p') if rv['k'] == 'ref' else None
                if pl:
                    for e in reversed(pl['p']):
                        if e['k'] == 'field' and e.get('of', '').endswith('binding::Bindings'):
                            return e['n']
    return None
