"""C01 — every reported probe outcome matches what the network actually did (partial: hand-off integrity between the layers).

The end-to-end statement (ground truth of an arbitrary simulated network under all schedules) is not decided. Decided is the hand-off between the
strategy, the channel and the aggregator, which is where the property's rationale places the risk:
 R1 slot agreement — insertion (next_probe / reissue_probe), lookup (probe_at), completion and the published slice all index the round buffer by
    sequence − round_sequence (= C07.R3, imported).
 R2 response → StrategyResponse table over the five Response kinds: received ← data.recv, addr ← data.addr, packet type per kind
    (TimeExceeded→TimeExceeded(code), DestinationUnreachable→Unreachable(code), EchoReply→EchoReply(code), TcpReply/TcpRefused→NotApplicable),
    is_target = (addr == target) for the two ICMP error kinds and true for the other three, extensions passed through.
 R3 name-preserving copies: StrategyResponse::from, complete_probe → Probe::complete, Probe::failed copy each field to the field of the same role
    (= C19.R1 hand-off, imported, plus Probe::failed).
 R4 RTT provenance: the sample recorded by the aggregator is received.duration_since(sent) (C05.R3); `received` is the SystemTime::now() taken in
    extract_probe_resp before parsing, `sent` a SystemTime::now() of its own taken in send_request for every probe issued or re-issued (never shared between two attempts) and handed to next_probe / reissue_probe.
 R5 per-status counter effect table of the aggregator (= C05.R1/R2, imported): none invented, dropped or counted twice.
 R6 publish-once pairing (= C08.R3, C20.O4 imported): one publication and one advance per round, one handler call per publication; only
    complete_probe turns Awaited into Complete and only for the first genuine response (= C03.R2/R4, imported); what counts as genuine is
    Strategy::validate's 72-cell truth table (= C03.R5 / R5v, imported); every probe of every published round reaches the counters (= C05.R8, imported).
 R8 TCP answers that do not come through ICMP (recv_tcp_socket, both families): a completed handshake is reported from the socket's peer address, a refused one from
    the target, a socket error from the address its error queue names; received = the clock reading of the call, quoted destination = target, ports = the probe's.
 R7 configuration plumbing of the channel: ChannelConfig takes every field from the tracer field of the same name and Channel from the ChannelConfig
    field of the same name, unchanged (a TCP handshake is awaited for tcp_connect_timeout, not for the read timeout).
"""
import re

from .common import *
from ..report import run_sub

LEVEL = 'other'


def run(chk, tier):
    prog = program(crates=('core',))
    chk.explanation = __doc__
    run_sub(chk, 'c07', 'C07.', {'R3'})
    run_sub(chk, 'c19', 'C19.', {'R1'})
    run_sub(chk, 'c05', 'C05.', {'R1', 'R2', 'R3', 'R8'})
    run_sub(chk, 'c08', 'C08.', {'R3'})
    run_sub(chk, 'c03', 'C03.', {'R2', 'R4', 'R5v', 'R5'})
    run_sub(chk, 'c09', 'C09.', {'R4'})
    run_sub(chk, 'c20', 'C20.', {'O4'})

    # ---- R7: configuration plumbing of the channel (timeouts, protocol, sizes reach the consumer unchanged) ----------
    chk.rule('R7', 'ChannelConfig and Channel are name-preserving copies of the configuration', floor=2)
    from .plumbing import check_copy
    check_copy(chk, 'R7', prog, r'tracer::inner::TracerInner::make_channel_config$', 'trippy_core::config::ChannelConfig', 'self', exceptions={'source_addr': r'source_addr'})
    check_copy(chk, 'R7', prog, r'net::channel::Channel::connect$', 'trippy_core::net::channel::Channel', 'config')

    # ---- R8: who answered a TCP probe (responses that do not come through ICMP) ----------------------------------------
    # a completed handshake is answered by the peer of the socket, a refused one by the target, an ICMP error by the address the socket's error queue
    # names; the quoted destination of all three is the target and the ports are the probe's own (C02.R5); received = the clock reading of this call
    chk.rule('R8', 'responder address of TCP replies / refusals / errors', floor=6)
    for fam, V in (('ipv4::Ipv4', 'V4'), ('ipv6::Ipv6', 'V6')):
        f8 = prog.find(r'net::%s::recv_tcp_socket$' % fam)
        chk.fn_seen(f8['path'])
        e8 = Engine(prog, inline_depth=0)
        st8 = St()
        vals8 = {vshow(o.value) for o in e8.run(f8, [e8.sym_ref(st8, 'self'), e8.sym_ref(st8, 'tcp_socket'), ('sym', 'src_port'), ('sym', 'dest_port')], st8) if o.kind == 'return'}
        PR = r'ProtocolResponse::Tcp\(call:TcpProtocolResponse::new\(IpAddr::%s\(self\.dest_addr\), src_port\.0, dest_port\.0, Option::None\)\)' % V
        want8 = {'TcpReply': r'call:SocketAddr::ip\(field:0\(field:0\(call:Socket::peer_addr\(.*\)\)\)\)', 'TcpRefused': r'IpAddr::%s\(self\.dest_addr\)' % V,
                 'TimeExceeded': r'field:0\(call:Socket::icmp_error_info\(.*\)\)'}
        for kind, addr in want8.items():
            got = [v for v in vals8 if ('Response::%s(' % kind) in v]
            rx = r'Result::Ok\(Option::Some\(Response::%s\(call:ResponseData::new\(now, %s, %s\).*\)\)\)' % (kind, addr, PR)
            if got and all(re.fullmatch(rx, v) for v in got):
                chk.ok('R8', '%s:%s' % (fam, kind), 'received = now, responder = %s, quoted destination = target, ports = the probe\'s' % {'TcpReply': 'peer of the socket', 'TcpRefused': 'target', 'TimeExceeded': 'address from the error queue'}[kind])
            else:
                chk.fail('R8', '%s:%s' % (fam, kind), fn_loc(f8), '%s::recv_tcp_socket reports %s as %s' % (fam, kind, [v[:200] for v in got][:1] or 'nothing'), key='R8|%s|%s' % (fam, kind))

    # ---- R2 ---------------------------------------------------------------------------------------------
    chk.rule('R2', 'Response → StrategyResponse table (5 kinds)', floor=5)
    f2 = prog.find(r'<trippy_core::strategy::StrategyResponse as core::convert::From<\(trippy_core::probe::Response, &trippy_core::config::StrategyConfig\)>>::from$')
    chk.fn_seen(f2['path'])
    e1 = Engine(prog, inline_depth=1, opaque=[r'ProtocolStrategyResponse as'])
    rn = [x['name'] for x in prog.adt('trippy_core::strategy::StrategyResponse')['variants'][0]['fields']]
    spec = {
        'TimeExceeded': ('IcmpPacketType::TimeExceeded(f1)', 'eq', 'f2'),
        'DestinationUnreachable': ('IcmpPacketType::Unreachable(f1)', 'eq', 'f2'),
        'EchoReply': ('IcmpPacketType::EchoReply(f1)', 'true', 'Option::None'),
        'TcpReply': ('IcmpPacketType::NotApplicable', 'true', 'Option::None'),
        'TcpRefused': ('IcmpPacketType::NotApplicable', 'true', 'Option::None'),
    }
    for vn in prog.variant_names('trippy_core::probe::Response'):
        if vn not in spec:
            chk.fail('R2', vn, fn_loc(f2), 'Response kind %s has no specified mapping' % vn, key='R2|unknown-kind|' + vn)
            continue
        st = St()
        nf = len([v for v in prog.adt('trippy_core::probe::Response')['variants'] if v['name'] == vn][0]['fields'])
        arg = ('tuple', [e1.adt_val('trippy_core::probe::Response', vn, [('sym', 'f%d' % i) for i in range(nf)]), e1.sym_ref(st, 'cfg')])
        outs = e1.run(f2, [arg], st)
        ty, tgt, ex = spec[vn]
        good = bool(outs)
        got = {}
        for o in outs:
            v = o.value
            if o.kind != 'return' or not (isinstance(v, tuple) and v[0] == 'adt'):
                good = False
                continue
            g = {n: vshow(v[4][rn.index(n)]) for n in ('icmp_packet_type', 'received', 'addr', 'is_target', 'exts', 'trace_id', 'sequence', 'tos')}
            got = g
            PR = r'call:ProtocolStrategyResponse::from\(\(f0\.proto_resp, cfg\)\)'
            if g['icmp_packet_type'] != ty or g['received'] != 'f0.recv' or g['addr'] != 'f0.addr' or g['exts'] != ex:
                good = False
            if tgt == 'eq' and not re.fullmatch(r'Eq\(f0\.addr, cfg\.target_addr\)|Eq\(cfg\.target_addr, f0\.addr\)', g['is_target']):
                good = False
            if tgt == 'true' and g['is_target'] != '1':
                good = False
            for fld in ('trace_id', 'sequence', 'tos'):
                if not re.fullmatch(r'field:%s\(%s\)' % (fld, PR), g[fld]):
                    good = False
        if good:
            chk.ok('R2', vn, got)
        else:
            chk.fail('R2', vn, fn_loc(f2), 'StrategyResponse::from(%s) yields %s; specified: type %s, received = data.recv, addr = data.addr, is_target %s, extensions %s' % (
                vn, got, ty, 'addr == target' if tgt == 'eq' else 'true', ex), key='R2|' + vn)

    # ---- R3: Probe::failed ----------------------------------------------------------------------------------
    chk.rule('R3', 'Probe::failed copies every field from the probe', floor=1)
    ff = prog.find(r'probe::Probe::failed$')
    st = St()
    outs = Engine(prog, inline_depth=0).run(ff, [('sym', 'self')], st)
    fnm = [x['name'] for x in prog.adt('trippy_core::probe::ProbeFailed')['variants'][0]['fields']]
    good = bool(outs) and all(isinstance(o.value, tuple) and o.value[0] == 'adt' and all(vshow(o.value[4][i]) == 'self.' + n for i, n in enumerate(fnm)) for o in outs)
    if good:
        chk.ok('R3', 'Probe::failed', fnm)
    else:
        chk.fail('R3', 'Probe::failed', fn_loc(ff), 'Probe::failed does not copy each field from the field of the same name', key='R3|Probe::failed')

    # ---- R4: RTT provenance -----------------------------------------------------------------------------------
    chk.rule('R4', 'send and receive timestamps come from SystemTime::now() at the right places', floor=4)
    e0 = Engine(prog, inline_depth=0, loop_visits=2)
    fs = prog.find(r'Strategy::send_request$')
    for proto in ('Icmp', 'Udp', 'Tcp'):
        st = St()
        selfv = ('rec', 'self', {'config': ('rec', 'self.config', {'protocol': e0.adt_val('trippy_core::config::Protocol', proto)})})
        outs = e0.run(fs, [e0.obj_ref(st, selfv), e0.sym_ref(st, 'network'), e0.sym_ref(st, 'st')], st)
        bad = None
        n = 0
        for o in outs:
            stamps = []
            for c in user_calls(o, r'TracerState::(next_probe|reissue_probe)$'):
                n += 1
                if not re.fullmatch(r'now', vshow(c[7][1])):
                    bad = '%s is given %s as the send time' % (short(c[1]), vshow(c[7][1])[:50])
                # every probe put on the wire carries its own clock reading: a re-issued probe must not inherit the stamp of the refused attempt
                if key(c[7][1]) in stamps:
                    bad = '%s re-uses the clock reading of an earlier attempt as the send time of a new probe (the round-trip time of the re-issued probe would include the refused attempt)' % short(c[1])
                stamps.append(key(c[7][1]))
        if bad or not n:
            chk.fail('R4', 'sent[%s]' % proto, fn_loc(fs), 'send_request[%s]: %s' % (proto, bad or 'no probe issued'), key='R4|sent|' + proto)
        else:
            chk.ok('R4', 'sent[%s]' % proto, 'every issued probe is stamped with SystemTime::now()')
    for fam in ('ipv4::Ipv4', 'ipv6::Ipv6'):
        f = prog.find(r'net::%s::extract_probe_resp$' % fam)
        chk.fn_seen(f['path'])
        recvs = set()
        first_now = None
        for bi, b in enumerate(f['blocks']):
            t = b['term']
            if t['k'] == 'call' and not b['cleanup']:
                c = t['resolved'] or t['callee']
                if c == 'std::time::SystemTime::now' and first_now is None:
                    first_now = t['dest']['l']
        eR = Engine(prog, inline_depth=0)
        st = St()
        try:
            outs = eR.run(f, [eR.sym_ref(st, 'self'), eR.sym_ref(st, 'pkt')], st)
        except Exception:
            outs = []
        nn = 0
        bad = None
        for o in outs:
            for c in user_calls(o, r'ResponseData::new$'):
                nn += 1
                if vshow(c[7][0]) != 'now':
                    bad = 'ResponseData::new is given %s as the receive time' % vshow(c[7][0])[:50]
            nows = [c for c in user_calls(o, r'SystemTime::now$')]
            if len(nows) > 1:
                bad = 'more than one clock reading on the receive path'
        if bad or not nn:
            chk.fail('R4', 'received[%s]' % fam, fn_loc(f), '%s::extract_probe_resp: %s' % (fam, bad or 'no ResponseData built'), key='R4|received|' + fam)
        else:
            chk.ok('R4', 'received[%s]' % fam, 'ResponseData.recv = the SystemTime::now() taken at the top of extract_probe_resp (%d sites)' % nn)
