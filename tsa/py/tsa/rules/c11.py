"""C11 — every probe put on the wire is well-formed and as configured.

With the wire model (tsa/wire.py: packet views as field records, justified by C12) the dispatch code is evaluated for every configuration cell
Builder::build accepts; on every successful trace the datagram handed to the socket must satisfy:
 R1 header fields: each header setter is applied exactly once and its argument has the prescribed provenance — IPv4: version 4, IHL 5,
    ttl ← probe.ttl, tos ← configured tos, flags ← don't-fragment, source/destination ← configured addresses, identification ← probe.identifier
    (UDP) / 0 (ICMP), protocol ← the dispatch's protocol; UDP: ports ← probe ports; ICMP: type echo-request, code 0, identifier ← probe.identifier
    (= the trace id), sequence ← probe.sequence.
 R2 length consistency (linear term equality): udp.length = 8 + |payload| = the view's buffer length; ipv4.total_length = 20 + |inner|; for ICMP and
    classic / Dublin-IPv4 UDP the total equals the configured packet size and the payload is the configured pattern.
 R3 ordering: the checksum is the last write to a transport buffer and is computed over that packet's bytes with this tracer's addresses —
    except the Paris pair, which must store the sequence in the checksum field and the previous checksum in the (2-byte) payload.
 R4 size guards: nothing is built unless MIN..=MAX_PACKET_SIZE contains the packet size (otherwise Err(InvalidPacketSize)); Channel::connect
    rejects sizes above MAX_PACKET_SIZE; buffer constants are consistent with the header sizes and with the command line's limits.
 R5 socket discipline (must-precede): IPv6 raw: set_unicast_hops_v6(probe.ttl) before send_to; datagram UDP IPv4: bind(probe.src_port), set_ttl(probe.ttl),
    set_tos(tos) before send_to(pattern, (target, probe.dest_port)); TCP: bind, ttl/tos (IPv4) or hop limit (IPv6) before connect(target, probe.dest_port).
 R6 where the sequence travels: per cell the field the strategy prescribes carries the probe's sequence (ICMP sequence; UDP port; UDP checksum for
    Paris; IP identification or payload length for Dublin) — the encode half of C02.R1.
C13.R1–R4 (imported): the checksum functions those setters call compute the RFC 1071 checksum (skipped word, accumulator, word loop, fold).
Not decided: the kernel's handling of IP_HDRINCL; the numerical Paris compensation.
"""
import re

from .common import *
from ..tables import canon
from .wire_cells import *

LEVEL = 'other'


def run(chk, tier):
    prog = program(crates=('packet', 'core'))
    chk.explanation = __doc__
    chk.assumptions += ['packet views behave as field records (C12)', 'Ipv4ByteOrder::adjust_length is the identity on this platform (Linux); evaluated from the compiled cfg']
    for r, d, fl in (('R1', 'header fields: once each, prescribed provenance', 40), ('R2', 'length consistency and packet size', 40), ('R3', 'checksum last (Paris pair excepted)', 30),
                     ('R4', 'size guards and buffer constants', 8), ('R5', 'socket call discipline', 20), ('R6', 'the sequence travels in the prescribed field', 40)):
        chk.rule(r, d, floor=fl)
    # the value stored by the checksum setters is the RFC 1071 checksum: the four source-decided facts of C13
    from ..report import run_sub
    run_sub(chk, 'c13', 'C13.', {'R1', 'R2', 'R3', 'R4'})
    N = Norm(prog)
    PS = 'net.packet_size'       # symbolic configured packet size (usize::from(self.packet_size.0))
    for k in all_cells():
        if not builder_accepts(*k):
            continue
        c = Cell(prog, *k)
        name = c.name()
        if c.issue_probe() is None or [o for o in c.probe_panics if o.site and re.search(r'probe_(udp|tcp|icmp)_data$', o.site[0])]:
            continue      # reported by C02 / C16
        oks = c.dispatch()
        f = c.dispatch_fn
        where = fn_loc(f)
        if not oks:
            chk.fail('R1', 'cell%s:dispatch' % name, where, 'no successful dispatch trace in cell %s' % name, key='R1|%s|dispatch' % name)
            continue
        v6 = c.fam == 'V6'
        hdr_ip = 40 if v6 else 20
        problems = {r: [] for r in ('R1', 'R2', 'R3', 'R5', 'R6')}
        for o in oks:
            s = o.st
            eng = c.eng
            calls = c.socket_calls(o)
            names = [n for n, _ in calls]
            w = c.wire_datagram(o)
            if w is None:
                problems['R1'].append('datagram not derivable')
                continue
            ip, tp, s, how = w
            N.with_state(eng, s)
            ipst = eng.pkt_state(s, ip)
            raw_ip = ipst[6] == 'built'
            # ---------------- R1: IP header
            if raw_ip and not v6:
                want = {'version': '4', 'header_length': '5', 'ttl': 'ttl', 'tos': 'net.tos.0', 'source': 'net.src_addr', 'destination': 'target',
                        'protocol': 'IpProtocol::%s' % c.proto, 'flags_and_fragment_offset': '16384',
                        'identification': ('seq' if (c.proto == 'Udp' and c.strat == 'Dublin') else '0')}
                log = [(n, vshow(N.simp(v))) for n, v, _ in eng.pkt_log(s, ip)]
                for fld, val in want.items():
                    got = [v for n, v in log if n == fld]
                    if got != [val]:
                        problems['R1'].append('ipv4.%s set to %s (expected exactly once: %s)' % (fld, got, val))
                extra = [n for n, _ in log if n not in want and n not in ('total_length', 'payload')]
                if extra:
                    problems['R1'].append('unexpected IPv4 header writes %s' % extra)
                # R2 total length
                inner = eng.bytes_pkt(ipst[4], s)
                tl = [v for n, v, _ in eng.pkt_log(s, ip) if n == 'total_length']
                if len(tl) != 1 or inner is None or not N.equal(tl[0], ('term', 'Add', [C(20), ('term', 'len', [eng.pkt_state(s, inner)[5]])])):
                    problems['R2'].append('ipv4.total_length is %s, not 20 + the inner packet\'s length' % [vshow(N.simp(x))[:80] for x in tl])
            # ---------------- transport
            if tp is not None:
                tst = eng.pkt_state(s, tp)
                tlog = [(n, v) for n, v, _ in eng.pkt_log(s, tp)]
                built = tst[6] == 'built'
                tty = tst[1]
                if built and tty == 'udp::UdpPacket':
                    sp, dp = vshow(N.simp(eng.pkt_get(s, tp, 'source'))), vshow(N.simp(eng.pkt_get(s, tp, 'destination')))
                    pr_s, pr_d = vshow(N.simp(c.probe[4][2])), vshow(N.simp(c.probe[4][3]))
                    if (sp, dp) != (pr_s, pr_d) or [n for n, _ in tlog].count('source') != 1 or [n for n, _ in tlog].count('destination') != 1:
                        problems['R1'].append('udp ports (%s, %s) are not the probe\'s (%s, %s), each set once' % (sp, dp, pr_s, pr_d))
                    ln = [v for n, v in tlog if n == 'length']
                    pays = [v for n, v in tlog if n == 'payload']
                    if len(ln) != 1 or not pays or not N.equal(ln[0], ('term', 'Add', [C(8), ('term', 'len', [pays[0]])])) or \
                            not N.equal(ln[0], ('term', 'len', [tst[5]])):
                        problems['R2'].append('udp.length %s ≠ 8 + |payload| = buffer length' % [vshow(N.simp(x))[:60] for x in ln])
                    # payload content / size
                    if c.strat == 'Paris':
                        if vshow(pays[0]) != '[byte(seq, 0), byte(seq, 1)]':
                            problems['R6'].append('Paris: the initial payload is %s, not the big-endian sequence' % vshow(pays[0])[:60])
                    elif c.strat == 'Dublin' and v6:
                        want_len = ('term', 'Add', [('term', 'Sub', [('sym', 'seq'), ('sym', 'cfg.initial_sequence')]), C(6)])
                        pf = eng.prefix_of(pays[0], s)
                        if not N.equal(('term', 'len', [pays[0]]), want_len) or pf is None or vshow(pf[0]) != '[116, 114, 105, 112, 112, 121]':
                            problems['R6'].append('Dublin/IPv6: payload must be "trippy" + (sequence − initial_sequence) pattern octets; found length %s' % vshow(N.simp(('term', 'len', [pays[0]])))[:80])
                    else:
                        want_len = ('term', 'Sub', [('term', 'Sub', [('sym', PS), C(8)]), C(hdr_ip)])
                        if not _len_equal(N, pays[0], hdr_ip + 8) or 'net.payload_pattern.0' not in vshow(pays[0]):
                            problems['R2'].append('UDP payload is %s: expected the configured pattern, packet_size − %d octets' % (vshow(N.simp(pays[0]))[:90], hdr_ip + 8))
                    # R3 checksum ordering
                    order = [n for n, _ in tlog]
                    cks = [v for n, v in tlog if n == 'checksum']
                    ck_fn = 'udp_ipv6_checksum' if v6 else 'udp_ipv4_checksum'
                    first_ck = vshow(cks[0]) if cks else ''
                    if not re.fullmatch(r'call:%s\(bytes\(pkt#%d\), net\.src_addr, target\)' % (ck_fn, tp[1]), first_ck):
                        problems['R3'].append('udp checksum is %s, not %s(bytes of this packet, src, target)' % (first_ck[:80], ck_fn))
                    if c.strat == 'Paris':
                        tail = [(n, vshow(N.simp(v))) for n, v in tlog][order.index('checksum') + 1:] if 'checksum' in order else None
                        ckb = r'\[byte\(%s, 0\), byte\(%s, 1\)\]' % (re.escape(first_ck), re.escape(first_ck))
                        # the two writes touch different words and both values are read before either write: they may come in either order
                        if not (tail and len(tail) == 2 and sorted(n for n, _ in tail) == ['checksum', 'payload'] and dict(tail)['checksum'] == 'seq' and re.fullmatch(ckb, dict(tail)['payload'])):
                            problems['R3'].append('Paris swap must be set_checksum(sequence) and set_payload(previous checksum, big-endian), nothing else: %s' % [(n, v[:50]) for n, v in (tail or [])])
                        if vshow(N.simp(eng.pkt_get(s, tp, 'checksum'))) != 'seq':
                            problems['R6'].append('Paris: the UDP checksum field on the wire is %s, not the sequence' % vshow(eng.pkt_get(s, tp, 'checksum'))[:40])
                    elif order[-1:] != ['checksum'] or order.count('checksum') != 1:
                        problems['R3'].append('the checksum is not the last (single) write to the UDP buffer: %s' % order)
                if built and tty.startswith('icmp'):
                    want = {'icmp_type': 'IcmpType::EchoRequest', 'icmp_code': '0', 'identifier': 'cfg.trace_identifier', 'sequence': 'seq'}
                    slog = [(n, vshow(N.simp(v))) for n, v in tlog]
                    for fld, val in want.items():
                        got = [v for n, v in slog if n == fld]
                        if got != [val]:
                            problems['R1' if fld != 'sequence' else 'R6'].append('icmp.%s set to %s (expected exactly once: %s)' % (fld, got, val))
                    pays = [v for n, v in tlog if n == 'payload']
                    if len(pays) != 1 or not _len_equal(N, pays[0], hdr_ip + 8) or 'net.payload_pattern.0' not in vshow(pays[0]):
                        problems['R2'].append('ICMP payload is %s: expected the configured pattern, packet_size − %d octets' % ([vshow(N.simp(x))[:80] for x in pays], hdr_ip + 8))
                    if not N.equal(('term', 'len', [tst[5]]), ('term', 'Add', [C(8), ('term', 'len', [pays[0]])]) if pays else C(-1)):
                        problems['R2'].append('ICMP buffer length ≠ 8 + |payload|')
                    order = [n for n, _ in tlog]
                    ck_fn = 'icmp_ipv6_checksum' if v6 else 'icmp_ipv4_checksum'
                    ck = vshow(eng.pkt_get(s, tp, 'checksum'))
                    rx = r'call:%s\(bytes\(pkt#%d\)(, net\.src_addr, target)?\)' % (ck_fn, tp[1])
                    if order[-1:] != ['checksum'] or order.count('checksum') != 1 or not re.fullmatch(rx, ck):
                        problems['R3'].append('the ICMP checksum must be the last write and cover this packet: order %s, value %s' % (order, ck[:70]))
                # R6 (kernel-built headers and TCP): where the sequence sits
                if c.proto == 'Udp' and c.strat == 'Classic':
                    fld = 'destination' if c.dirn == 'FixedSrc' else 'source'
                    if vshow(N.simp(eng.pkt_get(s, tp, fld))) != 'seq':
                        problems['R6'].append('classic UDP: the %s port on the wire is %s, not the sequence' % (fld, vshow(eng.pkt_get(s, tp, fld))[:40]))
                if c.proto == 'Tcp':
                    fld = 'destination' if c.dirn == 'FixedSrc' else 'source'
                    if vshow(N.simp(eng.pkt_get(s, tp, fld))) != 'seq':
                        problems['R6'].append('TCP: the %s port on the wire is %s, not the sequence' % (fld, vshow(eng.pkt_get(s, tp, fld))[:40]))
                if c.proto == 'Udp' and c.strat == 'Dublin' and not v6 and raw_ip and vshow(N.simp(eng.pkt_get(s, ip, 'identification'))) != 'seq':
                    problems['R6'].append('Dublin/IPv4: IP identification is not the sequence')
            # ---------------- R5 socket discipline
            argsof = lambda nm: [[vshow(N.simp(x)) for x in cc[7][1:]] for n_, cc in calls if n_ == nm]
            if c.proto == 'Tcp':
                seqn = [n for n in names if n in ('bind', 'set_ttl', 'set_tos', 'set_unicast_hops_v6', 'connect')]
                want_seq = ['bind', 'set_unicast_hops_v6', 'connect'] if v6 else ['bind', 'set_ttl', 'set_tos', 'connect']
                if seqn != want_seq:
                    problems['R5'].append('TCP socket calls %s, expected %s' % (seqn, want_seq))
                else:
                    if v6 and argsof('set_unicast_hops_v6') != [['ttl']]:
                        problems['R5'].append('hop limit set to %s' % argsof('set_unicast_hops_v6'))
                    if not v6 and (argsof('set_ttl') != [['ttl']] or argsof('set_tos') != [['net.tos.0']]):
                        problems['R5'].append('ttl/tos set to %s / %s' % (argsof('set_ttl'), argsof('set_tos')))
                    ca = argsof('connect')[0][0]
                    ba = argsof('bind')[0][0]
                    if not re.fullmatch(r'call:SocketAddr::new\(IpAddr::V[46]\(target\), %s\)' % re.escape(vshow(N.simp(c.probe[4][3]))), ca) or \
                            not re.fullmatch(r'call:SocketAddr::new\(IpAddr::V[46]\(net\.src_addr\), %s\)' % re.escape(vshow(N.simp(c.probe[4][2]))), ba):
                        problems['R5'].append('bind/connect addresses are %s / %s' % (ba[:70], ca[:70]))
            elif tp is not None and eng.pkt_state(s, tp)[6] == 'kernel':
                seqn = [n for n in names if n in ('bind', 'set_ttl', 'set_tos', 'set_unicast_hops_v6', 'send_to')]
                want_seq = ['bind', 'set_unicast_hops_v6', 'send_to'] if v6 else ['bind', 'set_ttl', 'set_tos', 'send_to']
                if seqn != want_seq:
                    problems['R5'].append('datagram socket calls %s, expected %s' % (seqn, want_seq))
                else:
                    if (v6 and argsof('set_unicast_hops_v6') != [['ttl']]) or (not v6 and (argsof('set_ttl') != [['ttl']] or argsof('set_tos') != [['net.tos.0']])):
                        problems['R5'].append('ttl/tos/hop-limit arguments wrong')
                    sa = argsof('send_to')[0]
                    ba = argsof('bind')[0][0]
                    if not re.fullmatch(r'call:SocketAddr::new\(IpAddr::V[46]\(net\.src_addr\), %s\)' % re.escape(vshow(N.simp(c.probe[4][2]))), ba) or \
                            not re.fullmatch(r'call:SocketAddr::new\(IpAddr::V[46]\(target\), %s\)' % re.escape(vshow(N.simp(c.probe[4][3]))), sa[1]):
                        problems['R5'].append('datagram socket is bound to %s and sends to %s; expected (source address, probe source port) and (target, probe destination port)' % (ba[:70], sa[1][:70]))
                    if not _len_equal(N, [cc for n_, cc in calls if n_ == 'send_to'][0][7][1], hdr_ip + 8) or 'net.payload_pattern.0' not in sa[0]:
                        problems['R2'].append('datagram payload %s is not the pattern of packet_size − %d octets' % (sa[0][:70], hdr_ip + 8))
            elif v6:
                seqn = [n for n in names if n in ('set_unicast_hops_v6', 'send_to')]
                if seqn != ['set_unicast_hops_v6', 'send_to'] or argsof('set_unicast_hops_v6') != [['ttl']]:
                    problems['R5'].append('IPv6 raw socket calls %s with hop limit %s' % (seqn, argsof('set_unicast_hops_v6')))
                sa = argsof('send_to')[0][1]
                if not re.fullmatch(r'call:SocketAddr::new\(IpAddr::V6\(target\), 0\)', sa):
                    problems['R5'].append('send_to address %s' % sa[:60])
            else:
                sa = argsof('send_to')[0][1]
                if not re.fullmatch(r'call:SocketAddr::new\(IpAddr::V4\(target\), .*\)', sa):
                    problems['R5'].append('send_to address %s' % sa[:60])
        for rid, probs in problems.items():
            inst = 'cell%s' % name
            if probs:
                chk.fail(rid, inst, where, 'cell %s: %s' % (name, '; '.join(sorted(set(probs))[:3])), key='%s|%s' % (rid, name))
            else:
                chk.ok(rid, inst, '%d successful dispatch traces' % len(oks))
        # R4: size guard on every trace
        bad4 = None
        if c.proto != 'Tcp':
            for o in c.dispatch_outs:
                d = [(vshow(a), v) for a, v, _ in o.st.decisions]
                # the size test may be written `(MIN..=MAX).contains(&size)` or as two comparisons: collect the bounds the trace established
                # on the configured packet size, and whether it established that a bound is violated
                lo_b = hi_b = None
                violated = False
                tested = False
                want_lo, want_hi = (48 if c.fam == 'V6' else 28), prog.const_val('trippy_core::net::channel::MAX_PACKET_SIZE')
                for a, v in d:
                    m_ = re.fullmatch(r'in_range\((.*packet_size(?:\.0)?), (\d+), (\d+)\)', a)
                    if m_:
                        tested = True
                        if v == 1:
                            lo_b, hi_b = int(m_.group(2)), int(m_.group(3))
                        elif (int(m_.group(2)), int(m_.group(3))) == (want_lo, want_hi):
                            violated = True
                        else:
                            lo_b, hi_b = int(m_.group(2)), int(m_.group(3))      # wrong range: reported below
                        continue
                    if a.startswith('call:RangeInclusive::contains('):
                        tested = True
                        violated = violated or v == 0
                        continue
                    ca, cv = canon(a, v)
                    m_ = re.fullmatch(r'Lt\((.*packet_size(?:\.0)?), (\d+)\)', ca)       # size < k
                    if m_ and isinstance(cv, int):
                        tested = True
                        if cv == 0:
                            lo_b = int(m_.group(2))
                        elif int(m_.group(2)) == want_lo:
                            violated = True
                    m_ = re.fullmatch(r'Lt\((\d+), (.*packet_size(?:\.0)?)\)', ca)       # k < size
                    if m_ and isinstance(cv, int):
                        tested = True
                        if cv == 0:
                            hi_b = int(m_.group(1))
                        elif int(m_.group(1)) == want_hi:
                            violated = True
                built = any(e[0] == 'pkt-new' for e in o.st.events)
                rejected = vshow(o.value) == 'Result::Err(Error::InvalidPacketSize(net.packet_size.0))'
                if not tested:
                    bad4 = 'a trace does not test the packet size range'
                elif built and (lo_b, hi_b) != (want_lo, want_hi):
                    bad4 = 'a packet is built on a trace that only established %s ≤ packet size ≤ %s; the headers need %d and the buffers hold %d' % (lo_b, hi_b, want_lo, want_hi)
                elif violated and (built or not rejected):
                    bad4 = 'outside the allowed range the dispatch still builds a packet / does not return InvalidPacketSize'
            if bad4:
                chk.fail('R4', 'cell%s:guard' % name, where, 'cell %s: %s' % (name, bad4), key='R4|%s|guard' % name)
            else:
                chk.ok('R4', 'cell%s:guard' % name, 'MIN..=MAX contains packet_size, else Err(InvalidPacketSize)', nontrivial=False)

    # ---- R4 constants ------------------------------------------------------------------------------------------
    cv = prog.const_val
    core_max = cv('trippy_core::net::channel::MAX_PACKET_SIZE')
    rels = [
        ('ipv4 MAX_UDP_PACKET_BUF = MAX_PACKET_SIZE − 20', cv('trippy_core::net::ipv4::MAX_UDP_PACKET_BUF') == core_max - 20),
        ('ipv4 MAX_UDP_PAYLOAD_BUF = MAX_UDP_PACKET_BUF − 8', cv('trippy_core::net::ipv4::MAX_UDP_PAYLOAD_BUF') == core_max - 28),
        ('ipv4 MAX_ICMP_PAYLOAD_BUF = MAX_PACKET_SIZE − 28', cv('trippy_core::net::ipv4::MAX_ICMP_PAYLOAD_BUF') == core_max - 28),
        ('ipv6 MAX_UDP_PACKET_BUF = MAX_PACKET_SIZE − 40', cv('trippy_core::net::ipv6::MAX_UDP_PACKET_BUF') == core_max - 40),
        ('ipv6 MAX_UDP_PAYLOAD_BUF = MAX_PACKET_SIZE − 48', cv('trippy_core::net::ipv6::MAX_UDP_PAYLOAD_BUF') == core_max - 48),
        ('ipv6 MAX_ICMP_PAYLOAD_BUF = MAX_PACKET_SIZE − 48', cv('trippy_core::net::ipv6::MAX_ICMP_PAYLOAD_BUF') == core_max - 48),
        ('ipv4 MIN_PACKET_SIZE_ICMP = MIN_PACKET_SIZE_UDP = 28', cv('trippy_core::net::ipv4::MIN_PACKET_SIZE_ICMP') == 28 and cv('trippy_core::net::ipv4::MIN_PACKET_SIZE_UDP') == 28),
        ('ipv6 MIN_PACKET_SIZE_ICMP = MIN_PACKET_SIZE_UDP = 48', cv('trippy_core::net::ipv6::MIN_PACKET_SIZE_ICMP') == 48 and cv('trippy_core::net::ipv6::MIN_PACKET_SIZE_UDP') == 48),
        ('DONT_FRAGMENT = 0x4000', any(p_.endswith('::DONT_FRAGMENT') and c_['bits'] == '16384' for p_, c_ in prog.consts.items())),
    ]
    try:
        tui = program(crates=('tui',))
        rels.append(('command line MAX_PACKET_SIZE = core MAX_PACKET_SIZE', tui.const_val('trippy_tui::config::constants::MAX_PACKET_SIZE') == core_max))
        rels.append(('command line minimum sizes = 28 / 48', tui.const_val('trippy_tui::config::constants::MIN_PACKET_SIZE_IPV4') == 28 and tui.const_val('trippy_tui::config::constants::MIN_PACKET_SIZE_IPV6') == 48))
    except AnchorLost as e:
        rels.append(('command line packet size constants found', False))
    for name, okv in rels:
        if okv:
            chk.ok('R4', name)
        else:
            chk.fail('R4', name, 'crates/trippy-core/src/net', 'constant relation violated: %s' % name, key='R4|' + name.split(' = ')[0])
    fc = prog.find(r'net::channel::Channel::connect$')
    st = St()
    e1 = Engine(prog, inline_depth=0)
    outs = e1.run(fc, [e1.sym_ref(st, 'config')], st)
    gkey = canon('Gt(config.packet_size.0, %d)' % core_max, 1)[0]       # any spelling of the comparison
    first = [[canon(vshow(a), v) for a, v, _ in o.st.decisions if isinstance(v, int)][:1] for o in outs]
    rej = [o for o, f_ in zip(outs, first) if f_ == [canon('Gt(config.packet_size.0, %d)' % core_max, 1)]]
    if rej and all(vshow(o.value).startswith('Result::Err(Error::InvalidPacketSize(') for o in rej) and all(f_ and f_[0][0] == gkey for f_ in first):
        chk.ok('R4', 'Channel::connect:guard', 'packet_size > MAX_PACKET_SIZE → Err(InvalidPacketSize), checked first')
    else:
        chk.fail('R4', 'Channel::connect:guard', fn_loc(fc), 'Channel::connect does not reject packet sizes above MAX_PACKET_SIZE up front', key='R4|Channel::connect|guard')


def _len_equal(N, payload, hdr):
    """|payload| == packet_size − hdr, where packet_size is usize::from(self.packet_size.0)"""
    l = N.lin(('term', 'len', [payload]))
    if l is None:
        return False
    return len(l.t) == 1 and l.c == -hdr and list(l.t.values()) == [1] and 'packet_size' in list(l.t)[0]
