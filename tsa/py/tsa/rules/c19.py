"""C19 — NAT is flagged at the first hop that sees a rewritten datagram.

 R1 where checksums exist: (expected, actual) are Some exactly in the (UDP, Dublin, IPv4) cell of ProtocolStrategyResponse::from and None in every
    other protocol × strategy × family cell; StrategyResponse::from and complete_probe hand them on to the fields of the same name
    (expected → expected, actual → actual) for every response kind.
 R2 every other configuration stays NotApplicable: Hop.last_nat_status is written only in the Complete arm under the (Some, Some) pattern and
    with the status returned by nat_status; the Hop default is NotApplicable.
 R3 exact truth table of nat_status: no previous hop checksum ⇒ Detected iff expected ≠ actual, carry actual; previous p ⇒ Detected iff p ≠ actual,
    carry actual (= p when equal).
 R4 carry-forward: prev_hop_checksum starts None per StateUpdater (per round and flow) and is written only in that branch with the carried
    checksum — silent hops leave it unchanged.
 R5 what the expected checksum covers: calc_udp_checksum builds a UDP datagram from this tracer's addresses, the two *quoted* ports, the quoted
    payload length (capped at the buffer) and the configured pattern, and returns its checksum field; `actual` is the quoted datagram's checksum field.
    In R3 every trace of a row must give the row's answer, and a row with a previous responding hop must not consult the as-sent checksum at all.
Not decided: the numerical equality of the recomputed checksum with that of the probe as sent (C13 territory); the behaviour of real NAT devices.
"""
import itertools
import re

from .common import *
from ..tables import decided
from .state_common import *
from .validate_spec import config_rec, PROTOS, DIRS, STRATS, FAMS

LEVEL = 'other'


def run(chk, tier):
    prog = program(crates=('core',))
    chk.explanation = __doc__
    # the checksum the probe is sent with is the single, last write of udp_ipv4_checksum over the datagram (C11.R3, imported): what R5 recomputes
    from ..report import run_sub
    run_sub(chk, 'c11', 'C11.', {'R3'})
    for r, d, fl in (('R1', 'checksums are Some exactly for (Udp, Dublin, V4); name-preserving hand-off', 72), ('R2', 'last_nat_status written only under (Some, Some) in the Complete arm', 2),
                     ('R3', 'nat_status truth table', 4), ('R4', 'prev_hop_checksum carry-forward', 2), ('R5', 'inputs of the expected / actual checksum', 3)):
        chk.rule(r, d, floor=fl)

    # ---- R1 ---------------------------------------------------------------------------------------------
    eng = Engine(prog, inline_depth=2)
    f = prog.find(r'<trippy_core::strategy::ProtocolStrategyResponse as core::convert::From<\(trippy_core::probe::ProtocolResponse, &trippy_core::config::StrategyConfig\)>>::from$')
    chk.fn_seen(f['path'])
    for proto, dirn, strat, fam in itertools.product(PROTOS, DIRS, STRATS, FAMS):
        st = St()
        pl = proto.lower()
        cfg = config_rec(eng, dirn, strat, fam, base='cfg')
        arg = ('tuple', [eng.adt_val('trippy_core::probe::ProtocolResponse', proto, [('sym', pl)]), eng.obj_ref(st, cfg)])
        outs = eng.run(f, [arg], st)
        names = [x['name'] for x in prog.adt('trippy_core::strategy::ProtocolStrategyResponse')['variants'][0]['fields']]
        want_some = proto == 'Udp' and strat == 'Dublin' and fam == 'V4'
        inst = 'cell[%s,%s,%s,%s]' % (proto, dirn, strat, fam)
        okv = bool(outs)
        got = None
        for o in outs:
            v = o.value
            if o.kind != 'return' or not (isinstance(v, tuple) and v[0] == 'adt'):
                okv = False
                continue
            e_, a_ = vshow(v[4][names.index('expected_udp_checksum')]), vshow(v[4][names.index('actual_udp_checksum')])
            got = (e_, a_)
            if want_some:
                if (e_, a_) != ('Option::Some(Checksum(udp.expected_udp_checksum))', 'Option::Some(Checksum(udp.actual_udp_checksum))'):
                    okv = False
            elif (e_, a_) != ('Option::None', 'Option::None'):
                okv = False
        if okv:
            chk.ok('R1', inst, got, nontrivial=want_some)
        else:
            chk.fail('R1', inst, fn_loc(f), 'ProtocolStrategyResponse::from in cell %s yields (expected, actual) = %s; NAT detection must have checksums exactly for IPv4/UDP/Dublin '
                     '(expected from expected, actual from actual)' % (inst, got), key='R1|' + inst)
    # hand-off through StrategyResponse::from (5 response kinds) and complete_probe
    f2 = prog.find(r'<trippy_core::strategy::StrategyResponse as core::convert::From<\(trippy_core::probe::Response, &trippy_core::config::StrategyConfig\)>>::from$')
    chk.fn_seen(f2['path'])
    e1 = Engine(prog, inline_depth=1, opaque=[r'ProtocolStrategyResponse as'])
    rnames = [x['name'] for x in prog.adt('trippy_core::strategy::StrategyResponse')['variants'][0]['fields']]
    for vn in prog.variant_names('trippy_core::probe::Response'):
        st = St()
        nf = len([v for v in prog.adt('trippy_core::probe::Response')['variants'] if v['name'] == vn][0]['fields'])
        arg = ('tuple', [eng.adt_val('trippy_core::probe::Response', vn, [('sym', 'f%d' % i) for i in range(nf)]), e1.sym_ref(st, 'cfg')])
        outs = e1.run(f2, [arg], st)
        good = bool(outs)
        for o in outs:
            v = o.value
            if not (isinstance(v, tuple) and v[0] == 'adt'):
                good = False
                continue
            e_, a_ = vshow(v[4][rnames.index('expected_udp_checksum')]), vshow(v[4][rnames.index('actual_udp_checksum')])
            if not (re.fullmatch(r'field:expected_udp_checksum\(call:ProtocolStrategyResponse::from\(.*\)\)', e_) and re.fullmatch(r'field:actual_udp_checksum\(call:ProtocolStrategyResponse::from\(.*\)\)', a_)):
                good = False
        if good:
            chk.ok('R1', 'handoff:StrategyResponse::from[%s]' % vn, 'expected→expected, actual→actual')
        else:
            chk.fail('R1', 'handoff:StrategyResponse::from[%s]' % vn, fn_loc(f2), 'StrategyResponse::from(%s) does not copy the two checksums to the fields of the same name' % vn, key='R1|handoff|' + vn)
    fcp = prog.find(r'TracerState::complete_probe$')
    ec = Engine(prog, inline_depth=2, opaque=[r'Probe::complete$'])
    st = St()
    args_seen = set()
    for o in ec.run(fcp, [ec.sym_ref(st, 'self'), ('sym', 'resp')], st):
        for c in user_calls(o, r'Probe::complete$'):
            args_seen.add(tuple(vshow(x) for x in c[7][1:]))
    want = ('resp.addr', 'resp.received', 'resp.icmp_packet_type', 'resp.tos', 'resp.expected_udp_checksum', 'resp.actual_udp_checksum', 'resp.exts')
    if args_seen == {want}:
        chk.ok('R1', 'handoff:complete_probe', 'Probe::complete(addr, received, type, tos, expected, actual, exts)')
    else:
        chk.fail('R1', 'handoff:complete_probe', fn_loc(fcp), 'complete_probe hands %s to Probe::complete; the parameter order is (host, received, icmp_packet_type, tos, expected, actual, extensions)' % sorted(args_seen)[:1],
                 key='R1|handoff|complete_probe')
    fpc = prog.find(r'probe::Probe::complete$')
    st = St()
    argn = [fpc['locals'][i]['name'] for i in range(1, fpc['argc'] + 1)]
    outs = Engine(prog, inline_depth=0).run(fpc, [('sym', n) for n in argn], st)
    pcn = [x['name'] for x in prog.adt('trippy_core::probe::ProbeComplete')['variants'][0]['fields']]
    good = bool(outs)
    for o in outs:
        v = o.value
        if not (isinstance(v, tuple) and v[0] == 'adt'):
            good = False
            continue
        for fld, src in (('expected_udp_checksum', 'expected_udp_checksum'), ('actual_udp_checksum', 'actual_udp_checksum'), ('host', 'host'), ('received', 'received'), ('ttl', 'self.ttl'),
                         ('sent', 'self.sent'), ('sequence', 'self.sequence'), ('round', 'self.round'), ('src_port', 'self.src_port'), ('dest_port', 'self.dest_port'),
                         ('icmp_packet_type', 'icmp_packet_type'), ('tos', 'tos'), ('extensions', 'extensions'), ('identifier', 'self.identifier')):
            if vshow(v[4][pcn.index(fld)]) != src:
                good = False
                chk.fail('R1', 'handoff:Probe::complete:' + fld, fn_loc(fpc), 'Probe::complete sets %s from %s, expected %s' % (fld, vshow(v[4][pcn.index(fld)]), src), key='R1|handoff|Probe::complete|' + fld)
    if good:
        chk.ok('R1', 'handoff:Probe::complete', 'every field from the parameter / probe field of the same name')

    # ---- R2 / R4 ------------------------------------------------------------------------------------------
    fu, _, tr = probe_traces(prog)
    NS = r'call:state_updater::nat_status\(field:0\(p\.expected_udp_checksum\), field:0\(p\.actual_udp_checksum\), self\.prev_hop_checksum\)'
    bad2 = bad4 = None
    n_some = 0
    for cell in CELLS:
        for t in tr[cell]:
            w = t.writes.get(('Hop', 'last_nat_status'), [])
            wp = t.writes.get(('StateUpdater', 'prev_hop_checksum'), [])
            d = dict(t.dec)
            both = cell == 'Complete' and d.get('discr(p.expected_udp_checksum)') == 1 and d.get('discr(p.actual_udp_checksum)') == 1
            if both:
                n_some += 1
                if not (len(w) == 1 and re.fullmatch(r'field:0\(%s\)' % NS, w[0])):
                    bad2 = 'with both checksums present the hop status must be nat_status(expected, actual, prev).0 (writes %s)' % [x[:80] for x in w]
                if not (len(wp) == 1 and re.fullmatch(r'Option::Some\(field:1\(%s\)\)' % NS, wp[0])):
                    bad4 = 'the carried checksum must become Some(nat_status(..).1) (writes %s)' % [x[:80] for x in wp]
            else:
                if w:
                    bad2 = 'last_nat_status is written in the %s arm without both checksums (%s)' % (cell, w[0][:60])
                if wp:
                    bad4 = 'prev_hop_checksum is written in the %s arm without both checksums' % cell
    if bad2 or not n_some:
        chk.fail('R2', 'writers', fn_loc(fu), 'update_for_probe: %s' % (bad2 or 'no trace with both checksums present'), key='R2|writers')
    else:
        chk.ok('R2', 'writers', 'only under (Some(expected), Some(actual)) in the Complete arm (%d traces)' % n_some)
    dflt = [c for c in prog.consts.values() if False]
    fd = [f_ for f_ in prog.fns.values() if f_.get('impl_adt') == 'trippy_core::state::Hop' and f_.get('impl_trait') == 'core::default::Default']
    okd = False
    if fd:
        st = St()
        outs = Engine(prog, inline_depth=1).run(fd[0], [], st)
        hn = [x['name'] for x in prog.adt('trippy_core::state::Hop')['variants'][0]['fields']]
        okd = bool(outs) and all(isinstance(o.value, tuple) and o.value[0] == 'adt' and vshow(o.value[4][hn.index('last_nat_status')]) == 'NatStatus::NotApplicable' for o in outs)
    if okd:
        chk.ok('R2', 'default', 'Hop::default().last_nat_status = NotApplicable')
    else:
        chk.fail('R2', 'default', fn_loc(fd[0]) if fd else '?', 'a fresh Hop does not start with NatStatus::NotApplicable', key='R2|default')
    if bad4:
        chk.fail('R4', 'carry', fn_loc(fu), 'update_for_probe: ' + bad4, key='R4|carry')
    else:
        chk.ok('R4', 'carry', 'written only with the checksum nat_status carries forward')
    fn_new = prog.find(r'StateUpdater::new$')
    st = St()
    outs = Engine(prog, inline_depth=0).run(fn_new, [('sym', 'state'), ('sym', 'round')], st)
    un = [x['name'] for x in prog.adt(UPD)['variants'][0]['fields']]
    if outs and all(vshow(o.value[4][un.index('prev_hop_checksum')]) == 'Option::None' and vshow(o.value[4][un.index('forward_loss')]) == '0' for o in outs):
        chk.ok('R4', 'initial', 'prev_hop_checksum = None, forward_loss = false per round and flow')
    else:
        chk.fail('R4', 'initial', fn_loc(fn_new), 'StateUpdater::new does not start with prev_hop_checksum = None', key='R4|initial')

    # ---- R3 ---------------------------------------------------------------------------------------------
    fn_ns = prog.find(r'state_updater::nat_status$')
    chk.fn_seen(fn_ns['path'])
    st = St()
    outs = Engine(prog, inline_depth=1).run(fn_ns, [('sym', 'expected'), ('sym', 'actual'), ('sym', 'prev')], st)
    rows = {}
    for o in outs:
        d = dict((vshow(a), v) for a, v, _ in o.st.decisions)
        val = vshow(o.value)
        has_prev = d.get('discr(prev)')
        if has_prev == 1:
            eq = decided(o.st.decisions, 'Eq(field:0(prev), actual.0)')
            row = ('prev', eq)
            want = '(NatStatus::NotDetected, field:0(prev))' if eq == 1 else '(NatStatus::Detected, actual.0)'
            if eq == 1 and val == '(NatStatus::NotDetected, actual.0)':
                want = val
        elif has_prev == 0 or (isinstance(has_prev, tuple) and 1 in has_prev[1]):
            eq = decided(o.st.decisions, 'Eq(expected.0, actual.0)')
            row = ('first', eq)
            want = '(NatStatus::NotDetected, actual.0)' if eq == 1 else '(NatStatus::Detected, actual.0)'
            if eq == 1 and val == '(NatStatus::NotDetected, expected.0)':
                want = val
        else:
            row, want = ('?', None), None
        if row[0] == 'prev' and decided(o.st.decisions, 'Eq(expected.0, actual.0)') is not None:
            # with a previous responding hop the status is a function of (previous, actual) alone: the as-sent checksum must not be consulted, or every
            # hop behind a rewriting device differs from it and is flagged again
            want = (want or '') + ' — decided from the previous hop alone, not from the as-sent checksum as well'
        # every trace of a row must give the required answer (a later trace of the same row must not hide an earlier wrong one)
        prev_ = rows.get(row)
        if prev_ is None or prev_[0]:
            rows[row] = (val == want, val, want)
    for row in (('prev', 1), ('prev', 0), ('first', 1), ('first', 0)):
        r_ = rows.get(row)
        inst = 'nat_status[%s,%s]' % (row[0], 'equal' if row[1] else 'differs')
        if r_ and r_[0]:
            chk.ok('R3', inst, r_[1])
        else:
            chk.fail('R3', inst, fn_loc(fn_ns), 'nat_status with %s checksum %s returns %s; required %s' % (
                'a previous hop' if row[0] == 'prev' else 'no previous hop', 'equal' if row[1] else 'different', r_ and r_[1], r_ and r_[2]), key='R3|' + inst)
    if set(rows) - {('prev', 1), ('prev', 0), ('first', 1), ('first', 0)}:
        chk.fail('R3', 'shape', fn_loc(fn_ns), 'nat_status decides on other conditions: %s' % sorted(map(str, rows)), key='R3|shape')

    # ---- R5 ---------------------------------------------------------------------------------------------
    fc = prog.find(r'net::ipv4::Ipv4::calc_udp_checksum$')
    chk.fn_seen(fc['path'])
    st = St()
    e0 = Engine(prog, inline_depth=0)
    outs = e0.run(fc, [e0.sym_ref(st, 'self'), ('sym', 'src_port'), ('sym', 'dest_port'), ('sym', 'payload_size')], st)
    good = False
    det = ''
    for o in outs:
        mk = user_calls(o, r'Ipv4::make_udp_packet$')
        if o.kind == 'return' and len(mk) == 1:
            a = [vshow(x) for x in mk[0][7]]
            det = str(a)[:260]
            if a[0] == 'self' and a[2] == 'src_port.0' and a[3] == 'dest_port.0' and \
                    re.fullmatch(r'call:array::index\(repeat\(self\.payload_pattern\.0, \d+\), (?:Range\(0, |RangeTo\()MIN\)\)|subslice\(repeat\(self\.payload_pattern\.0, \d+\), 0, MIN\)'.replace('MIN', r'Min\((?:payload_size, \d+|\d+, payload_size)\)'), a[4]) and \
                    re.fullmatch(r'Result::Ok\(call:UdpPacket::get_checksum\(field:0\(call:Ipv4::make_udp_packet\(.*\)\)\)\)', vshow(o.value)):
                good = True
    if good:
        chk.ok('R5', 'expected-inputs', 'make_udp_packet(self addrs, src_port, dest_port, pattern[..min(len, buf)]).get_checksum()')
    else:
        chk.fail('R5', 'expected-inputs', fn_loc(fc), 'calc_udp_checksum must recompute the checksum of a datagram with the quoted ports, quoted payload length and the configured pattern: %s' % det, key='R5|expected-inputs')
    fe = prog.find(r'net::ipv4::Ipv4::extract_probe_proto_resp$')
    st = St()
    e1b = Engine(prog, inline_depth=0)
    selfv = ('rec', 'self', {'protocol': e1b.adt_val('trippy_core::config::Protocol', 'Udp')})
    outs = e1b.run(fe, [e1b.obj_ref(st, selfv), e1b.sym_ref(st, 'ipv4')], st)
    good = False
    det = ''
    EX = r'field:0\(call:ipv4::extract_udp_packet\(ipv4\)\)'
    for o in outs:
        nw = user_calls(o, r'UdpProtocolResponse::new$')
        cc = user_calls(o, r'Ipv4::calc_udp_checksum$')
        if len(nw) == 1 and len(cc) == 1:
            a = [vshow(x) for x in nw[0][7]]
            c = [vshow(x) for x in cc[0][7]]
            det = '%s | %s' % (a[5:8], c[1:])
            # new(identifier, dest_addr, src_port, dest_port, tos, expected, actual, payload_len, has_magic)
            if re.fullmatch(r'field:0\(call:Ipv4::calc_udp_checksum\(.*\)\)', a[5]) and re.fullmatch(r'field:2\(%s\)' % EX, a[6]) and \
                    c[1:] == ['Port(field:0(field:0(call:ipv4::extract_udp_packet(ipv4))))', 'Port(field:1(field:0(call:ipv4::extract_udp_packet(ipv4))))', 'field:4(field:0(call:ipv4::extract_udp_packet(ipv4)))']:
                good = True
    if good:
        chk.ok('R5', 'actual-and-args', 'expected = calc_udp_checksum(quoted src, quoted dest, quoted length); actual = quoted checksum')
    else:
        chk.fail('R5', 'actual-and-args', fn_loc(fe), 'extract_probe_proto_resp[Udp]: expected/actual checksum wiring is %s' % det, key='R5|actual-and-args')
    fx = prog.find(r'net::ipv4::extract_udp_packet$')
    st = St()
    outs = Engine(prog, inline_depth=0).run(fx, [Engine(prog).sym_ref(st, 'ipv4')], st)
    oks = [vshow(o.value) for o in outs if vshow(o.value).startswith('Result::Ok')]
    N = r'field:0\(call:UdpPacket::new_view\(call:Ipv4Packet::payload\(ipv4\)\)\)'
    rx = (r'Result::Ok\(\(call:UdpPacket::get_source\(%s\), call:UdpPacket::get_destination\(%s\), call:UdpPacket::get_checksum\(%s\), call:Ipv4Packet::get_identification\(ipv4\), '
          r'saturating_sub\(call:UdpPacket::get_length\(%s\), (8|as_u16\(call:UdpPacket::minimum_packet_size\(\)\))\)\)\)' % (N, N, N, N))
    if oks and all(re.fullmatch(rx, v) for v in oks):
        chk.ok('R5', 'quoted-fields', '(source, destination, checksum, ip id, length − 8) of the quoted datagram')
    else:
        chk.fail('R5', 'quoted-fields', fn_loc(fx), 'extract_udp_packet returns %s' % (oks[:1] or 'nothing'), key='R5|quoted-fields')
