"""Shared helpers for rule modules."""
import re

from ..facts import Program, AnchorLost, loc, fn_loc
from ..sym import Engine, St, show, C, is_c, key, short, contains, syms, TOP, UNIT
from ..tables import vshow, norm

_PROG = {}


def program(profile='dev', crates=('packet', 'core', 'tui')):
    k = (profile, tuple(crates))
    if k not in _PROG:
        _PROG[k] = Program(profile, crates)
    return _PROG[k]


def getter_field(eng, fn):
    """If fn is a pure getter `fn(&self) -> self.<field>` return the field path string, else None."""
    st = St()
    outs = eng.run(fn, [eng.sym_ref(st, 'self')], st)
    if len(outs) != 1 or outs[0].kind != 'return':
        return None
    v = outs[0].value
    if isinstance(v, tuple) and v[0] == 'ref':
        v = eng.load(v[1], v[2], outs[0].st)
    s = vshow(v)
    m = re.fullmatch(r'self((\.\w+)+)', s)
    return m.group(1)[1:] if m else None


def check_getter(chk, rid, eng, prog, pattern, field):
    fn = prog.find(pattern)
    chk.fn_seen(fn['path'])
    got = getter_field(eng, fn)
    if got == field:
        chk.ok(rid, 'getter:%s' % fn['name'], 'returns self.%s' % field)
    else:
        chk.fail(rid, 'getter:%s' % fn['name'], fn_loc(fn),
                 '%s must return the field `%s` but returns %s' % (fn['name'], field, got),
                 key='%s|getter|%s' % (rid, fn['name']))
    return fn


def site_of(e):
    """event -> 'path:line'"""
    return '%s:%s' % (e[3][0].split('::')[-1], e[3][1]) if isinstance(e[3], tuple) else str(e[3])


def user_calls(outcome, rx=None):
    """calls that are not inside tracing / fmt macro expansions"""
    r = []
    for e in outcome.st.events:
        if e[0] != 'call':
            continue
        if e[5] and ('tracing' in e[5] or '$crate::event' in e[5] or 'format_args' in e[5] or 'valueset' in e[5]
                     or 'instrument' in e[5] or 'level_enabled' in e[5]):
            continue
        if rx is not None and not re.search(rx, e[1]):
            continue
        r.append(e)
    return r
