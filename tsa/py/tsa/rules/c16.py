"""C16 — option precedence; accepted configurations can run.

Precedence half (trippy-tui). TrippyConfig::build_config is evaluated once with region summarisation (tsa/regions.py): every `match` / `if` /
`?` on the way to the final `Ok(Self { .. })` is explored on its own and becomes a decision table, so the whole function is covered without
multiplying traces.
 R1 the three layering helpers implement command line > file > default on every input shape (4 + 4 + 4 rows).
 R2 provenance of every field of TrippyConfig: it is `cfg_layer*(args.F, <file section>.F, default)` with the same option name F on both
    sides and a default that mentions neither source, or a *derived* option whose decision table is checked (R2d), or one of the command-line-only
    values (targets, verbose). Accounting: every field of `Args` is consumed by exactly one layer call, is a listed shortcut flag / item list
    read by a derived table, or is a listed action that never reaches the configuration; every field of every config-file section is consumed
    by exactly one layer call (deprecated_* fields by validate_deprecated).
 R2v what is validated is what takes effect: no argument of a validate_* call in build_config contains the raw command-line field or raw file
    entry of a layered option outside its layering call.
 R2d derived options: --udp/--tcp/--icmp and -4/-6 override the layered protocol / address family and otherwise map it by name; multipath
    strategy and DNS resolve method map by name; unprivileged / icmp-extensions map true to the enabled variant; max_rounds is None for tui /
    stream and Some(report_cycles) otherwise; tui_max_addrs maps the *layered* value (0 → auto); port direction follows the documented table.
 R3 TuiTheme::from / TuiBindings::from: every field is `items.get(Item::X).or(file.G).unwrap_or(default.F)` — command line first — with X, G and
    F naming the same item (acronym-insensitive snake / camel normalisation).
 R4 documented defaults: each `[default: X]` in the Args doc comments equals the default used by the layer call — integers by value, durations
    parsed (1s, 100ms) against the evaluated constant, enums by kebab-casing the variant, strings literally; `auto` / `none` must correspond to
    an option layered without default. Forms that cannot be normalised are listed as unchecked.
Runnability half (trippy-core).
 R5 Builder::build's accept / reject table over protocol × port direction × strategy, derived from its abstract traces, equals the table the
    per-cell analyses (C02 / C11) use; the range constraints the core relies on are enforced (= C07.R4, imported) and first_ttl ≥ 1 (C10's lower bound).
 R6 for every cell of protocol × strategy × port direction × family × privilege that Builder::build accepts, issuing a probe
    (TracerState::next_probe) and dispatching it reach no explicit panic (unimplemented!, unreachable!, panic!); cells that do reach one must
    be rejected by the builder.
 R7 the remaining run-time path (everything reachable from Strategy::run / Tracer::run in trippy-core and the packet builders that is not already
    audited by C04 (receive path), C10 (aggregator) or C14 (extensions)): every panic-capable construct is discharged by the range prover under
    the ranges Builder::build enforces (R5) and the state-machine invariants decided by C06 / C07 (imported: C07.R2–R5), by a reviewed allow
    entry, or reported. The pending TCP connection list never exceeds its capacity: every push is preceded by the is_full() eviction.
Not decided: that a run "executes rounds" on a real network; resource exhaustion other than the bounded lists; clap's own parsing (conflicts_with,
value parsers); platform (socket) code.
"""
import re

from .common import *
from ..regions import segmented
from ..report import run_sub

LEVEL = 'other'
TC = 'trippy_tui::config::TrippyConfig'
ARGS = 'trippy_tui::config::cmd::Args'
SECTIONS = {'trippy': 'ConfigTrippy', 'strategy': 'ConfigStrategy', 'tui': 'ConfigTui', 'dns': 'ConfigDns', 'report': 'ConfigReport'}
# Args fields that are not layered, with the reason (frozen; a new Args field must be layered or listed here)
ARGS_FLAGS = {'udp': 'protocol shortcut', 'tcp': 'protocol shortcut', 'icmp': 'protocol shortcut', 'ipv4': 'address family shortcut', 'ipv6': 'address family shortcut'}
ARGS_CLI_ONLY = {'targets': 'positional targets', 'verbose': 'command line only', 'tui_theme_colors': 'item list layered per item by TuiTheme::from (R3)',
                 'tui_key_bindings': 'item list layered per item by TuiBindings::from (R3)'}
ARGS_ACTIONS = {'config_file': 'selects the file before build_config', 'print_tui_theme_items': 'action', 'print_tui_binding_commands': 'action', 'generate': 'action',
                'generate_man': 'action', 'print_config_template': 'action', 'print_locales': 'action'}
DERIVED = {'protocol', 'addr_family', 'multipath_strategy', 'port_direction', 'dns_resolve_method', 'max_rounds', 'tui_max_addrs', 'privilege_mode',
           'icmp_extension_parse_mode', 'tui_custom_columns', 'tui_timezone', 'tui_theme', 'tui_bindings'}


def norm(s):
    return re.sub(r'[^a-z0-9]', '', s.lower())


def kebab(variant):
    s = re.sub(r'(?<=[a-z0-9])(?=[A-Z])', '-', variant)
    return s.lower()


def parse_duration(s):
    m = re.fullmatch(r'(\d+)(ms|s|us|m)', s)
    if not m:
        return None
    n = int(m.group(1))
    return {'ms': n * 10 ** 6, 's': n * 10 ** 9, 'us': n * 1000, 'm': n * 60 * 10 ** 9}[m.group(2)]


def run(chk, tier):
    prog = program(crates=('tui', 'core', 'packet'))
    chk.explanation = __doc__
    for r, d, fl in (('R1', 'layer helper tables', 3), ('R2', 'provenance of every TrippyConfig field; every Args / file field consumed once', 150),
                     ('R2d', 'decision tables of derived options', 9), ('R3', 'theme / binding items: command line, then file, then default, names agree', 70),
                     ('R4', 'documented defaults equal the defaults used', 30), ('R5', 'Builder::build accept table and enforced ranges', 12),
                     ('R6', 'no explicit panic reachable in a builder-accepted cell', 100), ('R7', 'send path / state machine panic-site audit under the builder-enforced ranges', 60), ('R7t', 'loops terminate', 0),
                     ('R2v', 'validators are given effective (layered) values', 15)):
        chk.rule(r, d, floor=fl)

    # ---- R1 --------------------------------------------------------------------------------------------------
    eng = Engine(prog, inline_depth=0)

    def opt(x):
        return ('adt', 'core::option::Option', 0, 'None', []) if x is None else ('adt', 'core::option::Option', 1, 'Some', [('sym', x)])
    for rx, want in ((r'config::cfg_layer$', {(1, 1): 'a', (1, 0): 'a', (0, 1): 'b', (0, 0): 'd'}), (r'config::cfg_layer_opt$', {(1, 1): 'Option::Some(a)', (1, 0): 'Option::Some(a)', (0, 1): 'Option::Some(b)', (0, 0): 'Option::None'}),
                     (r'config::cfg_layer_bool_flag$', {(1, 1): '1', (1, 0): '1', (0, 1): 'b', (0, 0): 'd'})):
        f = prog.find(rx)
        chk.fn_seen(f['path'])
        got = {}
        for k in want:
            st = St()
            if 'bool_flag' in rx:
                args = [C(k[0]), opt('b' if k[1] else None), ('sym', 'd')]
            elif 'opt' in rx:
                args = [opt('a' if k[0] else None), opt('b' if k[1] else None)]
            else:
                args = [opt('a' if k[0] else None), opt('b' if k[1] else None), ('sym', 'd')]
            outs = eng.run(f, args, st)
            got[k] = sorted({vshow(o.value) if o.kind == 'return' else o.kind for o in outs})
        bad = {k: v for k, v in got.items() if v != [want[k]]}
        if not bad:
            chk.ok('R1', short(f['path']), 'command line > file > default on all %d shapes' % len(want))
        else:
            chk.fail('R1', short(f['path']), fn_loc(f), '%s does not implement command line > file > default: (cli given, file given) → %s' % (short(f['path']), bad), key='R1|%s' % short(f['path']))

    # ---- evaluate build_config once ------------------------------------------------------------------------------
    fb = prog.find(r'config::TrippyConfig::build_config$')
    chk.fn_seen(fb['path'])
    target = [bi for bi, b in enumerate(fb['blocks']) for st_ in b['stmts'] if st_.get('rv') and st_['rv']['k'] == 'agg' and st_['rv']['kind'].get('def') == TC]
    if len(target) != 1:
        raise AnchorLost('build_config constructs TrippyConfig at %d places' % len(target))
    eng = Engine(prog, inline_depth=0, max_paths=3000)
    st = St()
    s, fid, regions = segmented(eng, fb, [('sym', 'args'), ('sym', 'file'), eng.sym_ref(st, 'privilege'), ('sym', 'pid')], st, target[0])
    outs = eng.run_region(fb, fid, target[0], s, set())
    rets = [o for o in outs if o.kind == 'return']
    if len(rets) != 1 or not vshow(rets[0].value).startswith('Result::Ok(TrippyConfig('):
        raise AnchorLost('build_config: expected one success trace after region summarisation, got %s' % [o.kind for o in outs])
    final = rets[0]
    cfgv = final.value[4][0]
    tnames = [x['name'] for x in prog.adt(TC)['variants'][0]['fields']]
    fieldv = dict(zip(tnames, cfgv[4]))
    layer_calls = [e for e in final.st.events if e[0] == 'call' and re.search(r'config::cfg_layer(_opt|_bool_flag)?$', e[1])]
    tables = {}
    for r in regions:
        for n in r.names:
            if not n.startswith('_'):
                tables[n] = r
    chk.extra['regions'] = len(regions)
    chk.extra['layer_calls'] = len(layer_calls)

    # ---- R2: layer call shapes + accounting -----------------------------------------------------------------------
    args_fields = {x['name']: x for x in prog.adt(ARGS)['variants'][0]['fields']}
    file_fields = {}
    for sec, ty in SECTIONS.items():
        for x in prog.adt('trippy_tui::config::file::' + ty)['variants'][0]['fields']:
            file_fields[(sec, x['name'])] = x
    used_args = {}
    used_file = {}
    layer_of = {}       # printed layer term -> (option name, default term)
    for e in layer_calls:
        a = [vshow(x) for x in e[7]]
        m0 = re.fullmatch(r'args\.(\w+)', a[0])
        m1 = re.fullmatch(r'field:(\w+)\(unwrap_or_default\(file\.(\w+)\)\)', a[1])
        inst = 'layer:%s' % (m0.group(1) if m0 else a[0][:40])
        helper = short(e[1]).split('::')[-1]
        if not m0 or not m1:
            chk.fail('R2', inst, '%s:%d' % (fb['span']['file'], e[3][1]), 'a layering call takes (%s, %s): the first argument must be the command-line field and the second the config-file field, unmodified' % (a[0][:80], a[1][:80]),
                     key='R2|shape|%s' % (m0.group(1) if m0 else (m1.group(1) if m1 else 'unknown')))
            continue
        opt_name, fname, sec = m0.group(1), m1.group(1), m1.group(2)
        if opt_name != fname:
            chk.fail('R2', inst, '%s:%d' % (fb['span']['file'], e[3][1]), 'the command-line option `%s` is layered over the config-file entry `%s` of [%s]' % (opt_name, fname, sec), key='R2|names|%s' % opt_name)
            continue
        if (sec, fname) not in file_fields:
            chk.fail('R2', inst, '%s:%d' % (fb['span']['file'], e[3][1]), 'unknown config-file field %s.%s' % (sec, fname), key='R2|file-field|%s' % opt_name)
            continue
        if len(a) > 2 and re.search(r'\bargs\.|\bfile\.', a[2]):
            chk.fail('R2', inst, '%s:%d' % (fb['span']['file'], e[3][1]), 'the default of `%s` depends on another option (%s)' % (opt_name, a[2][:80]), key='R2|default|%s' % opt_name)
            continue
        aty = args_fields[opt_name]['ty']
        want_helper = 'cfg_layer_bool_flag' if aty == 'bool' else None
        if want_helper and helper != want_helper:
            chk.fail('R2', inst, '%s:%d' % (fb['span']['file'], e[3][1]), 'flag `%s` is layered with %s' % (opt_name, helper), key='R2|helper|%s' % opt_name)
            continue
        used_args.setdefault(opt_name, []).append(e)
        used_file.setdefault((sec, fname), []).append(e)
        layer_of[vshow(('term', 'call:' + short(e[1]), e[7]))] = (opt_name, a[2] if len(a) > 2 else None, helper)
        chk.ok('R2', inst, '%s(args.%s, file.%s.%s%s)' % (helper, opt_name, sec, fname, ', ' + a[2][:40] if len(a) > 2 else ''))
    for n, x in args_fields.items():
        inst = 'args:%s' % n
        k = len(used_args.get(n, []))
        if n in ARGS_FLAGS or n in ARGS_CLI_ONLY or n in ARGS_ACTIONS:
            if k:
                chk.fail('R2', inst, fn_loc(fb), 'command-line field `%s` is listed as not layered but is layered' % n, key='R2|args|%s' % n)
            else:
                chk.ok('R2', inst, (ARGS_FLAGS.get(n) or ARGS_CLI_ONLY.get(n) or ARGS_ACTIONS.get(n)), nontrivial=False)
        elif k == 1:
            chk.ok('R2', inst, 'consumed by one layer call')
        else:
            chk.fail('R2', inst, fn_loc(fb), 'command-line option `%s` is consumed by %d layering calls (expected exactly one): its value %s' % (n, k, 'is ignored' if k == 0 else 'is used twice'), key='R2|args|%s' % n)
    fdep = prog.find(r'config::validate_deprecated$')
    for (sec, n), x in file_fields.items():
        inst = 'file:%s.%s' % (sec, n)
        k = len(used_file.get((sec, n), []))
        if n.startswith('deprecated_'):
            chk.ok('R2', inst, 'deprecated entry: rejected by validate_deprecated', nontrivial=False)
        elif k == 1:
            chk.ok('R2', inst, 'consumed by one layer call')
        else:
            chk.fail('R2', inst, fn_loc(fb), 'config-file entry [%s] %s is consumed by %d layering calls (expected exactly one): %s' % (sec, n, k, 'it is silently ignored' if k == 0 else 'used twice'), key='R2|file|%s.%s' % (sec, n))
    # provenance of every TrippyConfig field
    for n in tnames:
        v = vshow(fieldv[n])
        inst = 'field:%s' % n
        if v in layer_of:
            chk.ok('R2', inst, 'layered option %s' % layer_of[v][0])
        elif re.fullmatch(r'match:\w+(#Continue\.0)?', v) and n in DERIVED:
            chk.ok('R2', inst, 'derived: %s (table under R2d)' % v)
        elif n in ('targets', 'verbose') and v == 'args.' + n:
            chk.ok('R2', inst, 'command line only')
        elif n in ('tui_theme', 'tui_bindings') and re.fullmatch(r'call:Tui(Theme|Bindings)::from\(\(call:Iterator::collect\(call:Vec::into_iter\(args\.(tui_theme_colors|tui_key_bindings)\)\), unwrap_or_default\(file\.(theme_colors|bindings)\)\)\)', v):
            chk.ok('R2', inst, 'per-item layering (R3)')
        else:
            chk.fail('R2', inst, fn_loc(fb), 'TrippyConfig.%s is %s: neither a layered option, a listed derived option nor a command-line-only value' % (n, v[:160]), key='R2|field|%s' % n)

    # ---- R2v: what is validated is what takes effect --------------------------------------------------------------------
    # every validate_* call sees layered values: an argument that still contains the raw command-line field (or the raw file entry) of a layered
    # option validates only one source of that option — a value given in the other source takes effect unvalidated
    def strip_layers(t):
        out, i = '', 0
        while True:
            m = re.search(r'call:config::cfg_layer(?:_opt|_bool_flag)?\(', t[i:])
            if not m:
                return out + t[i:]
            out += t[i:i + m.start()] + 'LAYER'
            j, depth = i + m.end(), 1
            while j < len(t) and depth:
                depth += {'(': 1, ')': -1}.get(t[j], 0)
                j += 1
            i = j
    vcalls = [e for e in final.st.events if e[0] == 'call' and re.search(r'config::validate_\w+$', e[1])]
    for r in regions:
        for _d, ev, _row, _x in r.rows:
            vcalls += [e for e in ev if e[0] == 'call' and re.search(r'config::validate_\w+$', e[1])]
    seen_v = set()
    for e in vcalls:
        vn = short(e[1]).split('::')[-1]
        if vn == 'validate_deprecated':
            continue
        for ai, x in enumerate(e[7]):
            full = vshow(x)
            if (vn, ai, full) in seen_v:
                continue
            seen_v.add((vn, ai, full))
            inst = 'validator:%s#%d' % (vn, ai)
            if re.fullmatch(r'call:Tui(Theme|Bindings)::from\(.*\)', full):
                chk.ok('R2v', inst, 'per-item layered value (R3)', nontrivial=False)
                continue
            rest = strip_layers(full)
            raw = [m_ for m_ in re.findall(r'\bargs\.(\w+)', rest) if m_ in used_args] + ['[%s]' % m_ for m_ in re.findall(r'\bfile\.(\w+)', rest)]
            if raw:
                chk.fail('R2v', inst, '%s:%d' % (fb['span']['file'], e[3][1]), '%s is given %s: the un-layered source of option %s — a value for it that comes from the other source '
                         '(config file / command line) takes effect without being validated' % (vn, full[:100], raw[0]), key='R2v|%s|%s' % (vn, raw[0]))
            else:
                chk.ok('R2v', inst, rest[:70])

    # ---- R2d derived tables ---------------------------------------------------------------------------------------
    def rows_of(name):
        r = tables.get(name)
        if r is None:
            chk.fail('R2d', name, fn_loc(fb), 'no decision table found for derived option %s' % name, key='R2d|%s|missing' % name)
            return None, None
        return r, [([(vshow(a), v) for a, v, _ in d], vshow(row[name]), ev) for d, ev, row, _ in r.rows]

    def layered(opt_name):
        for k, (o, d, h) in layer_of.items():
            if o == opt_name:
                return k
        return None

    def name_table(name, opt_name, cfg_adt, flags, suffix_strip=''):
        r, rows = rows_of(name)
        if rows is None:
            return
        lay = layered(opt_name)
        cvars = prog.variant_names(cfg_adt)
        ok = True
        why = ''
        seen_variants = set()
        for d, val, ev in rows:
            dd = dict(d)
            fl = [(f_, dd.get('args.' + f_)) for f_ in flags]
            on = [f_ for f_, v in fl if v == 1]
            res = val.split('::')[-1]
            if on:
                # the first flag that is set on this row decides
                want = flags[on[0]]
                if res != want:
                    ok, why = False, 'with --%s the result is %s' % (on[0], val)
            else:
                if any(v is None for _, v in fl):
                    ok, why = False, 'a row without a set flag does not test all of %s' % list(flags)
                dv = [v for a, v in d if a == 'discr(%s)' % lay and not isinstance(v, tuple)]
                if not dv:
                    ok, why = False, 'the no-flag rows do not switch on the layered %s' % opt_name
                    continue
                cn = cvars[dv[-1]]
                seen_variants.add(cn)
                if norm(res).replace(suffix_strip, '') != norm(cn).replace(suffix_strip, ''):
                    ok, why = False, 'layered value %s maps to %s' % (cn, val)
        if ok and seen_variants != set(cvars):
            ok, why = False, 'variants %s of the layered value are not mapped' % sorted(set(cvars) - seen_variants)
        if ok:
            chk.ok('R2d', name, '%d rows: shortcut flags override, otherwise the layered %s maps by name' % (len(rows), opt_name))
        else:
            chk.fail('R2d', name, fn_loc(fb), 'derived option %s: %s' % (name, why), key='R2d|%s' % name)
    name_table('protocol', 'protocol', 'trippy_tui::config::ProtocolConfig', {'udp': 'Udp', 'tcp': 'Tcp', 'icmp': 'Icmp'})
    name_table('addr_family', 'addr_family', 'trippy_tui::config::AddressFamilyConfig', {'ipv4': 'Ipv4Only', 'ipv6': 'Ipv6Only'}, suffix_strip='only')
    name_table('multipath_strategy', 'multipath_strategy', 'trippy_tui::config::MultipathStrategyConfig', {})
    name_table('dns_resolve_method', 'dns_resolve_method', 'trippy_tui::config::DnsResolveMethodConfig', {})
    for name, opt_name, on, off in (('privilege_mode', 'unprivileged', 'PrivilegeMode::Unprivileged', 'PrivilegeMode::Privileged'),
                                    ('icmp_extension_parse_mode', 'icmp_extensions', 'IcmpExtensionParseMode::Enabled', 'IcmpExtensionParseMode::Disabled')):
        r, rows = rows_of(name)
        if rows is None:
            continue
        lay = layered(opt_name)
        got = {(d[0][0] == lay, d[0][1]): val for d, val, ev in rows if len(d) == 1}
        if got == {(True, 1): on, (True, 0): off}:
            chk.ok('R2d', name, 'layered --%s: true → %s' % (opt_name, on))
        else:
            chk.fail('R2d', name, fn_loc(fb), 'derived option %s is %s' % (name, [(d, v) for d, v, _ in rows]), key='R2d|%s' % name)
    # max_rounds
    r, rows = rows_of('max_rounds')
    if rows is not None:
        lay = layered('mode')
        mv = prog.variant_names('trippy_tui::config::Mode')
        rc = layered('report_cycles')
        # a decision on an intermediate bool (`let runs_forever = matches!(mode, ..)`) is resolved through that local's own table
        exp_rows = []
        for d, val, ev in rows:
            alts = [list(d)]
            for a, v in d:
                m_ = re.fullmatch(r'match:(\w+)', a)
                if m_ and isinstance(v, int) and tables.get(m_.group(1)) is not None:
                    _r2, rows2 = rows_of(m_.group(1))
                    alts = [x + list(d2) for x in alts for d2, val2, _e2 in rows2 if val2 == str(v)]
            exp_rows += [(x, val) for x in alts]
        ok = bool(exp_rows)
        for mi, mname in enumerate(mv):
            # the rows this mode can take: decided as this variant, or "none of S" with the variant outside S
            got = set()
            for d, val in exp_rows:
                dv = [v for a, v in d if a == 'discr(%s)' % lay]
                if dv and all((v == mi) if not isinstance(v, tuple) else (v[0] == 'ne' and mi not in set(v[1])) for v in dv):
                    got.add(val)
            want = 'Option::None' if mname in ('Tui', 'Stream') else 'Option::Some(%s)' % rc
            if got != {want}:
                ok = False
        if ok:
            chk.ok('R2d', 'max_rounds', 'None for tui / stream, Some(layered report-cycles) for the %d report modes' % (len(mv) - 2))
        else:
            chk.fail('R2d', 'max_rounds', fn_loc(fb), 'max_rounds is %s' % [(d, v) for d, v, _ in rows], key='R2d|max_rounds')
    # tui_max_addrs: applied to the layered value (evaluated on the three input classes None / Some(0) / Some(n>0))
    r, rows = rows_of('tui_max_addrs')
    if rows is not None:
        lay = layered('tui_max_addrs')
        F0 = 'field:0(%s)' % lay

        def ev_atom(a, inp):
            """value of a decision atom for the layered input inp (None or an int); None if the atom is not understood"""
            if a == 'discr(%s)' % lay:
                return 0 if inp is None else 1
            if a in ('is_some(%s)' % lay,):
                return 0 if inp is None else 1
            if a == F0:
                return inp
            m = re.fullmatch(r'(Gt|Ge|Lt|Le|Eq|Ne)\((.*), (.*)\)', a)
            if m:
                def opv(x):
                    return inp if x == F0 else (int(x) if re.fullmatch(r'\d+', x) else None)
                l, r_ = opv(m.group(2)), opv(m.group(3))
                if l is None or r_ is None:
                    return None
                return int({'Gt': l > r_, 'Ge': l >= r_, 'Lt': l < r_, 'Le': l <= r_, 'Eq': l == r_, 'Ne': l != r_}[m.group(1)])
            return None
        res = {}
        okm = lay is not None
        for inp in (None, 0, 7):
            hit = []
            for d, val, ev in rows:
                good = True
                for a, v in d:
                    x = ev_atom(a, inp)
                    if x is None and not (inp is None and F0 in a):
                        good = None
                        break
                    if x is None:
                        continue
                    if isinstance(v, tuple):
                        if x in v[1]:
                            good = False
                    elif x != v:
                        good = False
                    if not good:
                        break
                if good is None:
                    okm = False
                if good:
                    hit.append(val)
            res[inp] = sorted(set(hit))
        want = {None: ['Option::None'], 0: ['Option::None'], 7: ['Option::Some(%s)' % F0]}
        if okm and (res == want or res == dict(want, **{7: [lay]})):
            chk.ok('R2d', 'tui_max_addrs', 'the layered value n maps to Some(n) if n > 0, else auto')
        else:
            chk.fail('R2d', 'tui_max_addrs', fn_loc(fb), 'tui_max_addrs: the "0 means auto" rule must be applied to the layered value (command line first); found None→%s, Some(0)→%s, Some(n>0)→%s' % (
                res.get(None), res.get(0), res.get(7)), key='R2d|tui_max_addrs')
    # port_direction
    r, rows = rows_of('port_direction')
    if rows is not None:
        sp, tp, ms = layered('source_port'), layered('target_port'), layered('multipath_strategy')
        pv = prog.variant_names('trippy_core::config::Protocol')
        got = {}
        for d, val, ev in rows:
            dd = {}
            for a, v in d:
                dd.setdefault(a, []).append(v)
            p = [v for v in dd.get('discr(match:protocol)', []) if not isinstance(v, tuple)]
            pn = pv[p[-1]] if p else 'other'
            s_ = [v for v in dd.get('discr(%s)' % sp, []) if not isinstance(v, tuple)]
            t_ = [v for v in dd.get('discr(%s)' % tp, []) if not isinstance(v, tuple)]
            m_ = [v for v in dd.get('discr(%s)' % ms, []) if not isinstance(v, tuple)]
            val2 = val.replace('field:0(%s)' % sp, 'SRC').replace('field:0(%s)' % tp, 'DST')
            val2 = re.sub(r'field:0\(call:config::validate_source_port\(SRC\)\)', 'SRC', val2)
            got[(pn, s_[-1] if s_ else None, t_[-1] if t_ else None, m_[-1] if m_ else None)] = (val2, any(e[0] == 'call' and e[1].endswith('validate_source_port') for e in ev))
        exits = [[(vshow(a), v) for a, v, _ in o.st.decisions[r.base_decisions:]] for o in r.exits]
        want = {('Icmp', None, None, None): 'PortDirection::None',
                ('Udp', 0, 0, None): 'call:PortDirection::new_fixed_src(Max(pid, 1024))', ('Udp', 1, 0, None): 'call:PortDirection::new_fixed_src(SRC)',
                ('Tcp', 0, 0, None): 'call:PortDirection::new_fixed_dest(80)', ('Tcp', 1, 0, None): 'call:PortDirection::new_fixed_src(SRC)',
                ('Udp', 0, 1, None): 'call:PortDirection::new_fixed_dest(DST)', ('Tcp', 0, 1, None): 'call:PortDirection::new_fixed_dest(DST)',
                ('Udp', 1, 1, 1): 'call:PortDirection::new_fixed_both(SRC, DST)', ('Udp', 1, 1, 2): 'call:PortDirection::new_fixed_both(SRC, DST)'}
        # a row for "none of the three protocols" is infeasible (the engine prunes it when it knows the enum): not part of the table either way
        gv = {k: v[0] for k, v in got.items() if k[0] != 'other'}
        if gv == want:
            chk.ok('R2d', 'port_direction', '%d rows as documented; %d rejecting exits' % (len(got), len(r.exits)))
        else:
            diff = {k: (gv.get(k), want.get(k)) for k in set(gv) | set(want) if gv.get(k) != want.get(k)}
            chk.fail('R2d', 'port_direction', fn_loc(fb), 'port direction table differs (found, expected) on (protocol, source port given, target port given, strategy): %s' % diff, key='R2d|port_direction')

    # ---- R3 theme / bindings ------------------------------------------------------------------------------------------
    OPQ = re.compile(r'Option::<T>::(or|unwrap_or|as_ref)$|HashMap::<.*>::get$')

    def opaque_opt(eng_, callee, t, args, s_, fn, fid_):
        if OPQ.search(callee):
            return [(eng_.opaque_call(callee, t, args, s_), s_)]
    for rx, item, suffix in ((r'TuiTheme as .*HashMap.*>::from$', 'TuiThemeItem', 'color'), (r'TuiBindings as .*HashMap.*>::from$', 'TuiCommandItem', '')):
        f = prog.find(rx)
        chk.fn_seen(f['path'])
        e3 = Engine(prog, inline_depth=0, summaries=[opaque_opt])
        st = St()
        o3 = [o for o in e3.run(f, [('sym', 'value')], st) if o.kind == 'return']
        if len(o3) != 1:
            chk.fail('R3', short(f['path']), fn_loc(f), 'cannot evaluate %s to a single value' % short(f['path']), key='R3|%s|eval' % item)
            continue
        v = o3[0].value
        names = [x['name'] for x in prog.adt(v[1])['variants'][0]['fields']]
        tname = v[1].split('::')[-1]
        seen_items = set()
        for n, x in zip(names, v[4]):
            sv = vshow(x)
            m = re.fullmatch(r'call:Option::unwrap_or\(call:Option::or\(call:HashMap::get\(value\.0, %s::(\w+)\), call:Option::as_ref\(value\.1\.(\w+)\)\), field:(\w+)\(call:%s::default\(\)\)\)' % (item, tname), sv)
            inst = '%s.%s' % (tname, n)
            if not m:
                chk.fail('R3', inst, fn_loc(f), '%s.%s is %s: expected items.get(item).or(file entry).unwrap_or(default field)' % (tname, n, sv[:200]), key='R3|%s|shape' % inst)
                continue
            it, g, dflt = m.groups()
            seen_items.add(it)
            if norm(it) == norm(g) == norm(n + suffix) and dflt == n:
                chk.ok('R3', inst, 'command line %s > file %s > default.%s' % (it, g, dflt))
            else:
                chk.fail('R3', inst, fn_loc(f), '%s.%s is taken from the command-line item %s, the file entry %s and the default of `%s`: these name different items' % (tname, n, it, g, dflt), key='R3|%s|names' % inst)
        items = {i_ for i_ in prog.variant_names([k for k in prog.adts if k.endswith('::' + item)][0]) if not i_.startswith('Deprecated')}
        if items != seen_items:
            chk.fail('R3', '%s:items' % tname, fn_loc(f), 'items %s are never consulted / unknown' % sorted(items ^ seen_items), key='R3|%s|items' % tname)
        else:
            chk.ok('R3', '%s:items' % tname, 'all %d items consulted once' % len(items))

    # ---- R4 documented defaults --------------------------------------------------------------------------------------
    unchecked = []
    for n, x in args_fields.items():
        m = re.findall(r'\[default: ([^\]]*)\]', x.get('doc') or '')
        if not m:
            continue
        doc = m[0].strip()
        inst = 'default:%s' % n
        lay = [(o, d, h) for (o, d, h) in layer_of.values() if o == n]
        if not lay:
            unchecked.append('%s (not layered)' % n)
            continue
        _, dterm, helper = lay[0]
        if helper == 'cfg_layer_opt':
            if doc in ('auto', 'none'):
                chk.ok('R4', inst, 'documented `%s`: layered without a default' % doc)
            else:
                unchecked.append('%s: documented default `%s` of an option layered without default (applied elsewhere)' % (n, doc))
            continue
        actual = None
        if re.fullmatch(r'-?\d+', dterm):
            actual = dterm
            if x['ty'] == 'bool':
                actual = 'true' if dterm == '1' else 'false'
        elif re.fullmatch(r'[\w:]+::(\w+)', dterm) and '(' not in dterm and not dterm.startswith('const '):
            actual = kebab(dterm.split('::')[-1])
        elif dterm.startswith('const '):
            cpath = dterm[6:].strip()
            c = prog.consts.get(cpath)
            if c and c['ty'] == 'core::time::Duration' and c.get('pbytes'):
                b = bytes.fromhex(c['pbytes'])
                actual = int.from_bytes(b[0:8], 'little') * 10 ** 9 + int.from_bytes(b[8:12], 'little')
                docv = parse_duration(doc)
                if docv is None:
                    unchecked.append('%s: cannot parse documented duration `%s`' % (n, doc))
                    continue
                doc = docv
        elif re.fullmatch(r'call:String::from\(str\((.*)\)\)', dterm):
            actual = re.fullmatch(r'call:String::from\(str\((.*)\)\)', dterm).group(1)
        else:
            mm = re.fullmatch(r'call:(\w+)::from\(const:([\w:]+)\((\d+)\)\)', dterm) or re.fullmatch(r'call:\w+::(is_\w+)\(const:([\w:]+)\((\d+)\)\)', dterm)
            m2 = re.fullmatch(r'call:\w+::(from|is_\w+)\([\w:]*?(\w+)::(\w+)\)', dterm)
            if m2 and not mm:
                actual = kebab(m2.group(3)) if m2.group(1) == 'from' else ('true' if norm(m2.group(1)[3:]) == norm(m2.group(3)) else 'false')
            if mm:
                vn = prog.variant_names(mm.group(2))[int(mm.group(3))]
                if mm.group(1).startswith('is_'):
                    actual = 'true' if norm(mm.group(1)[3:]) == norm(vn) else 'false'
                else:
                    actual = kebab(vn)
        if actual is None:
            unchecked.append('%s: default term %s' % (n, dterm[:60]))
            continue
        if str(actual) == str(doc):
            chk.ok('R4', inst, 'documented %s = default used' % m[0])
        else:
            chk.fail('R4', inst, '%s' % (x.get('span', {}).get('file', 'crates/trippy-tui/src/config/cmd.rs')), 'option `%s` documents [default: %s] but the default used when neither the command line nor the file gives it is `%s`' % (
                n.replace('_', '-'), m[0], actual if not isinstance(actual, int) else '%dns' % actual), key='R4|%s' % n)
    chk.extra['defaults_unchecked'] = unchecked

    # ---- R5 builder -----------------------------------------------------------------------------------------------------
    from .wire_cells import builder_accepts, all_cells, Cell, CFG as CFGP, PORT
    fbuild = prog.find(r'builder::Builder::build$')
    chk.fn_seen(fbuild['path'])
    e5 = Engine(prog, inline_depth=0)
    accept = {}
    for proto in ('Icmp', 'Udp', 'Tcp'):
        for dirn in ('None', 'FixedSrc', 'FixedDest', 'FixedBoth'):
            for strat in ('Classic', 'Paris', 'Dublin'):
                st = St()
                names = {'FixedSrc': ['s'], 'FixedDest': ['d'], 'FixedBoth': ['s', 'd'], 'None': []}[dirn]
                pd = e5.adt_val(CFGP + 'PortDirection', dirn, [e5.adt_val(PORT, 'Port', [('sym', x_)]) for x_ in names])
                selfv = ('rec', 'self', {'protocol': e5.adt_val(CFGP + 'Protocol', proto), 'multipath_strategy': e5.adt_val(CFGP + 'MultipathStrategy', strat), 'port_direction': pd})
                o5 = e5.run(fbuild, [selfv], st)
                kinds = {('ok' if vshow(o.value).startswith('Result::Ok') else 'err') if o.kind == 'return' else o.kind for o in o5}
                accept[(proto, strat, dirn)] = 'ok' in kinds
                if kinds - {'ok', 'err'}:
                    chk.fail('R5', 'build[%s,%s,%s]' % (proto, strat, dirn), fn_loc(fbuild), 'Builder::build has a %s trace' % sorted(kinds - {'ok', 'err'}), key='R5|build|%s,%s,%s|panic' % (proto, strat, dirn))
    for k, acc in sorted(accept.items()):
        mirror = builder_accepts(k[0], k[1], k[2], 'V4', 'Privileged')
        inst = 'accept[%s,%s,%s]' % k
        if acc == mirror:
            chk.ok('R5', inst, 'accepted' if acc else 'rejected', nontrivial=acc)
        else:
            chk.fail('R5', inst, fn_loc(fbuild), 'Builder::build %s (%s, %s, %s) but the per-cell analyses assume it is %s' % ('accepts' if acc else 'rejects', k[0], k[1], k[2], 'accepted' if mirror else 'rejected'),
                     key='R5|accept|%s,%s,%s' % k)
    run_sub(chk, 'c07', 'C07.', {'R4'})
    # the limits stay the configured ones for the whole run: the State built by `new` and rebuilt by `clear` gets each StateConfig field from
    # the tracer parameter of the same name
    run_sub(chk, 'c20', 'C20.', {'O6'})
    from .c10 import builder_rejects_zero_first_ttl
    if builder_rejects_zero_first_ttl(prog):
        chk.ok('R5', 'first_ttl>=1', 'Builder::build rejects first_ttl < 1 (the aggregator indexes hops by ttl − 1)')
    else:
        chk.fail('R5', 'first_ttl>=1', fn_loc(fbuild), 'Builder::build accepts first_ttl = 0, which the aggregator turns into the index ttl − 1', key='R5|first_ttl')

    # ---- R6 explicit panics per cell ----------------------------------------------------------------------------------------
    for k in all_cells():
        c = Cell(prog, *k)
        acc = accept.get((k[0], k[1], k[2]), False)
        inst = 'cell' + c.name()
        pr = c.issue_probe()
        def explicit(o):
            sp = o.site[2] if o.site and len(o.site) > 2 and isinstance(o.site[2], dict) else {}
            return bool(re.search(r'"(\$crate::)?(unimplemented|unreachable|todo|panic|unreachable_display|panic_display)"', sp.get('mac') or '')) or not sp.get('exp')
        pans = [o for o in c.probe_panics if explicit(o)]
        where = ['%s' % short(o.site[0]) for o in pans if o.site]
        if pr is not None:
            c.dispatch()
            dp = [o for o in c.dispatch_outs if o.kind == 'panic' and not (o.value and o.value[0] == 'assert') and explicit(o)]
            pans += dp
            where += ['%s' % short(o.site[0]) for o in dp if o.site]
        if not acc:
            chk.ok('R6', inst, 'rejected by Builder::build' + (' (would panic in %s)' % sorted(set(where)) if where else ''), nontrivial=False)
        elif pans:
            chk.fail('R6', inst, fn_loc(fbuild), 'configuration %s passes Builder::build but issuing / dispatching a probe reaches an explicit panic in %s' % (c.name(), sorted(set(where))),
                     key='R6|panic|%s' % c.name())
        else:
            chk.ok('R6', inst, 'accepted; no explicit panic on issue + dispatch')


    # ---- R7 send path / state machine audit ----------------------------------------------------------------------------------
    import json as _json
    import os as _os
    from ..callgraph import CallGraph
    from ..vra import Lin
    from .c04 import audit_scope, roots_and_scope
    run_sub(chk, 'c07', 'C07.', {'R2', 'R3', 'R5', 'R6'})
    cg = CallGraph(prog)
    roots = [prog.find(r'strategy::Strategy::run$')['path'], prog.find(r'tracer::Tracer::run$')['path']]
    stop = {p_ for p_ in prog.fns if '::tests::' in p_ or 'trippy_core::net::platform::' in p_ or prog.fns[p_]['crate'] == 'tui'}
    scope = {p_ for p_ in cg.reachable(roots, stop=stop) if prog.fns[p_]['crate'] in ('core', 'packet')}
    scope = {p_ for p_ in scope if not (prog.fns[p_]['span']['exp'] and re.match(r'core::ops::(arith|bit)::', prog.fns[p_].get('trait_item') or ''))}
    _, s4 = roots_and_scope(prog, cg)
    scope = {p_ for p_ in scope - set(s4) if not prog.fns[p_].get('derived') and not re.search(r'trippy_core::state::|trippy_core::flows::|<trippy_core::(state|flows)::', p_)}
    MAXTTL = prog.const_val('trippy_core::constants::MAX_TTL')
    BS = prog.const_val('trippy_core::strategy::state::BUFFER_SIZE')
    MAXINIT = prog.const_val('trippy_core::constants::MAX_INITIAL_SEQUENCE')
    layout = _json.load(open(_os.path.join(_os.path.dirname(_os.path.abspath(__file__)), '..', '..', '..', 'spec', 'rfc_layout.json')))
    mins = {k.split('::')[-1]: v['min'] for k, v in layout.items() if isinstance(v, dict) and 'min' in v and k.split('::')[1] in ('ipv4', 'ipv6', 'udp', 'tcp', 'icmpv4')}

    def min_size(name):
        m = re.match(r'call:(\w+)::minimum_packet_size\(\)$', name)
        v = mins.get(m.group(1)) if m else None
        return (v, v)
    hints = [(r'(^|\.)ttl(\.0)?$', 1, MAXTTL + 1), (r'first_ttl(\.0)?$', 1, MAXTTL), (r'max_ttl(\.0)?$', 0, MAXTTL), (r'initial_sequence(\.0)?$', 0, MAXINIT),
             (r'^field:0\(.*(max_received_ttl|target_ttl)\)(\.0)?$', 0, MAXTTL), (r'^call:\w+::minimum_packet_size\(\)$', min_size, None), (r'^call:NonZero::get\(', 1, None)]
    chk.assumptions += ['view minimum sizes = RFC minimum header sizes (C12)', 'builder ranges: 1 ≤ first_ttl ≤ MAX_TTL, max_ttl ≤ MAX_TTL, initial_sequence ≤ MAX_INITIAL_SEQUENCE (R5)',
                        'state machine: round_sequence ≤ sequence, initial_sequence ≤ sequence (C07.R2 / R5, imported)']

    def inv7(P):
        out = []
        for n in list(P.atoms):
            m = re.fullmatch(r'(.*)\.sequence(\.0)?', n)
            if m:
                for rs in ('%s.round_sequence' % m.group(1), '%s.round_sequence.0' % m.group(1)):
                    if rs in P.atoms:
                        out.append(Lin(0, {n: 1, rs: -1}))
                for ini in [a for a in P.atoms if re.search(r'initial_sequence(\.0)?$', a)]:
                    out.append(Lin(0, {n: 1, ini: -1}))
        return out
    ALLOW7 = [
        (r'TracerState::next_probe$', 'BoundsCheck', 'index', 'buffer[sequence − round_sequence]: < BUFFER_SIZE — TCP by the round_has_capacity() guard that precedes every issue (C07.R3, imported), ICMP / UDP because a round issues one sequence per ttl ≤ MAX_TTL < BUFFER_SIZE (C06.R1 / R4)'),
        (r'TracerState::(fail_probe|reissue_probe)$', 'Overflow:Sub', 'Sub usize', 'sequence − round_sequence − 1: called only directly after next_probe / reissue_probe issued a probe in this round (C07.R3 call-order rule, C09.R4 failure tables)'),
        (r'TracerState::(fail_probe|reissue_probe)$', 'BoundsCheck', 'index', 'index of the probe just issued (see the entry above)'),
        (r'TracerState::probes$', 'slice-index', '', 'buffer[..sequence − round_sequence]: at most BUFFER_SIZE sequences per round (C07.R3)'),
        (r'TracerState::advance_round$', 'arith-trait', 'add_assign', 'round counter += 1 per round (usize)'),
        (r'within:TracerState::probe_udp_data$', 'Overflow:Add', 'Add usize', 'initial_sequence (u16) + round counter in usize'),
        (r'within:Strategy::send_request$', 'arith-trait', 'sub', 'ttl − max_received_ttl: only probes issued with ttl − 1 of an earlier value of ttl are ever completed, so max_received_ttl < ttl (C03.R4 transition table, C06.R2 ttl effects)'),
        (r'InternalBitFlags::all$', 'BoundsCheck', 'index', 'bitflags!-generated: constant indices into the constant FLAGS table'),
        (r'within:checksum::ipv6_checksum$', 'Overflow:Add', 'Add u32', 'pseudo-header words + length (≤ 1024 on this path) + word sum (< 2^26) cannot reach 2^32'),
        (r'within:checksum::ipv4_checksum$', 'Overflow:Add', 'Add u32', 'pseudo-header words + length (≤ 1024 on this path) + word sum (< 2^26) cannot reach 2^32'),
        (r'checksum::sum_be_words$', 'Overflow:Add', 'Add u32', 'u32 sum of 16-bit words of a packet of at most MAX_PACKET_SIZE octets'),
        (r'checksum::sum_be_words$', 'Overflow:Add', 'Add usize', 'word counter i ≤ len/2'),
        (r'Ipv4Packet::set_payload$', 'slice-index', '', 'buf[20 + options..]: make_ipv4_packet sets IHL = 5 before set_payload and sizes the buffer as 20 + payload (C11.R1 setter order, C11.R2 length equalities)'),
        (r'Channel::dispatch_tcp_probe$', 'api', 'remove', 'ArrayVec::remove(0) on a full (hence non-empty) list (tcp_probes:capacity rule below)'),
        (r'Channel::dispatch_tcp_probe$', 'api', 'push', 'ArrayVec::push after the is_full() eviction (tcp_probes:capacity rule below)'),
        (r'Ipv4::make_ipv4_packet$', 'slice-index', '', 'ipv4_buf[..20 + |payload|] of a MAX_PACKET_SIZE buffer: the inner packet is packet_size − 20 octets under the MIN..=MAX_PACKET_SIZE guard (C11.R2 length equalities, C11.R4 size guards), the Paris payload is 2 octets'),
        (r'Ipv6::make_udp_packet$', 'slice-index', '', 'udp_buf[..8 + |payload|] of a MAX_PACKET_SIZE − 40 buffer: |payload| = packet_size − 48 under the size guard, 2 for Paris, MAGIC + offset for Dublin (C11.R2 / R4, C07.R6)'),
        (r'within:Ipv6::dispatch_udp_probe_raw$', 'slice-index', '', 'dublin_payload[..MAGIC + (sequence − initial_sequence)], in the function or in a helper it hands the buffer to: proved at the site by C07.R6 (imported) under the round bound offset ≤ BUFFER_SIZE − 1 + MAX_TTL'),
        (r'within:Ipv[46]::dispatch_udp_probe_raw$||!ctx', 'BoundsCheck', 'index', 'payload()[0..2] of the Paris datagram, whose payload is the 2-octet sequence (C11.R3 Paris pair)'),
    ]
    audit_scope(chk, prog, cg, roots, scope, tier, 'R7', 'R7t', ALLOW7, [], hints=hints, invariants=[inv7],
                loop_allow=[(r'Strategy::run$', 'the tracing loop: runs until finished(max_rounds) (C09.R1) or an error')])
    # the pending TCP connection list
    fpush = prog.find(r'net::channel::Channel<S>::dispatch_tcp_probe$|Channel::<S>::dispatch_tcp_probe$', unique=False) or [f_ for p_, f_ in prog.fns.items() if re.search(r'Channel.*::dispatch_tcp_probe$', p_)]
    for f_ in fpush[:1]:
        e7 = Engine(prog, inline_depth=0)
        st7 = St()
        outs7 = e7.run(f_, [e7.sym_ref(st7, 'self'), ('sym', 'probe')], st7)
        bad7 = None
        n7 = 0
        for o_ in outs7:
            cs = [short(c[1]) for c in user_calls(o_, r'arrayvec::.*::(push|remove|is_full|try_push|pop|clear|truncate)$')]
            if not any(x.endswith('::push') for x in cs):
                continue
            n7 += 1
            d7 = dict((vshow(a), v) for a, v, _ in o_.st.decisions)
            full = [v for a, v in d7.items() if re.fullmatch(r'call:ArrayVec::is_full\(.*tcp_probes.*\)', a)]
            evicted = any(x.endswith('::remove') or x.endswith('::pop') for x in cs[:cs.index([x for x in cs if x.endswith('::push')][0])])
            if not full or (full[-1] == 1 and not evicted):
                bad7 = 'pushes onto tcp_probes %s' % ('without testing is_full()' if not full else 'while full without evicting an entry')
        if bad7 or not n7:
            chk.fail('R7', 'tcp_probes:capacity', fn_loc(f_), 'Channel::dispatch_tcp_probe %s: ArrayVec::push panics at capacity, which short rounds against a target that drops SYNs reach within tcp_connect_timeout' % (bad7 or 'has no push trace (anchor lost)'),
                     key='R7|tcp_probes|capacity')
        else:
            chk.ok('R7', 'tcp_probes:capacity', 'every push is preceded by is_full() → evict the oldest pending connection (%d traces)' % n7)
