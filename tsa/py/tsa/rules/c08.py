"""C08 — rounds end exactly when the timing policy says.

Decides (DESIGN §4 C08): R1 the publish decision table of `Strategy::update_round` over the four policy atoms
equals (min ∧ grace ∧ found) ∨ max on all 16 rows (the 4 rows max ∧ ¬min are don't-care: impossible for min ≤ max), atoms identified by operand provenance; `exceeds` is
`Some(start) ∧ end − start > dur`; the three state getters return the fields they are named after.
R2 completion reason = TargetFound iff target_found(). R3 advance_round follows publish_trace on exactly the
publishing traces and resets round_start to a fresh SystemTime::now(). R4 loop shape of Strategy::run. R5 recv_response performs at most one read of the network and has no loop, so the policy is
re-evaluated after every read timeout at the latest. R1p rounds are published only through update_round: every call chain to publish_trace passes through it (private helpers on the
way are inlined into the R1 table). R6 the durations the policy compares are the configured ones: StrategyConfig takes every field from the tracer field of the same name, unchanged.
Not decided: the real-time bound (platform poll + send latency), the clock itself.
"""
import re

from .common import *
from ..tables import cdec,  Atom, check_decision_table

LEVEL = 'other'

DUR = r'unwrap_or_default\(call:SystemTime::duration_since\(now, call:TracerState::round_start\(st\)\)\)'


def run(chk, tier):
    prog = program(crates=('core',))
    chk.explanation = __doc__
    # what the policy reads — received_time, target_found — is written by complete_probe exactly as the transition table says (C03.R4, imported)
    from ..report import run_sub
    run_sub(chk, 'c03', 'C03.', {'R4'})
    chk.assumptions += ['tracing macros have no effect on program state (their branches are not followed)',
                        'SystemTime::now is the only clock; Duration ordering is std\'s']
    eng0 = Engine(prog, inline_depth=0)
    eng = Engine(prog, inline_depth=3)

    # ---- R1: decision table of update_round ------------------------------------------------------------
    chk.rule('R1', 'publish decision of update_round == (min ∧ grace ∧ found) ∨ max over 16 rows', floor=12)
    f = prog.find(r'Strategy::update_round$')
    chk.fn_seen(f['path'])
    st = St()
    # private free helpers of the module (e.g. an extracted `elapsed(start, end)`) are part of the expression being decided: inlined; the named
    # predicate `exceeds` (R1e) and every method stay opaque
    # … and so are private methods of Strategy through which update_round reaches publish_trace (an extracted `complete_round`)
    from ..callgraph import CallGraph
    cg8 = CallGraph(prog)
    fpub = prog.find(r'Strategy::publish_trace$')
    to_pub = {c for c in prog.fns if re.search(r'::strategy::Strategy::<', c) and c != fpub['path'] and c != f['path'] and fpub['path'] in cg8.reachable([c])} if hasattr(cg8, 'reachable') else set()
    engu = Engine(prog, inline_depth=2, inline_filter=lambda c: (bool(re.fullmatch(r'trippy_core::strategy::\w+', c)) and not c.endswith('::exceeds')) or c in to_pub)
    outs = engu.run(f, [engu.sym_ref(st, 'self'), engu.sym_ref(st, 'st')], st)
    cfgf = lambda n: r'self\.config\.%s' % n
    atoms = [
        Atom('min', r'Gt\(%s, %s\)' % (DUR, cfgf('min_round_duration')) + '|' + r'Lt\(%s, %s\)' % (cfgf('min_round_duration'), DUR),
             r'Le\(%s, %s\)' % (DUR, cfgf('min_round_duration')) + '|' + r'Ge\(%s, %s\)' % (cfgf('min_round_duration'), DUR)),
        Atom('grace', r'call:strategy::exceeds\(call:TracerState::received_time\(st\), now, %s\)' % cfgf('grace_duration')),
        Atom('max', r'Gt\(%s, %s\)' % (DUR, cfgf('max_round_duration')) + '|' + r'Lt\(%s, %s\)' % (cfgf('max_round_duration'), DUR),
             r'Le\(%s, %s\)' % (DUR, cfgf('max_round_duration')) + '|' + r'Ge\(%s, %s\)' % (cfgf('max_round_duration'), DUR)),
        Atom('found', r'call:TracerState::target_found\(st\)'),
    ]
    publishes = lambda o: bool(user_calls(o, r'Strategy::<F>::publish_trace$'))
    check_decision_table(chk, 'R1', 'update_round', fn_loc(f), outs, atoms, publishes,
                         # rows with max ∧ ¬min cannot occur for min ≤ max (the property's quantifier): don't-care
                         lambda a: None if (a['max'] and not a['min']) else bool((a['min'] and a['grace'] and a['found']) or a['max']))

    chk.rule('R1g', 'state getters used by the policy return the fields they name', floor=3)
    check_getter(chk, 'R1g', eng, prog, r'TracerState::round_start$', 'round_start')
    check_getter(chk, 'R1g', eng, prog, r'TracerState::received_time$', 'received_time')
    check_getter(chk, 'R1g', eng, prog, r'TracerState::target_found$', 'target_found')

    chk.rule('R1e', 'exceeds(start,end,dur) == start.is_some() ∧ end.duration_since(start) > dur', floor=2)
    fe = prog.find(r'strategy::exceeds$')
    chk.fn_seen(fe['path'])
    st = St()
    outs = eng.run(fe, [('sym', 'start'), ('sym', 'end'), ('sym', 'dur')], st)
    want_some = r'Gt\(unwrap_or_default\(call:SystemTime::duration_since\(end, field:0\(start\)\)\), dur\)' \
                r'|Lt\(dur, unwrap_or_default\(call:SystemTime::duration_since\(end, field:0\(start\)\)\)\)'
    seen = set()
    for o in outs:
        dec = cdec(o)
        dec = {k: (0 if isinstance(v, tuple) else v) for k, v in dec.items()}
        val = vshow(o.value)
        if o.kind != 'return' or set(dec) != {'discr(start)'}:
            chk.fail('R1e', 'exceeds:shape', fn_loc(fe), 'exceeds() decides on something other than start.is_some(): %s' % dec,
                     key='R1e|shape')
            continue
        some = dec['discr(start)']
        seen.add(some)
        good = (val == '0') if not some else bool(re.fullmatch(want_some, val))
        if good:
            chk.ok('R1e', 'exceeds:some=%d' % some, val)
        else:
            chk.fail('R1e', 'exceeds:some=%d' % some, fn_loc(fe),
                     'exceeds() returns %s when start is %s; the policy needs %s' % (
                         val, 'Some' if some else 'None', 'end-start > dur' if some else 'false'),
                     key='R1e|some=%d' % some)
    if seen != {0, 1}:
        chk.fail('R1e', 'exceeds:coverage', fn_loc(fe), 'exceeds() does not distinguish None / Some', key='R1e|coverage')

    # ---- R1p: who may publish ------------------------------------------------------------------------------
    # the policy table above is worth nothing if a round can also be published from somewhere else: every call chain from the tracing loop to
    # publish_trace passes through update_round (directly, or through private helpers that only update_round calls)
    chk.rule('R1p', 'rounds are published only by update_round', floor=1)

    def only_from_update_round(p_, depth=0):
        if p_ == f['path']:
            return True
        if depth > 3:
            return False
        cs = [c for c in cg8.callers(p_) if '::tests::' not in c]
        return bool(cs) and all(only_from_update_round(c, depth + 1) for c in cs)
    bad_pub = [c for c in cg8.callers(fpub['path']) if '::tests::' not in c and not only_from_update_round(c)]
    if bad_pub:
        chk.fail('R1p', 'publishers', fn_loc(prog.fns[bad_pub[0]]), 'publish_trace is reachable from %s without passing through update_round: a round can be published outside the timing policy (min / grace / max)' % [short(c) for c in bad_pub],
                 key='R1p|publishers|%s' % ','.join(sorted(short(c) for c in bad_pub)))
    else:
        chk.ok('R1p', 'publishers', 'publish_trace ← %s only' % sorted(short(c) for c in cg8.callers(fpub['path'])))

    # ---- R6: the durations of the policy are the configured ones -------------------------------------------------
    chk.rule('R6', 'StrategyConfig is a name-preserving copy of the tracer\'s configuration', floor=1)
    from .plumbing import check_copy
    check_copy(chk, 'R6', prog, r'tracer::inner::TracerInner::make_strategy_config$', 'trippy_core::config::StrategyConfig', 'self')

    # ---- R2: completion reason -------------------------------------------------------------------------
    chk.rule('R2', 'completion reason is TargetFound iff target_found()', floor=2)
    fp = prog.find(r'Strategy::publish_trace$')
    chk.fn_seen(fp['path'])
    st = St()
    engp = Engine(prog, inline_depth=1, opaque=[r'TracerState::', r'Round::<\'a>::new', r'Round::new'])
    outs = engp.run(fp, [engp.sym_ref(st, 'self'), engp.sym_ref(st, 'state')], st)
    rows = set()
    for o in outs:
        if o.kind != 'return':
            chk.fail('R2', 'publish_trace:' + o.kind, fn_loc(fp), 'publish_trace has a %s trace' % o.kind, key='R2|' + o.kind)
            continue
        news = user_calls(o, r'Round::<.*>::new$|Round::new$')
        pubs = user_calls(o, r'function::Fn::call$')
        found = [v for a, v, _ in o.st.decisions if vshow(a) == 'call:TracerState::target_found(state)']
        if len(news) != 1 or len(pubs) != 1 or len(found) != 1:
            chk.fail('R2', 'publish_trace:shape', fn_loc(fp),
                     'publish_trace must build one Round and invoke the publish callback exactly once per trace '
                     '(Round::new x%d, publish x%d, target_found decisions %d)' % (len(news), len(pubs), len(found)),
                     key='R2|shape')
            continue
        reason = vshow(engp._deref_val(news[0][2][2], o.st))
        want = 'CompletionReason::TargetFound' if found[0] else 'CompletionReason::RoundTimeLimitExceeded'
        callee = vshow(engp._deref_val(pubs[0][2][0], o.st))
        rows.add(found[0])
        if reason == want and callee == 'self.publish':
            chk.ok('R2', 'reason:found=%d' % found[0], reason)
        else:
            chk.fail('R2', 'reason:found=%d' % found[0], fn_loc(fp),
                     'round published with reason %s via %s when target_found()=%d (expected %s via self.publish)' % (
                         reason, callee, found[0], want), key='R2|reason|%d' % found[0])
    if rows != {0, 1}:
        chk.fail('R2', 'reason:coverage', fn_loc(fp), 'publish_trace does not branch on target_found()', key='R2|coverage')

    # ---- R3: advance_round immediately follows publish_trace, and restarts the clock -------------------
    chk.rule('R3', 'advance_round follows publish_trace on the same traces; next round starts at publication', floor=3)
    st = St()
    outs = engu.run(f, [engu.sym_ref(st, 'self'), engu.sym_ref(st, 'st')], st)      # helpers on the way to publish_trace inlined: the pairing may sit in one
    for i, o in enumerate(outs):
        names = [short(c[1]) for c in user_calls(o)]
        pub = [j for j, n in enumerate(names) if n.endswith('publish_trace')]
        adv = [j for j, n in enumerate(names) if n.endswith('advance_round')]
        ok = (len(pub) == len(adv) <= 1) and (not pub or adv[0] == pub[0] + 1)
        inst = 'pairing:trace%d:%s' % (i, 'publishing' if pub else 'idle')
        if ok:
            chk.ok('R3', inst, names[-3:])
        else:
            chk.fail('R3', inst, fn_loc(f), 'publish_trace and advance_round are not paired back-to-back: %s' % names,
                     key='R3|pairing')
    fa = prog.find(r'TracerState::advance_round$')
    chk.fn_seen(fa['path'])
    st = St()
    enga = Engine(prog, inline_depth=1)
    outs = enga.run(fa, [enga.sym_ref(st, 'self'), ('sym', 'first_ttl')], st)
    for o in outs:
        w = [e for e in o.st.events if e[0] == 'write' and e[2] == 'round_start']
        if o.kind == 'return' and len(w) == 1 and re.fullmatch(r'now', vshow(w[0][3])):
            chk.ok('R3', 'round_start:%s' % len(o.st.decisions), 'round_start = SystemTime::now()')
        else:
            chk.fail('R3', 'round_start', fn_loc(fa), 'advance_round must set round_start to SystemTime::now() exactly once '
                     '(writes: %s)' % [vshow(x[3]) for x in w], key='R3|round_start')

    # ---- R4: loop shape of Strategy::run ---------------------------------------------------------------
    chk.rule('R4', 'every iteration of Strategy::run is send_request; recv_response; update_round', floor=3)
    fr = prog.find(r'strategy::Strategy::run$')
    chk.fn_seen(fr['path'])
    st = St()
    engr = Engine(prog, inline_depth=0, loop_visits=3)
    outs = engr.run(fr, [('sym', 'self'), ('sym', 'network')], st)
    seq_rx = re.compile(r'(new )?((finished send_request recv_response update_round )*)(finished( send_request( recv_response)?)? ?)?')
    nloops = 0
    for i, o in enumerate(outs):
        names = [short(c[1]).split('::')[-1] for c in user_calls(o, r'TracerState::(new|finished)$|Strategy::<F>::(send_request|recv_response|update_round)')]
        sq = ' '.join(names) + ' '
        m = seq_rx.fullmatch(sq)
        if 'update_round' in names:
            nloops += 1
        if m:
            chk.ok('R4', 'run:trace%d' % i, sq.strip()[-80:])
        else:
            chk.fail('R4', 'run:trace%d' % i, fn_loc(fr), 'Strategy::run does not follow send→recv→update per iteration: %s' % sq,
                     key='R4|shape')
    if not nloops:
        chk.fail('R4', 'run:loop', fn_loc(fr), 'no trace of Strategy::run reaches update_round', key='R4|noloop')

    # ---- R5: one bounded read per iteration --------------------------------------------------------------
    # "never held open longer than max-round-duration plus one read timeout": between two evaluations of the policy the loop blocks in at most
    # one Network::recv_probe call (which waits at most the read timeout), so recv_response may neither loop nor read twice
    chk.rule('R5', 'recv_response performs at most one (bounded) read and has no loop, so update_round runs once per read timeout', floor=2)
    from ..cfg import CFG
    frr = prog.find(r'strategy::Strategy::recv_response$')
    chk.fn_seen(frr['path'])
    back = CFG(frr).back_edges()
    if back:
        chk.fail('R5', 'recv_response:no-loop', fn_loc(frr), 'Strategy::recv_response loops: while responses that are not accepted keep arriving the round policy '
                 '(update_round) is not evaluated, so a round can be held open past its time limit', key='R5|recv_response|loop')
    else:
        chk.ok('R5', 'recv_response:no-loop', 'no back edge')
    st = St()
    engrr = Engine(prog, inline_depth=0, loop_visits=2)
    outs = engrr.run(frr, [('sym', 'self'), engrr.sym_ref(st, 'network'), engrr.sym_ref(st, 'st')], st)
    reads = [len(user_calls(o, r'::recv_probe$')) for o in outs]
    if outs and max(reads) <= 1 and all(o.kind in ('return',) for o in outs):
        chk.ok('R5', 'recv_response:one-read', '%d traces, at most one recv_probe each' % len(outs))
    else:
        chk.fail('R5', 'recv_response:one-read', fn_loc(frr), 'Strategy::recv_response reads the network %s times on one call (traces end %s): each read may block for the read timeout' % (
            max(reads) if reads else '?', sorted({o.kind for o in outs})), key='R5|recv_response|reads')
