"""C04 — no inbound packet, however malformed, can crash the tracer (exhaustive site audit).

Roots: (a) the receive path — `<Channel<S> as Network>::recv_probe` and `Strategy::recv_response`; (b) every `&self` method, `Debug::fmt`
and `Iterator::next` of the packet view types, on an arbitrary buffer of at least the minimum header size (lemma L: a view is only
constructed behind `len ≥ minimum_packet_size()` — checked here: no struct literal of a view type outside `new`/`new_view`).
For every function reachable from the roots (trippy-packet, trippy-core; the Socket/Platform traits, `tracing` and std are the boundary)
every panic-capable construct is enumerated from MIR — overflow / bounds / division asserts (dev profile, so arithmetic overflow is
visible), slice indexing and splitting, copy_from_slice, unwrap/expect, checked arithmetic of newtypes, explicit panics — and each must be
discharged by the value-range prover (tsa/vra.py), by a reviewed entry of ALLOW (function + kind + reason; re-opened when the site's own
guard disappears because the entry is keyed by the site and not by position), or be a listed known finding. Every loop head in scope must be
a recognised terminating shape. Anything else is a violation.
Not decided: panics inside std / tracing / nix / socket2 / the kernel boundary; other platforms; resource exhaustion.
"""
import re
from collections import defaultdict

from .common import *
from ..audit import Audit, static_sites, loops_of, view_types
from ..callgraph import CallGraph
from ..cfg import CFG

LEVEL = 'other'

# D3 — reviewed sites the prover cannot discharge. key = (function short path regex, kind, desc): reason
ALLOW = [
    (r'Channel::recv_tcp_sockets$', 'api', 'remove',
     'ArrayVec::remove(i): i is the position just found by iter_mut().enumerate().find_map over the same vector, with no modification in between'),
    (r'checksum::sum_be_words$', 'Overflow:Add', 'Add u32',
     'u32 sum of 16-bit words: the receive path only sums quotations that fit the ≤1024-byte packet buffers (≤ 512 words, < 2^26)'),
    (r'checksum::sum_be_words$', 'Overflow:Add', 'Add usize',
     'word counter i ≤ len/2'),
    (r'within:checksum::ipv[46]_checksum$', 'Overflow:Add', 'Add u32',
     'pseudo-header words (each < 2^17) + length (≤ 1024 on this path) + word sum (< 2^26) cannot reach 2^32'),
    (r'checksum::ipv4_word_sum$', 'Overflow:Add', 'Add u32', 'two 16-bit quantities'),
]

# D4 — boundary contracts
BOUNDARY = [
    (r'net::ipv6::Ipv6::recv_icmp_probe$', 'panic', r'panic|unreachable', 'a V6 raw socket yields V6 peer addresses (Socket contract)'),
    (r'net::ipv4::Ipv4::recv_icmp_probe$', 'panic', r'panic|unreachable', 'a V4 raw socket yields V4 peer addresses (Socket contract)'),
]


def roots_and_scope(prog, cg):
    views = view_types(prog)
    roots = []
    for f in prog.fns.values():
        p_ = f['path']
        if '::tests::' in p_ or '::mocket_read' in p_:
            continue
        if re.search(r'<trippy_core::net::channel::Channel<S> as trippy_core::net::Network>::recv_probe$', p_) or \
                re.search(r'trippy_core::strategy::Strategy::<F>::recv_response$', p_):
            roots.append(p_)
        adt = f.get('impl_adt')
        if adt in views or (adt and re.search(r'Iter$', adt) and adt.startswith('trippy_packet::')):
            if f['kind'] != 'AssocFn':
                continue
            self_ty = f['locals'][1]['ty'] if f['argc'] >= 1 else ''
            is_ref_self = self_ty.startswith('&') and not self_ty.startswith('&mut') and adt.split('::')[-1] in self_ty
            if f.get('impl_trait') in ('core::fmt::Debug', 'core::fmt::Display') and f['name'] == 'fmt':
                roots.append(p_)
            elif f.get('impl_trait') == 'core::iter::traits::iterator::Iterator' and f['name'] == 'next':
                roots.append(p_)
            elif not f.get('impl_trait') and f.get('pubvis') and is_ref_self:
                roots.append(p_)
    # boundary: implementations of the Socket / Platform traits (the OS layer) and test code
    stop = {p_ for p_ in prog.fns if '::tests::' in p_ or 'trippy_core::net::platform::' in p_}
    scope = cg.reachable(roots, stop=stop)
    scope = {p_ for p_ in scope if prog.fns[p_]['crate'] in ('packet', 'core')}
    # derive_more / std-derive generated operator impls: their single arithmetic site is accounted at every call site
    # (the engine summarises calls to them as checked arithmetic in the caller's context)
    scope = {p_ for p_ in scope if not (prog.fns[p_]['span']['exp'] and
                                        re.match(r'core::ops::(arith|bit)::', prog.fns[p_].get('trait_item') or ''))}
    return sorted(set(roots)), scope


def run(chk, tier):
    prog = program(crates=('packet', 'core'))
    chk.explanation = __doc__
    chk.assumptions += [
        'Socket::read / recv_from return n ≤ buf.len(); socket families match the channel family (boundary contracts, D4)',
        'tracing macros do not panic and have no effect on program state',
        'dev-profile MIR: overflow checks and debug assertions are part of the analysed program',
    ]
    cg = CallGraph(prog)
    roots, scope = roots_and_scope(prog, cg)
    chk.rule('L', 'packet views are only constructed behind len >= minimum_packet_size()', floor=14)
    _lemma(chk, prog)
    chk.rule('S', 'every panic-capable site reachable from the receive path / packet accessors is discharged', floor=75)
    chk.rule('T', 'every loop reachable from the roots has a recognised terminating shape', floor=2)
    chk.extra['roots'] = len(roots)
    if len(roots) < 100:
        chk.fail('S', 'roots', '?', 'only %d audit roots found (expected ≥ 100: receive path + packet accessors)' % len(roots), key='S|roots')
    audit_scope(chk, prog, cg, roots, scope, tier, 'S', 'T', ALLOW, BOUNDARY)


def _lemma(chk, prog):
    views = view_types(prog)
    for adt, mn in sorted(views.items()):
        bad = []
        for path, fn in prog.fns.items():
            if '::tests::' in path:
                continue
            for b in fn['blocks']:
                for st_ in b['stmts']:
                    rv = st_.get('rv')
                    if rv and rv['k'] == 'agg' and rv['kind'].get('def') == adt:
                        if not (fn.get('impl_adt') == adt and fn.get('name') in ('new', 'new_view')):
                            bad.append((path, st_['sp']['line']))
        tag = adt.replace('trippy_packet::', '')
        if bad or mn is None:
            chk.fail('L', tag, '%s' % (bad[:1] or '?'), '%s is constructed outside new/new_view (%s) or has no constant minimum_packet_size: the accessors\' '
                     'bounds rest on the construction check' % (tag, [short(b[0]) for b in bad]), key='L|' + tag)
        else:
            chk.ok('L', tag, 'only new/new_view build it; min=%d (the guard itself is C12.O5)' % mn)


def _only_within(cg, path, rx, roots):
    """every call chain (calls, closure creation, closure arguments) from an audit root to `path` passes through a function matching rx"""
    seen = set()
    stack = [path]
    while stack:
        x = stack.pop()
        if x in seen:
            continue
        seen.add(x)
        if re.search(rx, short(x)) or re.search(rx, x):
            continue                      # this chain passes through the context
        ups = {c for (c, _, _) in cg.sites.get(x, ())}
        if x in roots or not ups:
            return False                  # reached a root (or an uncalled function) without passing through it
        stack.extend(ups)
    return True


def audit_scope(chk, prog, cg, roots, scope, tier, rid_s, rid_t, allow, boundary, inline_depth=3, caller_depth=3, hints=(), invariants=(), inline_filter=None, loop_allow=()):
    A = Audit(prog, inline_depth=inline_depth, caller_depth=caller_depth + (1 if tier == 'thorough' else 0))
    A.cg = cg
    if inline_filter is not None:
        # a regex of callees that are a boundary for this audit (never inlined; their own safety is another check's obligation)
        A.never_inline = re.compile(inline_filter)
        A.eng.inline_filter = lambda callee: not A.never_inline.search(callee)
    A.eng.range_hints = [(re.compile(rx), lo, hi) for (rx, lo, hi) in hints]
    A.eng.invariants = list(invariants)
    A.analyse_all(scope)
    for p_ in scope:
        chk.fn_seen(p_)
    bad_fn = {p_: st for p_, st in A.fn_status.items() if p_ in scope and st != 'ok'}
    nsites = 0
    classes = defaultdict(int)
    for path in sorted(scope):
        fn = prog.fns[path]
        sites = static_sites(prog, fn)
        for (k, d, o, bb, sp) in sites:
            nsites += 1
            sp_path = short(path)
            inst = '%s|%s|%s|%d' % (sp_path, k, d, o)
            where = '%s:%d' % (sp['file'], sp['line'])
            if k in ('arith-trait',):
                # accounted through the Overflow:* evaluations recorded at the same terminator
                pass
            st, why, w = A.verdict(path, bb, scope)
            if k in ('api', 'arith-trait') and not A.evals_of(path, bb):
                # a panicking API the engine does not model records no evaluation: "no failed evaluation" must not read as "unreached"
                st, why, w = 'open', 'panicking API contract not modelled by the engine: needs a reviewed entry', None
            if k == 'api' and d == 'insert' and st == 'open':
                t_ = fn['blocks'][bb]['term']
                a_ = t_['args'][1] if len(t_.get('args', ())) == 3 else None
                if re.search(r'alloc::vec::Vec::<T, A>::insert$', t_.get('resolved') or t_['callee']) and isinstance(a_, dict) and a_.get('const') and a_.get('bits') == '0':
                    # Vec::insert panics iff index > len: the constant index 0 never is
                    classes['D1'] += 1
                    chk.ok(rid_s, inst, 'Vec::insert at the constant index 0 (≤ len of any Vec)')
                    continue
            if st in ('proved', 'unreached'):
                classes['D2' if st == 'proved' else 'D0'] += 1
                chk.ok(rid_s, inst, st if st == 'proved' else 'not reachable on any abstract trace', nontrivial=(st == 'proved'))
                continue
            hit = None
            for (rx, kk, dd, reason) in allow:
                if rx.startswith('within:'):
                    # the entry names a context rather than the function holding the site: it covers the named function and everything that is
                    # executed only inside it (helpers and closures every call chain to which passes through it), so that extracting the code
                    # into a helper of that function changes nothing
                    ctx_, _, own_ = rx[7:].partition('||')        # 'within:<context>||<pattern of the site's own function>'
                    # own pattern '!ctx': any function executed only inside the context except the context function itself
                    own_ok = (not own_) or (own_ == '!ctx' and not (re.search(ctx_, short(path)) or re.search(ctx_, path))) or (own_ != '!ctx' and re.search(own_, path))
                    if kk == k and (dd == d or re.fullmatch(dd, d)) and own_ok and _only_within(cg, path, ctx_, set(roots)):
                        hit = ('D3', reason)
                    continue
                if (re.search(rx, short(path)) or re.search(rx, path)) and kk == k and (dd == d or re.fullmatch(dd, d)):
                    hit = ('D3', reason)
            for (rx, kk, dd, reason) in boundary:
                if re.search(rx, path) and kk == k and re.search(dd, d):
                    hit = ('D4', reason)
            if k == 'api' or (k == 'arith-trait' and not A.evals_of(path, bb)):
                # an API with a panicking contract that the engine does not model: must be reviewed
                pass
            if hit:
                classes[hit[0]] += 1
                chk.ok(rid_s, inst, '%s: %s' % hit)
                continue
            detail = None
            msg = ''
            if w:
                detail = {'root': w[0], 'prover': w[2], 'line': w[3], 'decisions': w[4], 'chain': cg.chain(path) if hasattr(cg, 'last_parent') else None}
                msg = ' — %s (analysed from %s)' % (w[2][:160], short(w[0]))
            elif why:
                msg = ' — %s' % why
            classes['V'] += 1
            chk.fail(rid_s, inst, where, '%s in %s cannot be shown safe for arbitrary input%s' % (_describe(k, d), sp_path, msg),
                     detail=detail, key='%s|%s' % (rid_s, inst))
    for p_, st in bad_fn.items():
        chk.fail(rid_s, 'fn:' + short(p_), fn_loc(prog.fns[p_]), 'analysis of %s is incomplete (%s): its sites are not established' % (short(p_), st),
                 key='%s|incomplete|%s' % (rid_s, short(p_)))
    # loops
    for path in sorted(scope):
        fn = prog.fns[path]
        for h in loops_of(fn):
            shape = loop_shape(prog, fn, h)
            rk = A.loop_results.get((path, h))
            if shape:
                chk.ok(rid_t, '%s|%s' % (short(path), shape[0]), shape[1])
            elif rk and rk[0]:
                chk.ok(rid_t, '%s|ranking' % short(path), rk[1])
            elif any(re.search(rx, short(path)) for rx, _ in loop_allow):
                chk.ok(rid_t, '%s|allowed' % short(path), [why for rx, why in loop_allow if re.search(rx, short(path))][0], nontrivial=False)
            else:
                chk.fail(rid_t, '%s|loop' % short(path), fn_loc(fn), 'loop in %s: no recognised terminating shape and no ranking argument (%s)' % (
                    short(path), rk[2] if rk else 'not analysed'), key='%s|%s|loop' % (rid_t, short(path)))
    chk.extra['sites'] = nsites
    chk.extra['discharge_classes'] = dict(classes)
    chk.extra['functions_in_scope'] = len(scope)
    chk.call_sites += nsites


def _describe(k, d):
    if k.startswith('Overflow:'):
        return 'arithmetic overflow check (%s)' % d
    return {'BoundsCheck': 'array index bounds check', 'slice-index': 'slice indexing (%s)' % d, 'split_at': 'split_at', 'copy_from_slice': 'copy_from_slice (length equality)',
            'unwrap': '%s()' % d, 'panic': 'explicit %s!' % d, 'DivisionByZero': 'division', 'RemainderByZero': 'remainder', 'api': 'panicking API %s' % d,
            'arith-trait': 'checked arithmetic (%s)' % d}.get(k, k)


def loop_shape(prog, fn, head):
    """recognised terminating loop shapes -> (name, evidence) or None"""
    cfg = CFG(fn)
    body = {head}
    for (src, hdr) in cfg.back_edges():
        if hdr != head:
            continue
        st = [src]
        while st:
            x = st.pop()
            if x in body:
                continue
            body.add(x)
            st.extend(cfg.pred[x])
    calls = []
    for bi in sorted(body):
        t = fn['blocks'][bi]['term']
        if t['k'] == 'call':
            calls.append((bi, t))
    # 1. iterator loop: the loop calls Iterator::next on a std iterator or on a local iterator (whose own progress is audited separately)
    for bi, t in calls:
        if t['callee'] == 'core::iter::traits::iterator::Iterator::next' or t['callee'].endswith('Iterator::next'):
            res = t['resolved'] or t['callee']
            return ('iterator', 'for-loop over %s' % short(res))
    # 4. retry loops that re-issue a call while it returns Err (TCP send loop): bounded by round capacity (C07.R3)
    for bi, t in calls:
        if re.search(r'Strategy::<F>::do_send$', t['resolved'] or t['callee']):
            return ('bounded-retry', 'while let Err(..) = do_send(..): every retry consumes a sequence number under round_has_capacity()')
    return None
