"""C15 — flow identifiers are stable, consistent and bounded.

 R1 who-may-modify: FlowRegistry.flows grows only by the single `push` in register, is never shrunk or reordered (no remove / clear / truncate /
    pop / retain / sort / swap / insert / drain on it), and recorded flows are modified only by Flow::merge.
 R2 identifiers: ids start at 1 (FlowRegistry::new, and Default = new), `push` and `next_flow_id += 1` occur together exactly once per new flow,
    the pushed id is the pre-increment value — dense from 1; lookup never creates a flow.
 R3 matching: Flow::check returns NoMatch exactly when some position holds two different Known addresses — the only early exit of its
    position loop is that NoMatch (every position is compared) — and MatchMerge iff the new flow is longer or fills an Unknown, else Match;
    Flow::merge keeps every recorded Known, fills Unknown from the new flow, appends the longer tail: never contradicts or forgets.
    register / lookup act on the first flow whose check is not NoMatch and merge exactly on MatchMerge.
 R4 bound: a flow is created only under registry.flows().len() < max_flows (decision table of State::update_from_round).
 R5 every round updates the default flow exactly once; a flow's round_count grows by one per attributed round (C10.R2).
 R6 attribution at capacity: every trace of update_from_round consults the registry for a matching flow (register below the cap, lookup at
    the cap) and attributes the round to the flow found.
 R6b State::update_trace_flow(flow_id, round) applies the round once to the per-flow state stored under that flow_id.
 R7 positions: the flow of a round has one entry per slot that occupied a time-to-live of its own — Complete ⇒ the responder's address, Awaited and
    Failed ⇒ unknown — and none for NotSent / Skipped slots (a skipped slot's time-to-live is carried by the re-issued probe); the entries are the
    slots of round.probes in order (no other adaptor than the optional cut at the round's length), and Flow::from_hops maps every item to one entry
    (Some(a) ⇒ Known(a), None ⇒ Unknown). Otherwise a slot that failed to send shifts every later address one position down.
 C20.O6 (imported): the max_flows the cap compares with is the configured one — every State is built from the tracer parameter of the same name, in new and in clear.
Not decided: that position 0 is time-to-live 1 (with first-ttl > 1 every position is offset by the same constant).
"""
import re

from .common import *
from ..callgraph import CallGraph
from ..cfg import CFG
from ..vra import RangeEngine

LEVEL = 'other'
REG = 'trippy_core::flows::FlowRegistry'
FLOW = 'trippy_core::flows::Flow'
FE = 'trippy_core::flows::FlowEntry'
CS = 'trippy_core::flows::CheckStatus'


def run(chk, tier):
    prog = program(crates=('core',))
    chk.explanation = __doc__
    for r, d, fl in (('R1', 'registry grows only by push; entries change only through merge', 2), ('R2', 'ids dense from 1', 4), ('R3', 'check / merge / register tables', 11),
                     ('R4', 'flow creation bounded by max_flows', 2), ('R5', 'default flow updated once per round', 1), ('R6', 'every round is looked up in the registry', 2),
                     ('R7', 'one flow position per slot that occupied a time-to-live', 8)):
        chk.rule(r, d, floor=fl)

    # "never exceeds the configured maximum": the cap compared in R4 is the state's max_flows, which is the tracer's configured value only if every
    # State is built from the parameter of the same name, in Tracer::new and in clear (C20.O6, imported)
    from ..report import run_sub
    run_sub(chk, 'c20', 'C20.', {'O6'})

    # ---- R1 ---------------------------------------------------------------------------------------------
    vec_mut = re.compile(r'alloc::vec::Vec::<T, A>::(\w+)$|core::slice::<impl \[T\]>::(sort\w*|swap|reverse|rotate\w*)$')
    hits = []
    for path, fn in prog.fns.items():
        if '::tests::' in path or fn['crate'] != 'core':
            continue
        for b in fn['blocks']:
            t = b['term']
            if t['k'] != 'call' or b['cleanup'] or not t.get('atys'):
                continue
            m = vec_mut.search(t['resolved'] or t['callee'])
            if m and t['atys'][0].startswith('&mut') and re.search(r'Vec<\(trippy_core::flows::Flow, [\w:]*FlowId\)>', t['atys'][0]):
                hits.append((path, m.group(1) or m.group(2), t['sp']))
    cg0 = CallGraph(prog)

    def only_from_register(p_, depth=0):
        """register itself, or a private helper of the registry that nothing but register (transitively) calls"""
        f_ = prog.fns[p_]
        if f_.get('name') == 'register' and f_.get('impl_adt') == REG:
            return True
        if depth > 3 or f_.get('impl_adt') != REG or f_.get('pubvis'):
            return False
        callers_ = [c for c in cg0.callers(p_) if '::tests::' not in c]
        return bool(callers_) and all(only_from_register(c, depth + 1) for c in callers_)
    bad = [(p_, n, sp) for (p_, n, sp) in hits if not (n == 'push' and only_from_register(p_))]
    pushes = [h for h in hits if h[1] == 'push']
    if bad:
        chk.fail('R1', 'vec-mutators', loc(bad[0][2]), 'FlowRegistry.flows is modified by %s in %s: issued ids would be dropped or reordered' % (bad[0][1], short(bad[0][0])), key='R1|mutator|%s|%s' % (short(bad[0][0]), bad[0][1]))
    elif len(pushes) == 1:
        chk.ok('R1', 'vec-mutators', 'one push, in FlowRegistry::register (or a private helper only register calls)')
    else:
        chk.fail('R1', 'vec-mutators', '?', '%d push sites on FlowRegistry.flows' % len(pushes), key='R1|pushes')
    cg = CallGraph(prog)
    fm = prog.find(r'flows::Flow::merge$')
    mc = sorted(short(c) for c in cg.callers(fm['path']))
    ent_w = []
    for path, fn in prog.fns.items():
        if '::tests::' in path:
            continue
        for b in fn['blocks']:
            for st_ in b['stmts']:
                if 'lhs' in st_ and any(e['k'] == 'field' and e.get('of') == FLOW and e['n'] == 'entries' for e in st_['lhs']['p']):
                    ent_w.append(short(path))
    # merge is an operation of the registry: any (private) method of FlowRegistry may call it, nothing else
    mc_paths = [c for c in cg.callers(fm['path'])]
    if all(prog.fns[c].get('impl_adt') == REG or (prog.fns[c].get('parent') and prog.fns[prog.fns[c]['parent']].get('impl_adt') == REG) for c in mc_paths) and mc_paths and set(ent_w) <= {'Flow::merge'}:
        chk.ok('R1', 'entry-writers', 'Flow.entries written only by merge; merge called only by %s' % mc)
    else:
        chk.fail('R1', 'entry-writers', fn_loc(fm), 'recorded flows are modified outside merge (writers %s, merge callers %s)' % (sorted(set(ent_w)), mc), key='R1|entry-writers')

    # ---- R2 ---------------------------------------------------------------------------------------------
    e1 = Engine(prog, inline_depth=1)
    fnew = prog.find(r'flows::FlowRegistry::new$')
    st = St()
    outs = e1.run(fnew, [], st)
    rn = [x['name'] for x in prog.adt(REG)['variants'][0]['fields']]
    if outs and all(vshow(o.value[4][rn.index('next_flow_id')]) == 'FlowId(1)' for o in outs):
        chk.ok('R2', 'first-id', 'FlowRegistry::new starts at FlowId(1)')
    else:
        chk.fail('R2', 'first-id', fn_loc(fnew), 'FlowRegistry::new does not start issuing ids at 1', key='R2|first-id')
    dflt = [im for im in prog.impls if im['adt'] == REG and im['trait'] == 'core::default::Default']
    if dflt and dflt[0]['derived']:
        chk.fail('R2', 'default', loc(dflt[0]['span']), 'FlowRegistry derives Default: a default registry issues ids from 0, colliding with the default flow', key='R2|derived-default')
    elif dflt:
        f = prog.fns[dflt[0]['items'][0]['path']]
        st = St()
        o2 = Engine(prog, inline_depth=0).run(f, [], st)
        if o2 and all(vshow(o.value) == 'call:FlowRegistry::new()' for o in o2):
            chk.ok('R2', 'default', 'Default = new')
        else:
            chk.fail('R2', 'default', fn_loc(f), 'FlowRegistry::default() is not new()', key='R2|default')
    else:
        chk.ok('R2', 'default', 'no Default impl', nontrivial=False)
    freg = prog.find(r'flows::FlowRegistry::register$')
    chk.fn_seen(freg['path'])
    OPQ = [r'flows::Flow::check$', r'flows::Flow::merge$']
    eng = RangeEngine(prog, inline_depth=2, opaque=OPQ, inline_filter=lambda c: prog.fns.get(c, {}).get('impl_adt') == REG)
    st = St()
    outs = eng.run(freg, [eng.sym_ref(st, 'self'), ('sym', 'flow')], st)
    n_new = 0
    for o in outs:
        pushes = [c for c in o.st.events if c[0] == 'call' and c[1].endswith('Vec::<T, A>::push')]
        incs = [e for e in o.st.events if e[0] == 'write' and e[2] in ('next_flow_id', '0') and 'next_flow_id' in e[5]]
        if o.kind != 'return':
            continue
        if pushes or incs:
            n_new += 1
            val = vshow(o.value)
            pv = vshow(pushes[0][7][1]) if pushes else ''
            good = len(pushes) == 1 and len(incs) == 1 and vshow(incs[0][3]) in ('Add(self.next_flow_id.0, 1)', 'Add(self.next_flow_id, 1)') and \
                pv == '(flow, self.next_flow_id)' and val == 'self.next_flow_id'
            if good:
                chk.ok('R2', 'register:new-flow', 'push((flow, next_id)); next_id += 1; return the pre-increment id')
            else:
                chk.fail('R2', 'register:new-flow', fn_loc(freg), 'creating a flow must push (flow, next_flow_id), increment next_flow_id once and return the pushed id; found push %s, increments %s, returns %s' % (
                    pv, [vshow(i[3]) for i in incs], val), key='R2|register|new-flow')
    if n_new != 1:
        chk.fail('R2', 'register:new-flow:coverage', fn_loc(freg), '%d traces of register create a flow (expected exactly the fall-through trace)' % n_new, key='R2|register|coverage')
    flk = prog.find(r'flows::FlowRegistry::lookup$', unique=False)
    if flk:
        st = St()
        outs = RangeEngine(prog, inline_depth=2, opaque=OPQ, inline_filter=lambda c: prog.fns.get(c, {}).get('impl_adt') == REG).run(flk[0], [eng.sym_ref(st, 'self'), eng.sym_ref(st, 'flow')], st)
        if any(c[0] == 'call' and c[1].endswith('Vec::<T, A>::push') for o in outs for c in o.st.events) or \
                any(e[0] == 'write' and 'next_flow_id' in e[5] for o in outs for e in o.st.events):
            chk.fail('R2', 'lookup', fn_loc(flk[0]), 'FlowRegistry::lookup creates a flow', key='R2|lookup')
        else:
            chk.ok('R2', 'lookup', 'lookup never pushes or issues an id')

    # ---- R3 ---------------------------------------------------------------------------------------------
    fc = prog.find(r'flows::Flow::check$')
    chk.fn_seen(fc['path'])
    eng = RangeEngine(prog, inline_depth=1)
    st = St()
    outs = eng.run(fc, [eng.sym_ref(st, 'self'), eng.sym_ref(st, 'flow')], st)
    fev = prog.variant_names(FE)
    K, U = fev.index('Known'), fev.index('Unknown')
    rows = {}
    post = {}
    POS = r'discr\(field:%d\(field:0\(call:Zip::next\((?:loop\d+\.iter|loopiter\(.*\))\)\)\)\)'
    for o in outs:
        d = [(vshow(a), v) for a, v, _ in o.st.decisions]
        val = vshow(o.value) if o.kind == 'return' else o.kind
        old = [v for a, v in d if re.fullmatch(POS % 0, a)]
        new = [v for a, v in d if re.fullmatch(POS % 1, a)]
        cmpv = [v for a, v in d if re.fullmatch(r'Ne\(field:0\(field:0\(field:0\(call:Zip::next.*', a)]
        adds = [e for e in o.st.events if e[0] == 'assert' and e[1] == 'Overflow:Add']
        cell = (old[-1] if old else None, new[-1] if new else None, cmpv[-1] if cmpv else None)
        if o.kind == 'loop-closed':
            rows[cell] = ('continue', bool(adds))
        elif o.kind == 'return' and (old or new):
            rows[cell] = (val, bool(adds))
        elif o.kind == 'return':
            # either spelling / polarity of the two tests (`new longer than recorded`, `additions > 0`)
            from ..tables import holds
            lg = holds(o.st.decisions, 'Gt(len(flow.entries), len(self.entries))')
            adn = [vshow(a) for a, v, _ in o.st.decisions if re.search(r'loop\d+\.additions', vshow(a))]
            ad = None
            for a_ in adn:
                m_ = re.search(r'(loop\d+\.additions)', a_)
                h_ = holds(o.st.decisions, 'Gt(%s, 0)' % m_.group(1))
                ad = h_ if h_ is not None else ad
            post[(lg, ad)] = val
        else:
            rows[cell] = (o.kind, False)
    # expected body rows: (Known, Known, differ) → NoMatch; (Unknown, Known) → additions += 1; everything else → continue unchanged
    okb = True
    why = ''
    for (o_, n_, c_), (act, added) in rows.items():
        if act == 'continue':
            if added != (o_ == U and n_ == K):
                okb, why = False, 'additions is %s for position (recorded %s, new %s)' % ('incremented' if added else 'not incremented', o_, n_)
            if o_ == K and n_ == K and c_ == 1:
                okb, why = False, 'two different Known addresses at one position are accepted'
        elif act == 'CheckStatus::NoMatch':
            if not (o_ == K and n_ == K and c_ == 1):
                okb, why = False, 'NoMatch is returned for position (recorded %s, new %s, differ %s)' % (o_, n_, c_)
        else:
            okb, why = False, 'check leaves the position loop early with %s at (recorded %s, new %s): later positions are never compared' % (act, o_, n_)
    if ('CheckStatus::NoMatch', False) not in rows.values() or (U, K, None) not in rows or (K, K, 0) not in rows:
        okb, why = okb and False, why or 'the position loop lacks the NoMatch exit, the additions counter or the equal-address case (%s)' % rows
    if okb:
        chk.ok('R3', 'check:positions', 'NoMatch iff Known≠Known at some position; additions counts (Unknown, Known); no other early exit')
    else:
        chk.fail('R3', 'check:positions', fn_loc(fc), 'Flow::check: %s' % why, key='R3|check|positions')
    want_post = {(1, None): 'CheckStatus::MatchMerge', (0, 1): 'CheckStatus::MatchMerge', (0, 0): 'CheckStatus::Match'}
    okp = True
    for k_, v_ in post.items():
        exp = 'CheckStatus::MatchMerge' if (k_[0] == 1 or k_[1] == 1) else 'CheckStatus::Match'
        if v_ != exp:
            okp = False
    if okp and {k_[0] for k_ in post} == {0, 1}:
        chk.ok('R3', 'check:result', 'MatchMerge iff longer or additions > 0, else Match')
    else:
        chk.fail('R3', 'check:result', fn_loc(fc), 'Flow::check final classification is %s' % post, key='R3|check|result')
    # merge closure table
    cls = [c for c in prog.fns.values() if c.get('parent') == fm['path'] and c['kind'] == 'Closure']
    EOB = 'itertools::either_or_both::EitherOrBoth'
    e3 = Engine(prog, inline_depth=1)
    tab = {}
    for c in cls:
        for var, flds in (('Left', ['L']), ('Right', ['R']), ('Both', ['L', 'R'])):
            cases = [(None, None)]
            if var == 'Both':
                cases = [(a, b) for a in ('Unknown', 'Known') for b in ('Unknown', 'Known')]
            for (la, rb) in cases:
                st = St()
                def ent(nm, kind):
                    if kind is None:
                        return e3.obj_ref(st, ('sym', nm))
                    return e3.obj_ref(st, e3.adt_val(FE, kind, [('sym', nm + '.addr')] if kind == 'Known' else []))
                vals = [ent('L', la), ent('R', rb)] if var == 'Both' else [ent(flds[0], None)]
                arg = ('adt', EOB, {'Both': 0, 'Left': 1, 'Right': 2}[var], var, vals)
                env = e3.obj_ref(st, ('closure', c['path'], []))
                o2 = e3.run(c, [env, arg], st)
                res = sorted({vshow(e3.purify(x.value, x.st)) for x in o2})
                tab[(var, la, rb)] = res
    exp = {('Left', None, None): ['L'], ('Right', None, None): ['R'], ('Both', 'Unknown', 'Known'): ['FlowEntry::Known(R.addr)'], ('Both', 'Unknown', 'Unknown'): ['FlowEntry::Unknown'],
           ('Both', 'Known', 'Unknown'): ['FlowEntry::Known(L.addr)'], ('Both', 'Known', 'Known'): ['FlowEntry::Known(L.addr)']}
    for k_, want in exp.items():
        got = tab.get(k_)
        inst = 'merge:%s(%s,%s)' % k_
        if got == want:
            chk.ok('R3', inst, got[0])
        else:
            chk.fail('R3', inst, fn_loc(fm), 'Flow::merge maps %s to %s; a recorded Known must be kept, an Unknown filled from the new flow, tails appended (expected %s)' % (k_, got, want), key='R3|' + inst)
    st = St()
    o3 = Engine(prog, inline_depth=0).run(fm, [Engine(prog).sym_ref(st, 'self'), Engine(prog).sym_ref(st, 'flow')], st)
    zl = [c for o in o3 for c in user_calls(o, r'zip_longest$')]
    if zl and all([vshow(x) for x in c[7]] [:1] and 'self.entries' in vshow(c[7][0]) and 'flow.entries' in vshow(c[7][1]) for c in zl):
        chk.ok('R3', 'merge:zip', 'self.entries.zip_longest(flow.entries): left = recorded, right = new')
    else:
        chk.fail('R3', 'merge:zip', fn_loc(fm), 'Flow::merge does not zip (recorded, new) in that order', key='R3|merge|zip')
    # register / lookup act on the first non-NoMatch flow and merge exactly on MatchMerge
    csv = prog.variant_names(CS)
    for f_ in [freg] + list(flk):
        eng = RangeEngine(prog, inline_depth=2, opaque=OPQ, inline_filter=lambda c: prog.fns.get(c, {}).get('impl_adt') == REG)
        st = St()
        args = [eng.sym_ref(st, 'self'), ('sym', 'flow') if f_ is freg else eng.sym_ref(st, 'flow')]
        outs = eng.run(f_, args, st)
        okr = True
        seen = set()
        for o in outs:
            d = [(vshow(a), v) for a, v, _ in o.st.decisions]
            stt = [v for a, v in d if re.fullmatch(r'discr\(call:Flow::check\(.*\)\)', a)]
            merges = [c for c in user_calls(o, r'Flow::merge$')]
            if not stt:
                continue
            status = stt[-1]
            if isinstance(status, tuple):
                continue
            name = csv[status]
            seen.add(name)
            if name == 'MatchMerge' and not (len(merges) == 1 and o.kind == 'return'):
                okr = False
            if name == 'Match' and (merges or o.kind != 'return'):
                okr = False
            if name == 'NoMatch' and (merges or o.kind == 'return'):
                okr = False
        inst = short(f_['path']) + ':dispatch'
        if not seen:
            # the same scan as `self.flows.iter_mut().find_map(|(entry, id)| match entry.check(flow) { .. })`: find_map stops at the first Some (std
            # contract), so the closure's table per status decides the dispatch: NoMatch ⇒ None (next flow), otherwise Some(id), merging iff MatchMerge
            fcl = [c_ for c_ in prog.fns.values() if c_['kind'] == 'Closure' and c_.get('parent') == f_['path']]
            fm = [c for o in outs for c in user_calls(o, r'::find_map$')]
            direct = outs and all(o.kind == 'return' and re.fullmatch(r'call:\w+::find_map\(call:slice::iter(_mut)?\((?:havoc:[^,]*\()?self\.flows.*', vshow(o.value)) for o in outs)
            if len(fcl) == 1 and fm and direct:
                ec = RangeEngine(prog, inline_depth=1, opaque=OPQ)
                stc = St()
                entry = ec.sym_ref(stc, 'entry')
                co = ec.run(fcl[0], [ec.sym_ref(stc, 'env'), ('tuple', [entry, ec.sym_ref(stc, 'id')])], stc)
                okr = bool(co)
                for o in co:
                    d = [(vshow(a), v) for a, v, _ in o.st.decisions]
                    stt = [v for a, v in d if re.fullmatch(r'discr\(call:Flow::check\(.*\)\)', a)]
                    if not stt or isinstance(stt[-1], tuple) or o.kind != 'return':
                        okr = False
                        continue
                    name = csv[stt[-1]]
                    seen.add(name)
                    merges = user_calls(o, r'Flow::merge$')
                    val = vshow(o.value)
                    if name == 'NoMatch' and (val != 'Option::None' or merges):
                        okr = False
                    if name == 'Match' and (val != 'Option::Some(id)' or merges):
                        okr = False
                    if name == 'MatchMerge' and (val != 'Option::Some(id)' or len(merges) != 1):
                        okr = False
        if okr and {'Match', 'MatchMerge', 'NoMatch'} <= seen:
            chk.ok('R3', inst, 'Match → return id; MatchMerge → merge, return id; NoMatch → next flow')
        else:
            chk.fail('R3', inst, fn_loc(f_), '%s must return the id of the first flow whose check is not NoMatch and merge exactly on MatchMerge (statuses seen %s)' % (short(f_['path']), sorted(seen)),
                     key='R3|%s|dispatch' % short(f_['path']))

    # ---- R4 / R5 / R6 -----------------------------------------------------------------------------------
    fu = prog.find(r'state::State::update_from_round$')
    chk.fn_seen(fu['path'])
    e0 = Engine(prog, inline_depth=0)
    st = St()
    outs = e0.run(fu, [e0.sym_ref(st, 'self'), e0.sym_ref(st, 'round')], st)
    CAP = r'(Lt|Le|Gt|Ge)\((.*), (.*)\)'

    def cap_decision(d):
        """-> (True iff the trace established len(flows) < max_flows, the raw atom) or (None, None)"""
        for a, v in d:
            m = re.fullmatch(CAP, a)
            if not m or 'max_flows' not in a or 'FlowRegistry::flows' not in a:
                continue
            op, l, r_ = m.groups()
            len_left = 'FlowRegistry::flows' in l
            if not isinstance(v, int):
                continue
            # normalise to a relation "len OP max"
            rel = op if len_left else {'Lt': 'Gt', 'Le': 'Ge', 'Gt': 'Lt', 'Ge': 'Le'}[op]
            if not v:
                rel = {'Lt': 'Ge', 'Le': 'Gt', 'Gt': 'Le', 'Ge': 'Lt'}[rel]
            return rel, a
        return None, None
    ok4 = ok5 = ok6 = True
    why4 = why5 = why6 = ''
    caps = set()
    for o in outs:
        if o.kind != 'return':
            continue
        d = [(vshow(a), v) for a, v, _ in o.st.decisions]
        rel, cap_atom = cap_decision(d)
        cap = [] if rel is None else [1 if rel == 'Lt' else 0]
        regs = user_calls(o, r'FlowRegistry::register$')
        if regs and rel not in (None, 'Lt'):
            ok4, why4 = False, 'a flow is created on a trace that only established len(flows) %s max_flows (%s): the registry can grow to max_flows + 1' % ({'Le': '≤', 'Ge': '≥', 'Gt': '>'}[rel], cap_atom[:80])
        looks = user_calls(o, r'FlowRegistry::lookup$')
        upd = [[vshow(x) for x in c[7]] for c in user_calls(o, r'State::update_trace_flow$')]
        dflt_upd = [u for u in upd if u[1] == 'call:State::default_flow_id()']
        if len(dflt_upd) != 1:
            ok5, why5 = False, 'the default flow is updated %d times on a trace' % len(dflt_upd)
        if regs and cap != [1]:
            ok4, why4 = False, 'a flow can be registered without flows().len() < max_flows (decisions %s)' % cap
        if len(regs) > 1:
            ok4, why4 = False, 'register is called more than once per round'
        if cap:
            caps.add(cap[0])
        if not regs and not looks:
            ok6, why6 = False, 'a round is not looked up in the flow registry at all when %s' % ('the cap is reached' if cap == [0] else 'cap=%s' % cap)
        # the flow found must receive the round
        flow_upd = [u for u in upd if u[1] != 'call:State::default_flow_id()']
        # … and State::round_flow_id() — the API that says which flow the latest round went to — is set to that very flow
        rf = [vshow(e[3]) for e in o.st.events if e[0] == 'write' and e[2] == 'round_flow_id']
        if flow_upd and rf[-1:] != [flow_upd[0][1]]:
            ok6, why6 = False, 'the round is folded into flow %s but round_flow_id becomes %s' % (flow_upd[0][1][:60], rf[-1:] or 'nothing (it keeps the flow of an earlier round)')
        if regs and not (len(flow_upd) == 1 and re.fullmatch(r'call:FlowRegistry::register\(.*\)', flow_upd[0][1])):
            ok6, why6 = False, 'the registered flow does not receive the round (%s)' % flow_upd
        if looks:
            found = [v for a, v in d if re.search(r'FlowRegistry::lookup', a)]
            if found and found[-1] == 1 and not (len(flow_upd) == 1 and 'FlowRegistry::lookup' in flow_upd[0][1]):
                ok6, why6 = False, 'a flow found at capacity does not receive the round'
    if caps != {0, 1} and ok4:
        ok4, why4 = False, 'update_from_round does not test the flow cap (decisions seen %s)' % caps
    for rid, okv, why, msg in (('R4', ok4, why4, 'register only under len < max_flows, at most once'), ('R5', ok5, why5, 'default flow updated exactly once on every trace'),
                               ('R6', ok6, why6, 'registry consulted on every trace; the matching flow receives the round')):
        if okv:
            chk.ok(rid, 'update_from_round', msg)
        else:
            chk.fail(rid, 'update_from_round', fn_loc(fu), 'State::update_from_round: %s' % why, key='%s|update_from_round' % rid)
    # R4b: register is only called from update_from_round
    callers = [short(c) for c in cg.callers(freg['path'])]
    if callers == ['State::update_from_round']:
        chk.ok('R4', 'register-callers', callers)
    else:
        chk.fail('R4', 'register-callers', fn_loc(freg), 'FlowRegistry::register is called from %s: the max_flows guard can be bypassed' % callers, key='R4|register-callers')
    chk.ok('R6', 'flow-construction', 'Flow::from_hops(round.probes …) — see R3 for matching and R7 for positions', nontrivial=False)

    # ---- R6b: the round is folded into the state of the flow it was attributed to -----------------------------
    # update_trace_flow(flow_id, round) applies `round` to the per-flow state stored under *that* flow_id (created empty on first use) — otherwise a
    # flow's round count and hop statistics are not those of the rounds attributed to it
    futf = prog.find(r'state::State::update_trace_flow$')
    chk.fn_seen(futf['path'])
    eu = Engine(prog, inline_depth=0)
    stu = St()
    ou = eu.run(futf, [eu.sym_ref(stu, 'self'), ('sym', 'flow_id'), eu.sym_ref(stu, 'round')], stu)
    ENT = r'(?:call:Entry::or_insert_with\(call:HashMap::entry\(self\.state, flow_id\), closure:[\w:{}#]+\)|call:Entry::or_insert\(call:HashMap::entry\(self\.state, flow_id\), .*\)|call:Entry::or_default\(call:HashMap::entry\(self\.state, flow_id\)\)|field:0\(call:HashMap::get_mut\(self\.state, flow_id\)\))'
    good_u = bool(ou)
    for o in ou:
        ups = [[vshow(x) for x in c[7]] for c in user_calls(o, r'FlowState::update_from_round$')]
        if o.kind != 'return' or len(ups) != 1 or not re.fullmatch(ENT, ups[0][0]) or ups[0][1] != 'round':
            good_u = False
    if good_u:
        chk.ok('R6', 'update_trace_flow', 'state.entry(flow_id).or_insert_with(new).update_from_round(round), once per call')
    else:
        chk.fail('R6', 'update_trace_flow', fn_loc(futf), 'State::update_trace_flow does not apply the round exactly once to the per-flow state stored under its flow_id argument (%s)' % (
            [[vshow(x)[:90] for x in c[7]] for o in ou for c in user_calls(o, r'FlowState::update_from_round$')][:2]), key='R6|update_trace_flow')

    # ---- R7: which slots take a position in the flow of their round --------------------------------------
    from .state_common import PS, CELLS
    ADAPT = r'Iterator::(take|skip|filter|step_by|rev|take_while|skip_while|filter_map|map|zip|chain|enumerate|flat_map|flatten|map_while|scan|peekable|fuse|cycle|inspect)$'
    chain_ok, chain_why, fm_cl = bool(outs), '', None
    # the flow may be built in a private helper of State that only sees the round (no self): such helpers are part of the expression
    e7o = Engine(prog, inline_depth=1, inline_filter=lambda c: prog.fns.get(c, {}).get('impl_adt') == 'trippy_core::state::State' and
                 not any(l_['ty'].startswith(('&mut trippy_core::state::State', '&trippy_core::state::State')) for l_ in prog.fns[c]['locals'][1:prog.fns[c].get('argc', 0) + 1])
                 and not c.endswith('::default_flow_id'))
    st7 = St()
    outs7 = e7o.run(fu, [e7o.sym_ref(st7, 'self'), e7o.sym_ref(st7, 'round')], st7)
    cl_paths = set()
    for o in outs7:
        if o.kind != 'return':
            continue
        for c in user_calls(o, r'Iterator::filter_map$'):
            if isinstance(c[7][1], tuple) and c[7][1][0] == 'closure':
                cl_paths.add(c[7][1][1])
        fh_calls = user_calls(o, r'flows::Flow::from_hops$')
        if len(fh_calls) != 1:
            chain_ok, chain_why = False, 'Flow::from_hops is called %d times on a trace' % len(fh_calls)
            continue
        src = vshow(fh_calls[0][7][0])
        ad = [short(c[1]).split('::')[-1] for c in user_calls(o, ADAPT)]
        m = re.fullmatch(r'(?:call:Iterator::take\()?call:Iterator::filter_map\(call:(?:slice::iter|IntoIterator::into_iter|iter::into_iter)\(round\.probes\), closure:([\w:{}#]+)\)(?:, round\.largest_ttl\.0\))?', src)
        if not m or sorted(ad) not in (['filter_map'], ['filter_map', 'take']):
            chain_ok, chain_why = False, 'the flow of a round is built from %s (adaptors %s): expected the slots of round.probes in order, selected by one filter_map, optionally cut at round.largest_ttl' % (src[:140], ad)
    cls = [prog.fns[p_] for p_ in sorted(cl_paths) if p_ in prog.fns]
    if chain_ok and len(cls) == 1:
        chk.ok('R7', 'chain', 'Flow::from_hops(round.probes.iter().filter_map(slot → position)[.take(round.largest_ttl)])')
        ec = Engine(prog, inline_depth=1)
        want = {'Complete': ['Option::Some(Option::Some(p.host))'], 'Awaited': ['Option::Some(Option::None)'], 'Failed': ['Option::Some(Option::None)'],
                'NotSent': ['Option::None'], 'Skipped': ['Option::None']}
        text = {'Option::Some(Option::None)': 'an unknown position', 'Option::None': 'no position'}
        for cell in CELLS:
            stc = St()
            pay = [('sym', 'p')] if cell in ('Complete', 'Awaited', 'Failed') else []
            co = ec.run(cls[0], [ec.sym_ref(stc, 'env'), ec.obj_ref(stc, ec.adt_val(PS, cell, pay))], stc)
            got = sorted({vshow(o.value) if o.kind == 'return' else o.kind for o in co})
            if got == want[cell]:
                chk.ok('R7', 'slot:' + cell, got[0])
            else:
                chk.fail('R7', 'slot:' + cell, fn_loc(cls[0]), 'a %s slot contributes %s to the flow of its round; it must contribute %s%s' % (
                    cell, [text.get(g, g) for g in got], text.get(want[cell][0], 'the address of its responder'),
                    ' (the slot was sent with a time-to-live of its own: dropping it shifts every later address one position down, so the same path is '
                    'recorded under a second flow or merged into a flow it contradicts)' if cell in ('Awaited', 'Failed', 'Complete') else ''), key='R7|slot|%s' % cell)
    else:
        chk.fail('R7', 'chain', fn_loc(fu), 'State::update_from_round: %s' % (chain_why or 'expected one selecting closure, found %d' % len(cls)), key='R7|chain')
    fh = prog.find(r'flows::Flow::from_hops$')
    chk.fn_seen(fh['path'])
    eh = Engine(prog, inline_depth=0)
    sth = St()
    oh = eh.run(fh, [('sym', 'hops')], sth)
    hcl = [c for c in prog.fns.values() if c.get('parent') == fh['path'] and c['kind'] == 'Closure']
    if len(oh) == 1 and oh[0].kind == 'return' and len(hcl) == 1 and re.fullmatch(r'Flow\(call:Iterator::collect\(call:Iterator::map\(call:IntoIterator::into_iter\(hops\), closure:[\w:{}#]+\)\)\)', vshow(oh[0].value)):
        chk.ok('R7', 'from_hops:chain', 'entries = hops.into_iter().map(item → entry).collect(): one entry per item, in order')
        e1h = Engine(prog, inline_depth=1)
        for nm, val, wv in (('Some', e1h.adt_val('core::option::Option', 'Some', [('sym', 'a')]), 'FlowEntry::Known(a)'), ('None', e1h.adt_val('core::option::Option', 'None', []), 'FlowEntry::Unknown')):
            sti = St()
            ci = e1h.run(hcl[0], [e1h.sym_ref(sti, 'env'), val], sti)
            got = sorted({vshow(o.value) if o.kind == 'return' else o.kind for o in ci})
            if got == [wv] or got == ['call:' + wv]:      # the variant constructor may be applied as a function (`map_or(Unknown, FlowEntry::Known)`)
                chk.ok('R7', 'from_hops:' + nm, wv)
            else:
                chk.fail('R7', 'from_hops:' + nm, fn_loc(hcl[0]), 'Flow::from_hops maps %s to %s, expected %s' % (nm, got, wv), key='R7|from_hops|%s' % nm)
    else:
        chk.fail('R7', 'from_hops:chain', fn_loc(fh), 'Flow::from_hops is not `hops.into_iter().map(..).collect()` (%s): an item may be dropped, duplicated or reordered' % [vshow(o.value)[:120] for o in oh][:2], key='R7|from_hops|chain')
