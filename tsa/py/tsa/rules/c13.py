"""C13 — Internet checksums verify (structural decomposition; the numerical identity is assembled from decided parts, not tested).

RFC 1071 factors into four facts about the code, each decided from the source:
 R1 which word is skipped: every public checksum function hands the word index of its own checksum field — bit offset of `checksum` in the
    RFC layout oracle (tsa/spec/rfc_layout.json, the same oracle C12 proves the accessors against) divided by 16 — and, where a pseudo-header
    exists, its own protocol: IPv4 header 5; ICMP 1; UDP 3 + Udp; TCP 8 + Tcp; ICMPv6 1 + IcmpV6; UDP/IPv6 3 + Udp.
 R2 what is summed: the accumulator handed to finalize_checksum is, as a polynomial, exactly  word_sum(source) + word_sum(destination) +
    protocol number + data length + sum_be_words(data, skipped word)  (each once; nothing else), for IPv4 and IPv6; without pseudo-header it is
    sum_be_words alone. ipv4_word_sum is the two big-endian 16-bit words of the address; ipv6_word_sum sums the eight segments.
 R3 the word loop: one iteration of sum_be_words, evaluated from the loop head with symbolic offset and index, advances the cursor by 2 and the
    index by 1 and adds from_be_bytes(data[off..off+2]) iff index ≠ skipped word; the loop is entered with offset 0, index 0, sum 0 and runs
    while ≥ 2 octets remain (so offset = 2·index throughout and every whole word is visited once); on exit an odd trailing octet is added as
    the high byte (<< 8) iff its word index ≠ skipped word, and nothing else.
 R4 the fold: finalize_checksum is interpreted over interval × congruence-mod-0xFFFF (tsa/ones.py): on every path it returns ¬x with
    x ≡ S (mod 0xFFFF), 0 ≤ x ≤ 0xFFFF and x = 0 only for S = 0 — i.e. no end-around carry is lost, whatever the number of folds needed.
 R5 use sites (= C11.R3, imported): each transport checksum is the last write to its buffer, computed over that packet's own bytes with this
    tracer's addresses; the Paris pair stores the sequence in the checksum field and compensates in the two payload octets.
From R1–R4: the value written is ¬(Σ words with the checksum word as zero, end-around carry), hence the datagram with the checksum inserted sums
to 0xFFFF.
 R6 the Paris swap: a one's-complement sum is invariant under exchanging two aligned 16-bit words; the UDP checksum field is word 3 and the payload
    is written and read at octet 8 (word 4), so C11.R3 / R6 (imported: checksum ← sequence, payload ← previous checksum, payload was the sequence, all
    big-endian) exchange exactly two words of a datagram that verified — it still sums to 0xFFFF and carries the sequence in the checksum field.
Not decided: u32 accumulator overflow for inputs beyond the packet sizes the tracer uses (C04 allow entries bound those); `checksum()` of an empty slice returns 0 (no caller passes one: views have a minimum size).
"""
import json
import os
import re

from .common import *
from ..tables import cdec, canon
from .. import ones
from ..cfg import CFG
from ..report import run_sub
from ..vra import RangeEngine, Prover

LEVEL = 'other'
HERE = os.path.dirname(os.path.abspath(__file__))
SPEC = os.path.join(HERE, '..', '..', '..', 'spec', 'rfc_layout.json')
PUBLIC = {
    'ipv4_header_checksum': ('trippy_packet::ipv4::Ipv4Packet', None),
    'icmp_ipv4_checksum': ('trippy_packet::icmpv4::IcmpPacket', None),
    'icmp_ipv6_checksum': ('trippy_packet::icmpv6::IcmpPacket', 'IcmpV6'),
    'udp_ipv4_checksum': ('trippy_packet::udp::UdpPacket', 'Udp'),
    'tcp_ipv4_checksum': ('trippy_packet::tcp::TcpPacket', 'Tcp'),
    'udp_ipv6_checksum': ('trippy_packet::udp::UdpPacket', 'Udp'),
}


def run(chk, tier):
    prog = program(crates=('packet',))
    chk.explanation = __doc__
    for r, d, fl in (('R1', 'skipped word = checksum field of the RFC layout; protocol of the pseudo-header', 6), ('R2', 'accumulator = pseudo-header terms + word sum, each once', 5),
                     ('R3', 'sum_be_words: one big-endian word per iteration, skip only the checksum word, odd tail as high byte', 4), ('R4', 'finalize_checksum loses no end-around carry', 1)):
        chk.rule(r, d, floor=fl)
    layout = json.load(open(SPEC))
    eng = Engine(prog, inline_depth=0)

    def run_fn(name):
        f = prog.find(r'checksum::%s$' % name)
        chk.fn_seen(f['path'])
        st = St()
        args = [eng.sym_ref(st, f['locals'][i]['name'] or 'a%d' % i) if f['locals'][i]['ty'].startswith('&') else ('sym', f['locals'][i]['name'] or 'a%d' % i) for i in range(1, f['argc'] + 1)]
        return f, eng.run(f, args, st)

    # ---- R1 ---------------------------------------------------------------------------------------------------
    for name, (view, proto) in PUBLIC.items():
        f, outs = run_fn(name)
        bit = layout[view]['fields']['checksum'][0]
        word = bit // 16
        fam = 'ipv6' if 'ipv6' in name else 'ipv4'
        if proto is None:
            want = r'call:checksum::checksum\(data, %d\)' % word
        else:
            want = r'call:checksum::%s_checksum\(data, %d, src_addr, dest_addr, IpProtocol::%s\)' % (fam, word, proto)
        got = sorted({vshow(o.value) if o.kind == 'return' else o.kind for o in outs})
        if len(got) == 1 and re.fullmatch(want, got[0]):
            chk.ok('R1', name, 'skips word %d (checksum field at bit %d of %s)%s' % (word, bit, view.split('::')[-1], ', pseudo-header protocol %s' % proto if proto else ''))
        else:
            chk.fail('R1', name, fn_loc(f), '%s computes %s; the checksum field of %s is word %d%s' % (name, got, view.split('::')[-1], word, ' and the pseudo-header protocol is %s' % proto if proto else ''), key='R1|%s' % name)

    # ---- R2 ---------------------------------------------------------------------------------------------------
    # helpers of the checksum module other than the named parts (word sums, word loop, fold) are part of the caller's accumulator expression
    PARTS = r'checksum::(ipv4_word_sum|ipv6_word_sum|sum_be_words|finalize_checksum)$'
    re_ = RangeEngine(prog, inline_depth=2, inline_filter=lambda c_: bool(re.search(r'^trippy_packet::checksum::\w+$', c_)) and not re.search(PARTS, c_))
    for name, ws in (('ipv4_checksum', 'ipv4_word_sum'), ('ipv6_checksum', 'ipv6_word_sum')):
        f = prog.find(r'checksum::%s$' % name)
        chk.fn_seen(f['path'])
        st = St()
        outs = re_.run(f, [re_.sym_ref(st, 'data'), ('sym', 'ignore_word'), ('sym', 'source'), ('sym', 'destination'), ('sym', 'next_level_protocol')], st)
        rets = [o for o in outs if o.kind == 'return']
        good = bool(rets)
        why = ''
        for o in rets:
            v = o.value
            if not (isinstance(v, tuple) and v[0] == 'term' and v[1] == 'call:checksum::finalize_checksum' and len(v[2]) == 1):
                good, why = False, 'returns %s' % vshow(v)[:120]
                continue
            P = Prover(re_)
            l = P.lin(v[2][0])
            want = {'call:checksum::%s(source)' % ws: 1, 'call:checksum::%s(destination)' % ws: 1, 'call:checksum::sum_be_words(data, ignore_word)': 1}
            if l is None:
                good, why = False, 'the accumulator %s is not a sum' % vshow(v[2][0])[:160]
                continue
            terms = dict(l.t)
            proto_t = [k for k in terms if re.fullmatch(r'(as_u32\()?call:IpProtocol::id\(next_level_protocol\)\)?', k)]
            len_t = [k for k in terms if re.fullmatch(r'(as_u32\()?len\(data\)\)?', k)]
            rest = {k: c for k, c in terms.items() if k not in proto_t and k not in len_t}
            if l.c != 0 or rest != want or len(proto_t) != 1 or len(len_t) != 1 or terms[proto_t[0]] != 1 or terms[len_t[0]] != 1:
                good, why = False, 'the accumulator is %s' % l
        if good:
            chk.ok('R2', name, 'finalize(word_sum(src) + word_sum(dst) + protocol + length + sum_be_words(data, skipped))')
        else:
            chk.fail('R2', name, fn_loc(f), '%s: %s; expected word_sum(source) + word_sum(destination) + protocol number + data length + sum_be_words(data, ignore_word), each once' % (name, why), key='R2|%s' % name)
    f, outs = run_fn('checksum')
    got = {tuple((vshow(a), v) for a, v, _ in o.st.decisions): vshow(o.value) for o in outs if o.kind == 'return'}
    if got.get((('Eq(len(data), 0)', 0),)) == 'call:checksum::finalize_checksum(call:checksum::sum_be_words(data, ignore_word))' and len(got) == 2:
        chk.ok('R2', 'checksum', 'finalize(sum_be_words(data, skipped)) for non-empty data')
    else:
        chk.fail('R2', 'checksum', fn_loc(f), 'checksum() computes %s' % got, key='R2|checksum')
    f, outs = run_fn('ipv4_word_sum')
    got = sorted({vshow(o.value) for o in outs if o.kind == 'return'})
    w = lambda a, b: r'BitOr\(Shl\((?:as_u32\()?index\(call:Ipv4Addr::octets\(ip\), %d\)\)?, 8\), (?:as_u32\()?index\(call:Ipv4Addr::octets\(ip\), %d\)\)?\)' % (a, b)
    w2 = lambda a, b: r'(?:as_u32\()?call:num::from_be_bytes\(\[index\(call:Ipv4Addr::octets\(ip\), %d\), index\(call:Ipv4Addr::octets\(ip\), %d\)\]\)\)?' % (a, b)
    forms = [r'Add\(%s, %s\)' % (x(0, 1), y(2, 3)) for x in (w, w2) for y in (w, w2)] + [r'Add\(%s, %s\)' % (x(2, 3), y(0, 1)) for x in (w, w2) for y in (w, w2)]
    if len(got) == 1 and any(re.fullmatch(fm, got[0]) for fm in forms):
        chk.ok('R2', 'ipv4_word_sum', 'be16(octets[0..2]) + be16(octets[2..4])')
    else:
        chk.fail('R2', 'ipv4_word_sum', fn_loc(f), 'ipv4_word_sum is %s, not the two big-endian words of the address' % got, key='R2|ipv4_word_sum')
    f, outs = run_fn('ipv6_word_sum')
    got = sorted({vshow(o.value) for o in outs if o.kind == 'return'})
    okw = len(got) == 1 and got[0] == 'call:Iterator::sum(call:Iterator::map(call:slice::iter(call:Ipv6Addr::segments(ip)), closure:ipv6_word_sum))'
    if okw:
        cl = [c for c in prog.fns.values() if c.get('parent') == f['path'] and c['kind'] == 'Closure']
        st = St()
        co = eng.run(cl[0], [eng.sym_ref(st, 'env'), eng.sym_ref(st, 'x')], st) if cl else []
        okw = bool(co) and all(vshow(o.value) in ('x', 'as_u32(x)') for o in co if o.kind == 'return')
    if not okw:
        okw = _fold_segments(prog, f)
    if okw:
        chk.ok('R2', 'ipv6_word_sum', 'Σ segments (each widened to u32)')
    else:
        chk.fail('R2', 'ipv6_word_sum', fn_loc(f), 'ipv6_word_sum is %s, not the sum of the eight 16-bit segments' % got, key='R2|ipv6_word_sum')

    # ---- R3 ---------------------------------------------------------------------------------------------------
    f = prog.find(r'checksum::sum_be_words$')
    chk.fn_seen(f['path'])
    g = CFG(f)
    heads = sorted({h for (_, h) in g.back_edges()})
    # roles by type and data flow, not by name: among the user locals the loop body assigns there is one byte-slice cursor, one u32
    # accumulator and one usize index
    names = {}
    if len(heads) == 1:
        body_blocks = {heads[0]}
        for (src_, hdr_) in g.back_edges():
            stack_ = [src_]
            while stack_:
                x_ = stack_.pop()
                if x_ in body_blocks:
                    continue
                body_blocks.add(x_)
                stack_.extend(g.pred[x_])
        assigned = set()
        for bi_ in body_blocks:
            for st__ in f['blocks'][bi_]['stmts']:
                if 'lhs' in st__ and not st__['lhs']['p']:
                    assigned.add(st__['lhs']['l'])
            t__ = f['blocks'][bi_]['term']
            if t__['k'] == 'call' and not t__['dest']['p']:
                assigned.add(t__['dest']['l'])
        user = [l_ for l_ in sorted(assigned) if f['locals'][l_]['name'] and l_ > f['argc']]
        by_ty = {}
        for l_ in user:
            by_ty.setdefault(f['locals'][l_]['ty'], []).append(l_)
        cur = [l_ for ty_, ls in by_ty.items() if re.fullmatch(r"&(?:'\w+ )?\[u8\]", ty_) for l_ in ls]
        if len(cur) > 1:
            # the cursor is the slice that lives across iterations (initialised before the loop); a slice bound inside one iteration
            # (`[hi, lo, tail @ ..] = rest`) is a temporary of that iteration
            outside = set()
            for bi_, b__ in enumerate(f['blocks']):
                if bi_ in body_blocks or b__.get('cleanup'):
                    continue
                for st__ in b__['stmts']:
                    if 'lhs' in st__ and not st__['lhs']['p']:
                        outside.add(st__['lhs']['l'])
            cur = [l_ for l_ in cur if l_ in outside]
        acc = by_ty.get('u32', [])
        idx = by_ty.get('usize', [])
        iterform = any(f['blocks'][bi_]['term']['k'] == 'call' and re.search(r'Enumerate<.*ChunksExact<.*::next$', f['blocks'][bi_]['term'].get('callee_args') or '')
                       for bi_ in body_blocks)
        if iterform and len(acc) == 1 and f['argc'] == 2:
            names = {'data': 1, 'ignore_word': 2, 'sum': acc[0], 'cur_data': None, 'i': None}
        elif len(cur) == 1 and len(acc) == 1 and len(idx) == 1 and f['argc'] == 2:
            names = {'data': 1, 'ignore_word': 2, 'cur_data': cur[0], 'sum': acc[0], 'i': idx[0]}
    need = ['data', 'ignore_word', 'cur_data', 'sum', 'i']
    if len(heads) != 1 or any(n not in names for n in need):
        chk.fail('R3', 'shape', fn_loc(f), 'sum_be_words: expected one loop whose body advances one byte-slice cursor, one usize word index and one u32 accumulator (loops %s)' % (heads,), key='R3|shape')
    else:
        head = heads[0]
        if iterform:
            _r3_iter(chk, prog, f, head, names)
        else:
            _r3_while(chk, prog, f, head, names)
    chk.ok('R3', 'induction', 'offset = 2·index is preserved (R3 entry + iteration): word k is bytes 2k, 2k+1', nontrivial=False)
    _r4_r5(chk, prog)


class BodyEngine(RangeEngine):
    # the loop body is evaluated once from a hand-made symbolic head state: no havoc, no loop closing
    def on_block(self, fn, fid, bb, s, nvisit):
        pass

    def loop_closed(self, fn, bb):
        return False


def _fold_segments(prog, f):
    """ipv6_word_sum written as a loop: `for segment in ip.segments() { sum += u32::from(segment) }` — entered with sum = 0 over an iterator of
    all eight segments (std contract: each item once), one iteration adds exactly the item, the exit returns the accumulator"""
    g = CFG(f)
    heads = sorted({h for (_, h) in g.back_edges()})
    acc = [i for i, l in enumerate(f['locals']) if l['name'] and l['ty'] == 'u32' and i > f['argc']]
    if len(heads) != 1 or len(acc) != 1 or f['argc'] != 1:
        return False
    e3 = BodyEngine(prog, inline_depth=1)
    st = St()
    st.nframes += 1
    fid = st.nframes
    st.mem[(fid, 1)] = ('sym', 'ip')
    pre = e3.run_region(f, fid, 0, st, {heads[0]})
    if len(pre) != 1 or pre[0].kind != 'stop' or pre[0].st.decisions or vshow(e3.purify(pre[0].st.mem.get((fid, acc[0])), pre[0].st)) != '0':
        return False
    s1 = pre[0].st.fork()
    s1.decisions, s1.events = [], []
    s1.mem[(fid, acc[0])] = ('sym', 'sum0')
    ITER = r'call:iter::into_iter\(call:Ipv6Addr::segments\(ip\)\)|call:\w+::into_iter\(call:slice::iter\(call:Ipv6Addr::segments\(ip\)\)\)'
    NEXT = r'call:\w+::next\((?:%s)\)' % ITER
    seen = set()
    for o in e3.run_region(f, fid, heads[0], s1, {heads[0]}):
        d = [(vshow(a), v) for a, v, _ in o.st.decisions]
        if len(d) != 1 or not re.fullmatch(r'discr\(%s\)' % NEXT, d[0][0]):
            return False
        if o.kind == 'stop' and d[0][1] == 1:
            val = vshow(e3.purify(o.st.mem.get((fid, acc[0])), o.st))
            if not re.fullmatch(r'Add\(sum0, (?:as_u32\()?(?:deref\()?field:0\(%s\)\)?\)?\)' % NEXT, val):
                return False
        elif o.kind == 'return' and d[0][1] == 0:
            if vshow(o.value) != 'sum0':
                return False
        else:
            return False
        seen.add(o.kind)
    return seen == {'stop', 'return'}


TAIL = r'Add\(sum0, Shl\((?:as_u32\()?index\(data, Sub\(len\(data\), 1\)\)\)?, 8\)\)'


def _tri(cdx, atom):
    kv = canon(atom, 1)
    return None if cdx.get(kv[0]) is None else int(cdx.get(kv[0]) == kv[1])


def _r3_iter(chk, prog, f, head, names):
    """`for (i, word) in data.chunks_exact(2).enumerate()`: by the std contract the k-th item is (k, data[2k..2k+2]) for k < len/2 and the loop
    ends after len/2 items; the body is evaluated once on a symbolic item (index#k, chunk#k)."""
    e3 = BodyEngine(prog, inline_depth=1)
    st = St()
    st.nframes += 1
    fid = st.nframes
    st.mem[(fid, 1)] = e3.sym_ref(st, 'data')
    st.mem[(fid, 2)] = ('sym', 'ignore_word')
    pre = e3.run_region(f, fid, 0, st, {head})
    stops = [o for o in pre if o.kind == 'stop']
    early = [o for o in pre if o.kind != 'stop']
    ok0 = len(stops) == 1 and vshow(e3.purify(stops[0].st.mem.get((fid, names['sum'])), stops[0].st)) == '0'
    if ok0 and all(o.kind == 'return' and vshow(o.value) == '0' and [(vshow(a), v) for a, v, _ in o.st.decisions] == [('Eq(len(data), 0)', 1)] for o in early):
        chk.ok('R3', 'entry', 'sum = 0 (empty input returns 0); the iterator is checked with the iteration')
    else:
        chk.fail('R3', 'entry', fn_loc(f), 'sum_be_words does not enter its loop with sum = 0 (%s)' % [o.kind for o in pre], key='R3|entry')
    if not stops:
        chk.fail('R3', 'iteration', fn_loc(f), 'sum_be_words: the loop head is not reached', key='R3|iteration')
        return
    s1 = stops[0].st.fork()
    s1.decisions = []
    s1.events = []
    s1.facts = {}
    s1.mem[(fid, names['sum'])] = ('sym', 'sum0')
    body = e3.run_region(f, fid, head, s1, {head})
    ITER = r'discr\(call:Enumerate::next\(call:IntoIterator::into_iter\(call:Iterator::enumerate\(call:slice::chunks_exact\(data, 2\)\)\)\)\)'
    it, ex = {}, {}
    for o in body:
        d = tuple((vshow(a), v) for a, v, _ in o.st.decisions)
        if o.kind == 'stop':
            it[d] = vshow(e3.purify(o.st.mem.get((fid, names['sum'])), o.st))
        else:
            ex[d] = vshow(o.value) if o.kind == 'return' else o.kind
    okb, whyb = len(it) == 2, ''
    for d, val in it.items():
        m = len(d) == 2 and re.fullmatch(ITER, d[0][0]) and d[0][1] == 1 and re.fullmatch(r'Ne\(index#(\d+), ignore_word\)|Ne\(ignore_word, index#(\d+)\)|Eq\(index#(\d+), ignore_word\)|Eq\(ignore_word, index#(\d+)\)', d[1][0])
        if not m:
            okb, whyb = False, 'iteration decisions %s' % (d,)
            continue
        k = [g for g in m.groups() if g][0]
        add = (d[1][1] == 1) == d[1][0].startswith('Ne')
        wsum = (r'Add\(sum0, (?:as_u32\()?call:num::from_be_bytes\((?:\[index\(chunk#%s, 0\), index\(chunk#%s, 1\)\]|array_of\(chunk#%s\))\)\)?\)' % (k, k, k)) if add else r'sum0'
        if not re.fullmatch(wsum, val):
            okb, whyb = False, 'with index %s skipped word one iteration gives sum = %s' % ('≠' if add else '=', val)
    if okb:
        chk.ok('R3', 'iteration', 'item k of chunks_exact(2).enumerate() over the whole of data is (k, data[2k..2k+2]); sum += be16(item) iff k ≠ skipped word')
    else:
        chk.fail('R3', 'iteration', fn_loc(f), 'sum_be_words loop body: %s' % (whyb or it), key='R3|iteration')
    oke, whye, seen_tail = True, '', set()
    for d, val in ex.items():
        if not (d and re.fullmatch(ITER, d[0][0]) and d[0][1] == 0):
            oke, whye = False, 'leaves the loop under %s' % (d,)
            continue
        cdx = cdec(list(d[1:]))
        ne = _tri(cdx, 'Ne(Div(len(data), 2), ignore_word)')
        odd = _tri(cdx, 'Ne(BitAnd(len(data), 1), 0)')
        tail = ne == 1 and odd == 1
        seen_tail.add((ne, odd))
        if not re.fullmatch(TAIL if tail else r'sum0', val):
            oke, whye = False, 'on exit with (len/2 ≠ skipped: %s, odd length: %s) returns %s' % (ne, odd, val)
    if oke and (1, 1) in seen_tail and len(ex) >= 3:
        chk.ok('R3', 'exit', 'returns sum, plus data[len−1] << 8 iff the length is odd and the tail word (index len/2) is not the skipped one')
    else:
        chk.fail('R3', 'exit', fn_loc(f), 'sum_be_words: %s' % (whye or ex), key='R3|exit')


def _r3_while(chk, prog, f, head, names):
    if True:
        e3 = BodyEngine(prog, inline_depth=1)
        st = St()
        st.nframes += 1
        fid = st.nframes
        dref = e3.sym_ref(st, 'data')
        st.mem[(fid, 1)] = dref
        st.mem[(fid, 2)] = ('sym', 'ignore_word')
        # entry → loop head
        pre = e3.run_region(f, fid, 0, st, {head})
        stops = [o for o in pre if o.kind == 'stop']
        early = [o for o in pre if o.kind != 'stop']
        ok0 = len(stops) == 1
        if ok0:
            s0 = stops[0].st
            init = {n: vshow(e3.purify(s0.mem.get((fid, names[n])), s0)) for n in ('cur_data', 'sum', 'i')}
            ok0 = init == {'cur_data': 'data', 'sum': '0', 'i': '0'}
        if ok0 and all(o.kind == 'return' and vshow(o.value) == '0' and [(vshow(a), v) for a, v, _ in o.st.decisions] == [('Eq(len(data), 0)', 1)] for o in early):
            chk.ok('R3', 'entry', 'cursor = data, index = 0, sum = 0 (empty input returns 0)')
        else:
            chk.fail('R3', 'entry', fn_loc(f), 'sum_be_words does not enter its loop with cursor = data, index = 0, sum = 0 (%s)' % (init if stops else [o.kind for o in pre]), key='R3|entry')
        if stops:
            s1 = stops[0].st.fork()
            s1.decisions = []
            s1.events = []
            s1.facts = {}
            ln = ('term', 'len', [('sym', 'data')])
            s1.mem[(fid, names['cur_data'])] = ('term', 'subslice', [('sym', 'data'), ('sym', 'off'), ln])
            s1.mem[(fid, names['sum'])] = ('sym', 'sum0')
            s1.mem[(fid, names['i'])] = ('sym', 'i0')
            P3 = e3.P

            def flat(v):
                """nested sub-slices of `data` -> (start, end) as linear forms in off / len(data), else None"""
                if isinstance(v, tuple) and v[0] == 'sym' and v[1] == 'data':
                    return P3.lin(C(0)), P3.lin(('term', 'len', [('sym', 'data')]))
                if isinstance(v, tuple) and v[0] == 'term' and v[1] == 'subslice':
                    b_ = flat(v[2][0])
                    a_, c_ = P3.lin(v[2][1]), P3.lin(v[2][2])
                    if b_ is None or a_ is None or c_ is None:
                        return None
                    return b_[0].add(a_), b_[0].add(c_)
                return None

            def lstr(l):
                parts = [('%s' % n if c == 1 else '%d*%s' % (c, n)) for n, c in sorted(l.t.items()) if c != 0]
                if l.c != 0 or not parts:
                    parts.append('%d' % l.c)
                return ' + '.join(parts)

            def show_slice(v):
                fl = flat(v)
                return 'data[%s..%s]' % (lstr(fl[0]), lstr(fl[1])) if fl else vshow(v)

            def norm_val(v):
                """print a value with every sub-slice of data flattened"""
                if isinstance(v, tuple) and v[0] == 'term' and v[1] == 'subslice':
                    return show_slice(v)
                if isinstance(v, tuple) and v[0] == 'arr' and len(v[1]) >= 2 and all(
                        isinstance(e_, tuple) and e_[:2] == ('term', 'index') and is_c(e_[2][1]) and e_[2][1][1] == k_ and key(e_[2][0]) == key(v[1][0][2][0])
                        for k_, e_ in enumerate(v[1])):
                    # [s[0], s[1], ..] element by element is the array of the first octets of s (slice pattern / explicit indexing)
                    fl = flat(v[1][0][2][0])
                    if fl:
                        return 'array_of(data[%s..%s])' % (lstr(fl[0]), lstr(fl[0].add(P3.lin(C(len(v[1]))))))
                if isinstance(v, tuple) and v[0] == 'term':
                    return '%s(%s)' % (v[1], ', '.join(norm_val(x) for x in v[2]))
                return vshow(v)
            body = e3.run_region(f, fid, head, s1, {head})
            it = {}
            ex = {}
            for o in body:
                d = tuple((vshow(a), v) for a, v, _ in o.st.decisions)
                if o.kind == 'stop':
                    it[d] = {n: norm_val(e3.purify(o.st.mem.get((fid, names[n])), o.st)) for n in ('cur_data', 'sum', 'i')}
                elif o.kind == 'return':
                    ex[d] = vshow(o.value)
                else:
                    ex[d] = o.kind
            GUARD = r'Ge\(Sub\(len\(data\), off\), 2\)|Ge\(len\(subslice\(data, off, len\(data\)\)\), 2\)'
            NE = r'Ne\(i0, ignore_word\)'
            okb = len(it) == 2
            whyb = ''
            for d, vals in it.items():
                if not (len(d) == 2 and re.fullmatch(GUARD, d[0][0]) and d[0][1] == 1 and re.fullmatch(NE, d[1][0])):
                    okb, whyb = False, 'iteration decisions %s' % (d,)
                    continue
                add = d[1][1] == 1
                wsum = r'Add\(sum0, (?:as_u32\()?call:num::from_be_bytes\(array_of\(data\[off\.\.off \+ 2\]\)\)\)?\)' if add else r'sum0'
                if not (vals['cur_data'] == 'data[off + 2..len(data)]' and vals['i'] == 'Add(i0, 1)' and re.fullmatch(wsum, vals['sum'])):
                    okb, whyb = False, 'with index %s skipped word one iteration gives %s' % ('≠' if add else '=', vals)
            if okb:
                chk.ok('R3', 'iteration', 'cursor += 2, index += 1, sum += be16(data[off..off+2]) iff index ≠ skipped word')
            else:
                chk.fail('R3', 'iteration', fn_loc(f), 'sum_be_words loop body: %s' % (whyb or it), key='R3|iteration')
            oke = True
            whye = ''
            seen_tail = set()
            for d, val in ex.items():
                if not (d and re.fullmatch(GUARD, d[0][0]) and d[0][1] == 0):
                    oke, whye = False, 'leaves the loop under %s' % (d,)
                    continue
                dd = dict(d[1:])
                cdx = cdec(list(d[1:]))
                ne = (lambda kv: None if cdx.get(kv[0]) is None else int(cdx.get(kv[0]) == kv[1]))(canon('Ne(i0, ignore_word)', 1))
                odd = (lambda kv: None if cdx.get(kv[0]) is None else int(cdx.get(kv[0]) == kv[1]))(canon('Ne(BitAnd(len(data), 1), 0)', 1))
                if odd is None:      # the same test spelled with the remainder
                    for alt_, pol_ in (('Eq(Rem(len(data), 2), 1)', 1), ('Ne(Rem(len(data), 2), 0)', 1), ('Eq(Rem(len(data), 2), 0)', 0), ('Eq(BitAnd(len(data), 1), 1)', 1)):
                        kv_ = canon(alt_, 1)
                        if cdx.get(kv_[0]) is not None:
                            odd = int((cdx.get(kv_[0]) == kv_[1]) == bool(pol_))
                            break
                tail = ne == 1 and odd == 1
                seen_tail.add((ne, odd))
                want = r'Add\(sum0, Shl\((?:as_u32\()?index\(data, Sub\(len\(data\), 1\)\)\)?, 8\)\)' if tail else r'sum0'
                if not re.fullmatch(want, val):
                    oke, whye = False, 'on exit with (index ≠ skipped: %s, odd length: %s) returns %s' % (ne, odd, val)
            if oke and (1, 1) in seen_tail and len(ex) >= 3:
                chk.ok('R3', 'exit', 'returns sum, plus data[len−1] << 8 iff the length is odd and the tail word is not the skipped one')
            else:
                chk.fail('R3', 'exit', fn_loc(f), 'sum_be_words: %s' % (whye or ex), key='R3|exit')


def _r4_r5(chk, prog):
    # ---- R4 ---------------------------------------------------------------------------------------------------
    ff = prog.find(r'checksum::finalize_checksum$')
    chk.fn_seen(ff['path'])
    ok, msg, detail = ones.analyse(ff)
    if ok:
        chk.ok('R4', 'finalize_checksum', msg)
    else:
        chk.fail('R4', 'finalize_checksum', fn_loc(ff), 'finalize_checksum: %s' % msg, detail={'cases': detail}, key='R4|finalize_checksum')
    callers = sorted(short(c) for c in __import__('tsa.callgraph', fromlist=['CallGraph']).CallGraph(prog).callers(ff['path']) if '::tests' not in c)
    if callers and all(re.fullmatch(r'checksum::\w+', c) for c in callers):
        chk.ok('R4', 'finalize:callers', callers)
    else:
        chk.fail('R4', 'finalize:callers', fn_loc(ff), 'finalize_checksum is called from %s' % callers, key='R4|callers')

    # ---- R5 ---------------------------------------------------------------------------------------------------
    run_sub(chk, 'c11', 'C11.', {'R3', 'R6'})

    # ---- R6: the Paris swap keeps the datagram verifying ---------------------------------------------------------
    # The one's-complement sum is a sum of 16-bit aligned words, hence invariant under exchanging two of them. C11.R3 / R6 (imported) decide that the
    # Paris pair writes be(sequence) where the checksum was and be(checksum) where the two payload octets be(sequence) were; what remains is
    # that both places are whole aligned words of the UDP datagram: checksum field at a bit offset divisible by 16, payload written and read at one even octet offset.
    chk.rule('R6', 'the Paris swap exchanges two aligned 16-bit words (sum invariant)', floor=3)
    lay = json.load(open(SPEC))['trippy_packet::udp::UdpPacket']
    off, width = lay['fields']['checksum']
    if off % 16 == 0 and width == 16:
        chk.ok('R6', 'checksum-word', 'UDP checksum field = word %d of the datagram' % (off // 16))
    else:
        chk.fail('R6', 'checksum-word', 'tsa/spec/rfc_layout.json', 'the UDP checksum field is not an aligned 16-bit word', key='R6|checksum-word')
    e6 = Engine(prog, inline_depth=1)
    offs = {}
    for nm, rx in (('set_payload', r'Range\((\d+), Add\(\1, len\(vals\)\)\)'), ('payload', r'RangeFrom\((\d+)\)')):
        f6 = prog.find(r'udp::UdpPacket::%s$' % nm)
        chk.fn_seen(f6['path'])
        st6 = St()
        o6 = e6.run(f6, [e6.sym_ref(st6, 'self')] + ([('sym', 'vals')] if nm == 'set_payload' else []), st6)
        rng = {vshow(c[7][1]) for o in o6 if o.kind == 'return' for c in user_calls(o) if re.search(r'index::index(_mut)?$', short(c[1]))}
        m6 = [re.fullmatch(rx, r_) for r_ in rng]
        if rng and all(m6) and len({m.group(1) for m in m6}) == 1:
            offs[nm] = int(m6[0].group(1))
        else:
            chk.fail('R6', 'payload-offset:' + nm, fn_loc(f6), 'UdpPacket::%s addresses the payload as %s: expected one constant octet offset' % (nm, sorted(rng)), key='R6|payload-offset|' + nm)
    if len(offs) == 2:
        if offs['set_payload'] == offs['payload'] == lay['min'] and offs['payload'] % 2 == 0:
            chk.ok('R6', 'payload-offset', 'UDP payload is written and read at octet %d = the RFC 768 header size, a word boundary' % offs['payload'])
            chk.ok('R6', 'swap', 'words %d and %d exchanged (C11.R3: checksum ← sequence, payload ← previous checksum, both big-endian; C11.R6: payload was be(sequence)): Σ unchanged' % (off // 16, offs['payload'] // 2))
        else:
            chk.fail('R6', 'payload-offset', fn_loc(prog.find(r'udp::UdpPacket::set_payload$')), 'UDP payload written at octet %d and read at %d (header size %d): the Paris compensation would not land on the word that held the sequence' % (
                offs['set_payload'], offs['payload'], lay['min']), key='R6|payload-offset')
