"""C06 — probe scheduling discipline: TTL order, limits and in-flight window.

Decides the safety clauses as facts about the guard under which a probe is created:
 R1 guard table (per protocol cell): a probe is issued iff
      ¬target_found ∧ ttl ≤ max_ttl ∧ (target_ttl = Some(t) ? ttl ≤ t : ttl − max_received.unwrap_or_default() < max_inflight),
    atoms identified by operand provenance; the getters involved return the fields they name.
 R2 TTL sequencing: `ttl` is written only by next_probe (ttl+1), advance_round (= first_ttl) and new; next_probe issues the
    probe with the current ttl and sequence, reissue_probe with ttl−1 and the current sequence and does not write ttl.
 R3 pairing: on every trace of send_request each issued probe (next_probe / reissue_probe) is handed to do_send,
    one-to-one and in order.
 R4 the target bookkeeping the guard relies on evolves as specified (shared with C03.R4: latched target_found, ECMP-aware
    target_ttl, max of max_received_ttl) and is reset only between rounds.
 R5 liveness at round start: with target_found=false, max_received_ttl=None, ttl=first_ttl the guard must be implied by the
    quantifier's ranges (1 ≤ first ≤ max ≤ 254, inflight ≥ 1).
Not decided: how the window evolves with response arrival order (schedules).
"""
import re

from .common import *
from ..tables import Atom, check_decision_table
from ..writers import field_writers

LEVEL = 'other'
TS = 'trippy_core::strategy::state::TracerState'
ST = r'(?:st|havoc:[^ ]*\(st, \d+\))'


def run(chk, tier):
    prog = program(crates=('core',))
    chk.explanation = __doc__
    chk.assumptions += ['tracing macros have no effect on program state']
    # bool-valued private helpers of Strategy are named parts of the guard expression: they are evaluated in the caller's trace
    SADT = prog.find(r'Strategy::send_request$').get('impl_adt')
    guard_helpers = {p_ for p_, f_ in prog.fns.items() if f_.get('impl_adt') == SADT and f_['kind'] == 'AssocFn' and f_['locals'][0]['ty'] == 'bool' and
                     not f_.get('impl_trait')}
    eng0 = Engine(prog, inline_depth=1, loop_visits=2, inline_filter=lambda c_: c_ in guard_helpers)
    eng = Engine(prog, inline_depth=3)
    f = prog.find(r'Strategy::send_request$')
    chk.fn_seen(f['path'])

    chk.rule('R1', 'send guard == ¬found ∧ ttl≤max_ttl ∧ (target known ? ttl≤target : ttl−max_recv<max_inflight), 3 protocol cells', floor=3 * 24)
    chk.rule('R3', 'each issued probe is handed to do_send, one-to-one and in order', floor=9)
    TTL = r'call:TracerState::ttl\(st\)'
    atoms = [
        Atom('found', r'call:TracerState::target_found\(st\)'),
        Atom('le_max', r'Le\(%s, self\.config\.max_ttl\)|Ge\(self\.config\.max_ttl, %s\)' % (TTL, TTL),
             r'Gt\(%s, self\.config\.max_ttl\)|Lt\(self\.config\.max_ttl, %s\)' % (TTL, TTL)),
        Atom('known', r'discr\(call:TracerState::target_ttl\(st\)\)', truth={1: 1}),
        Atom('le_target', r'Le\(%s, field:0\(call:TracerState::target_ttl\(st\)\)\)' % TTL,
             r'Gt\(%s, field:0\(call:TracerState::target_ttl\(st\)\)\)' % TTL),
        # window base when nothing has been received yet: 0 (legacy) or first_ttl−1; R5 decides whether the base is live
        Atom('inflight', r'Lt\(Sub\(%s, (unwrap_or_default\(call:TracerState::max_received_ttl\(st\)\)|unwrap_or\(call:TracerState::max_received_ttl\(st\), TimeToLive\(saturating_sub\(self\.config\.first_ttl\.0, 1\)\)\))\), self\.config\.max_inflight\.0\)' % TTL),
    ]
    post_guard = lambda s: ('do_send' in s) or ('round_has_capacity' in s)
    issued = lambda o: bool(user_calls(o, r'TracerState::(next_probe|round_has_capacity)$'))

    def spec(a):
        if a['known']:
            w = a['le_target']
        else:
            w = a['inflight']
        return bool((not a['found']) and a['le_max'] and w)

    for proto in ('Icmp', 'Udp', 'Tcp'):
        st = St()
        selfv = ('rec', 'self', {'config': ('rec', 'self.config', {'protocol': eng0.adt_val('trippy_core::config::Protocol', proto)})})
        outs = eng0.run(f, [eng0.obj_ref(st, selfv), eng0.sym_ref(st, 'network'), eng0.sym_ref(st, 'st')], st)
        # the TCP re-issue loop is cut after 2 visits: the guard is decided before the loop, so cut traces still count
        guard_outs = [_as_return(o) for o in outs]

        def spec_dc(a):
            # le_target is only evaluated when known, inflight only when unknown: the other is a don't-care
            return spec(a)
        check_decision_table(chk, 'R1', 'send_request[%s]' % proto, fn_loc(f), guard_outs, atoms, issued, spec_dc,
                             ignore=post_guard, key_prefix='R1|send_request|%s' % proto, allow_cut=True)
        # R3 pairing
        for i, o in enumerate(outs):
            calls = user_calls(o, r'TracerState::(next_probe|reissue_probe)$|Strategy::<F>::do_send$')
            names = [short(c[1]).split('::')[-1] for c in calls]
            ok = True
            why = ''
            j = 0
            while j < len(names):
                if names[j] in ('next_probe', 'reissue_probe'):
                    if j + 1 < len(names) and names[j + 1] == 'do_send':
                        arg = vshow(calls[j + 1][7][2])
                        if not re.fullmatch(r'call:TracerState::%s\(.*\)' % names[j], arg):
                            ok, why = False, 'do_send is given %s, not the probe just issued by %s' % (arg[:80], names[j])
                        j += 2
                        continue
                    if o.kind == 'cut' and j + 1 == len(names):
                        j += 1
                        continue
                    ok, why = False, '%s is not followed by do_send' % names[j]
                    break
                ok, why = False, 'do_send without a freshly issued probe'
                break
            if names.count('next_probe') > 1:
                ok, why = False, 'more than one new TTL per send_request call'
            inst = 'pairing[%s]:trace%d' % (proto, i)
            if ok:
                chk.ok('R3', inst, names)
            else:
                chk.fail('R3', inst, fn_loc(f), 'send_request[%s]: %s (%s)' % (proto, why, names), key='R3|pairing|%s|%s' % (proto, why[:40]))

    chk.rule('R1g', 'getters used by the guard return the fields they name', floor=4)
    check_getter(chk, 'R1g', eng, prog, r'TracerState::ttl$', 'ttl')
    check_getter(chk, 'R1g', eng, prog, r'TracerState::target_found$', 'target_found')
    check_getter(chk, 'R1g', eng, prog, r'TracerState::target_ttl$', 'target_ttl')
    check_getter(chk, 'R1g', eng, prog, r'TracerState::max_received_ttl$', 'max_received_ttl')

    # ---- R2: TTL sequencing ---------------------------------------------------------------------------
    chk.rule('R2', 'ttl written only by next_probe(+1)/advance_round(first_ttl)/new; issued probes carry (sequence, ttl | ttl−1)', floor=6)
    w = field_writers(prog, TS)
    ws = sorted({p for (p, _, _) in w.get('ttl', ())})
    bad = [p for p in ws if prog.fns[p].get('name') not in ('next_probe', 'advance_round', 'new') or not p.startswith(TS)]
    if bad or not ws:
        chk.fail('R2', 'writers:ttl', fn_loc(prog.fns[bad[0]]) if bad else '?', 'TracerState.ttl is written by %s' % [short(b) for b in bad],
                 key='R2|writers|' + (short(bad[0]) if bad else 'none'))
    else:
        chk.ok('R2', 'writers:ttl', [short(p) for p in ws])
    engp = Engine(prog, inline_depth=1, opaque=[r'TracerState::probe_data$', r'Probe::new$'])
    for name, ttl_rx, writes_ttl in (('next_probe', r'self\.ttl', True), ('reissue_probe', r'TimeToLive\(Sub\(self\.ttl, 1\)\)', False)):
        fn = prog.find(r'TracerState::%s$' % name)
        chk.fn_seen(fn['path'])
        st = St()
        outs = engp.run(fn, [engp.sym_ref(st, 'self'), ('sym', 'sent')], st)
        rets = [o for o in outs if o.kind == 'return']
        if not rets:
            chk.fail('R2', name + ':traces', fn_loc(fn), '%s has no returning trace' % name, key='R2|%s|noreturn' % name)
        for o in rets:
            news = user_calls(o, r'Probe::new$')
            wr = {}
            for e in o.st.events:
                if e[0] == 'write' and e[1] == TS:
                    wr.setdefault(e[2], []).append(vshow(e[3]))
            ok = len(news) == 1
            detail = ''
            if ok:
                a = [vshow(x) for x in news[0][7]]
                # Probe::new(sequence, identifier, src_port, dest_port, ttl, round, sent, flags)
                ok = a[0] == 'self.sequence' and bool(re.fullmatch(ttl_rx, a[4])) and a[5] == 'self.round' and a[6] == 'sent'
                detail = 'Probe::new(seq=%s, ttl=%s, round=%s, sent=%s)' % (a[0], a[4], a[5], a[6])
            seqw = wr.get('sequence', [])
            ttlw = wr.get('ttl', [])
            ok_seq = len(seqw) == 1 and re.fullmatch(r'(Sequence\()?Add\(self\.sequence(\.0)?, 1\)\)?', seqw[0])
            ok_ttl = (len(ttlw) == 1 and re.fullmatch(r'(TimeToLive\()?Add\(self\.ttl(\.0)?, 1\)\)?', ttlw[0])) if writes_ttl else not ttlw
            if ok and ok_seq and ok_ttl:
                chk.ok('R2', name + ':effects', detail)
            else:
                chk.fail('R2', name + ':effects', fn_loc(fn),
                         '%s must issue the probe with the current sequence and %s and advance sequence by one%s; found %s, sequence writes %s, ttl writes %s' % (
                             name, 'ttl' if writes_ttl else 'ttl−1', ' and ttl by one' if writes_ttl else ' without touching ttl', detail, seqw, ttlw),
                         key='R2|%s|effects' % name)
    # advance_round: ttl = first_ttl
    fa = prog.find(r'TracerState::advance_round$')
    st = St()
    enga = Engine(prog, inline_depth=1)
    outs = enga.run(fa, [enga.sym_ref(st, 'self'), ('sym', 'first_ttl')], st)
    for i, o in enumerate(outs):
        wr = {}
        for e in o.st.events:
            if e[0] == 'write' and e[1] == TS:
                wr.setdefault(e[2], []).append(vshow(e[3]))
        good = o.kind == 'return' and wr.get('ttl') == ['first_ttl'] and wr.get('target_found') == ['0'] and \
            wr.get('max_received_ttl') == ['Option::None'] and 'target_ttl' not in wr
        if good:
            chk.ok('R2', 'advance_round:reset%d' % i, 'ttl=first_ttl, target_found=false, max_received_ttl=None')
        else:
            chk.fail('R2', 'advance_round:reset%d' % i, fn_loc(fa), 'advance_round must reset ttl=first_ttl, target_found=false, '
                     'max_received_ttl=None and keep target_ttl; writes: %s' % {k: v for k, v in wr.items() if k in ('ttl', 'target_found', 'max_received_ttl', 'target_ttl')},
                     key='R2|advance_round|reset')

    # ---- R4: target bookkeeping transitions (complete_probe) --------------------------------------------
    chk.rule('R4', 'target_found latched, target_ttl / max_received_ttl transitions as specified (complete_probe)', floor=10)
    from . import c03
    sub = _Sub(chk, 'R4')
    _run_c03_transitions(sub, prog)

    # ---- R5: liveness at round start ---------------------------------------------------------------------
    chk.rule('R5', 'every round sends at least the first-ttl probe: the guard at round start holds for all 1≤first≤max≤254, 1≤inflight≤255', floor=1)
    from ..termeval import ev, Unknown, Underflow
    enginl = Engine(prog, inline_depth=2, opaque=[r'TracerState::next_probe$', r'Strategy::<F>::do_send$', r'TracerState::round_has_capacity$'])   # depth 2: getters inside a guard helper
    TTLT = 'trippy_core::types::TimeToLive'
    for known in (0, 1):
        st = St()
        stv = ('rec', 'st', {'target_found': C(0), 'max_received_ttl': enginl.adt_val('core::option::Option', 'None'),
                             'ttl': ('adt', TTLT, 0, 'TimeToLive', [('sym', 'first_ttl')]),
                             'target_ttl': enginl.adt_val('core::option::Option', 'Some', [('adt', TTLT, 0, 'TimeToLive', [('sym', 'target_ttl')])]) if known
                             else enginl.adt_val('core::option::Option', 'None')})
        cfgv = ('rec', 'self.config', {'protocol': enginl.adt_val('trippy_core::config::Protocol', 'Icmp'),
                                       'first_ttl': ('adt', TTLT, 0, 'TimeToLive', [('sym', 'first_ttl')]),
                                       'max_ttl': ('adt', TTLT, 0, 'TimeToLive', [('sym', 'max_ttl')]),
                                       'max_inflight': ('adt', 'trippy_core::types::MaxInflight', 0, 'MaxInflight', [('sym', 'max_inflight')])})
        selfv = ('rec', 'self', {'config': cfgv})
        outs = enginl.run(f, [enginl.obj_ref(st, selfv), enginl.sym_ref(st, 'network'), enginl.obj_ref(st, stv)], st)
        for o in outs:
            if user_calls(o, r'TracerState::next_probe$'):
                continue
            for (a, v, _) in o.st.decisions:
                if v != 0:
                    continue
                astr = vshow(a)
                # finite case split over the quantifier's ranges: where is this blocking atom false?
                bad = []
                try:
                    for first in range(1, 255):
                        for m in (range(1, 256) if 'max_inflight' in astr else (1,)):
                            for mx in ((first, 254) if 'max_ttl' in astr else (254,)):
                                for tt in ((first, 254) if 'target_ttl' in astr else (254,)):
                                    env = {'first_ttl': first, 'max_inflight': m, 'max_ttl': mx, 'target_ttl': tt}
                                    try:
                                        if not ev(a, env):
                                            bad.append((first, m))
                                    except Underflow:
                                        bad.append((first, m))
                except Unknown as e:
                    chk.fail('R5', 'round-start[known=%d]:%s' % (known, astr), fn_loc(f),
                             'the round-start guard depends on %s, which the analysis cannot evaluate' % (e,), key='R5|round-start|unknown-atom')
                    continue
                inst = 'round-start[known=%d]:%s' % (known, astr)
                if not bad:
                    chk.ok('R5', inst, 'true for all first_ttl 1..254, max_inflight 1..255 (max_ttl ≥ first_ttl, known target ≥ first_ttl)')
                    continue
                bs = set(bad)
                if all(m == 1 for _, m in bs) and len({f_ for f_, _ in bs}) >= 253:
                    desc, kk = 'max_inflight = 1 (any first_ttl)', 'max_inflight=1'
                elif bs == {(f_, m) for f_ in range(1, 255) for m in range(1, 256) if f_ >= m}:
                    desc, kk = 'first_ttl ≥ max_inflight (e.g. first_ttl=30 with the default max_inflight=24)', 'first_ttl>=max_inflight'
                else:
                    w0 = sorted(bs)[0]
                    desc, kk = '%d combinations, e.g. first_ttl=%d max_inflight=%d' % (len(bs), w0[0], w0[1]), 'witness:%d,%d' % w0
                chk.fail('R5', inst, fn_loc(f),
                         'at the start of a round no probe is ever sent when %s: the blocking condition %s is false there' % (desc, astr),
                         detail={'failing_combinations': len(bs), 'sample': sorted(bs)[:5]}, key='R5|round-start|' + kk)


def _as_return(o):
    return o


class _Sub:
    """adapter: run another module's rule under this check's rule id"""
    def __init__(self, chk, rid):
        self.chk, self.rid = chk, rid

    def ok(self, rid, inst, detail='', nontrivial=True):
        self.chk.ok(self.rid, inst, detail, nontrivial)

    def fail(self, rid, inst, where, what, detail=None, key=None):
        self.chk.fail(self.rid, inst, where, what, detail, key=(key or '').replace(rid + '|', self.rid + '|', 1))

    def fn_seen(self, *a):
        self.chk.fn_seen(*a)

    def rule(self, *a, **k):
        pass


def _run_c03_transitions(sub, prog):
    from .c03 import transitions
    transitions(sub, prog)
