"""C09 — termination, round count and failure semantics.

 R1 round count: Strategy::run loops while ¬finished(max_rounds) and returns Ok only when finished; finished == (max_rounds = Some(n) ∧
    round > n − 1) on NonZeroUsize; `round` is written only by advance_round (+1) and new (0); advance_round is paired with publication
    (C08.R3) — hence exactly n publications numbered 0..n−1 whatever the network does.
 R2 error discipline: every crate-`Result` produced by a call in trippy-core is propagated, returned or matched; swallowing idioms
    (unwrap_or_default, ok(), is_ok() …) are limited to a frozen, reasoned list.
 R3 every Err exit of TracerInner::run / run_with passes through handle_error, which stores the message under the state write lock
    and returns the same error.
 R4 failure tables: do_send: Ok→Ok, Err(ProbeFailed)→fail_probe; Ok, other Err→Err(same). TCP loop: Err(AddressInUse) → capacity ?
    reissue_probe : Err(InsufficientCapacity); other Err → Err(same). fail_probe turns the last issued slot from Awaited into Failed;
    reissue_probe stores Skipped at index−1.
 R5 ErrorMapper tables (in_progress / addr_in_use / probe_failed) and their presence on the TCP bind / connect chains (v4 and v6).
 C07.R3 (imported) the capacity test behind InsufficientCapacity is sequence − round_sequence < BUFFER_SIZE, so the re-issue loop ends with that
    error instead of indexing past the round buffer (a panic would surface neither as a returned error nor in the shared state).
 C06.R2 (imported): the ttl effects of issuing and re-issuing a probe — a re-issued TCP probe keeps the ttl of the abandoned one.
Not decided: which OS errors ought to be transient; exhaustive fault sequences (rules are per-step and cover every step once).
"""
import re

from .common import *
from ..errflow import result_sites
from ..writers import field_writers

LEVEL = 'other'
TS = 'trippy_core::strategy::state::TracerState'
ERR = 'trippy_core::error::Error'

ALLOW_SWALLOW = {
    # (function suffix, callee suffix, class): reason
    ('recv_tcp_sockets', 'Socket::is_writable', 'swallowed:unwrap_or_default'):
        'a socket whose writability cannot be determined is treated as not yet writable and polled again next time',
}


def run(chk, tier):
    prog = program(crates=('core',))
    chk.explanation = __doc__
    eng0 = Engine(prog, inline_depth=0, loop_visits=3)
    eng = Engine(prog, inline_depth=2)
    evars = prog.variant_names(ERR)
    from ..report import run_sub
    run_sub(chk, 'c07', 'C07.', {'R3'})
    run_sub(chk, 'c06', 'C06.', {'R2'})      # "re-issues the probe under the next sequence number with the same TTL": the ttl effects of issue / re-issue
    # termination: every round ends at the time limit at the latest, whatever the network does (publish policy table of update_round)
    run_sub(chk, 'c08', 'C08.', {'R1', 'R1e', 'R5'})

    # ---- R1 ---------------------------------------------------------------------------------------------
    chk.rule('R1', 'exactly max_rounds rounds: loop guard, finished(), round counter writers', floor=5)
    ff = prog.find(r'TracerState::finished$')
    chk.fn_seen(ff['path'])
    st = St()
    outs = eng.run(ff, [eng.sym_ref(st, 'self'), ('sym', 'max_rounds')], st)
    seen = set()
    for o in outs:
        d = [(vshow(a), v) for a, v, _ in o.st.decisions]
        val = vshow(o.value)
        if d == [('discr(max_rounds)', 0)]:
            seen.add('none')
            okv = val == '0'
            want = 'false (unlimited)'
        elif d == [('discr(max_rounds)', 1)]:
            seen.add('some')
            okv = bool(re.fullmatch(r'Gt\(self\.round\.0, Sub\(call:NonZero::get\(field:0\(max_rounds\)\.0\), 1\)\)|'
                                    r'Ge\(self\.round\.0, call:NonZero::get\(field:0\(max_rounds\)\.0\)\)', val))
            want = 'round > max_rounds − 1'
        else:
            okv, want = False, 'a decision on max_rounds only'
        if okv:
            chk.ok('R1', 'finished:%s' % d[0][1], val)
        else:
            chk.fail('R1', 'finished:%s' % (d,), fn_loc(ff), 'finished() returns %s under %s; required: %s' % (val, d, want), key='R1|finished|' + want[:20])
    if seen != {'none', 'some'}:
        chk.fail('R1', 'finished:coverage', fn_loc(ff), 'finished() does not distinguish None / Some(max_rounds)', key='R1|finished|coverage')
    fr = prog.find(r'strategy::Strategy::run$')
    chk.fn_seen(fr['path'])
    st = St()
    outs = eng0.run(fr, [('sym', 'self'), ('sym', 'network')], st)
    for i, o in enumerate(outs):
        if o.kind != 'return':
            continue
        val = vshow(o.value)
        fin = [(vshow(a), v) for a, v, _ in o.st.decisions if 'TracerState::finished' in vshow(a)]
        if val == 'Result::Ok(unit)':
            good = bool(fin) and fin[-1][1] == 1 and re.search(r'finished\(.*self\.config\.max_rounds\)', fin[-1][0])
            if good:
                chk.ok('R1', 'run:ok-exit%d' % i, 'returns Ok only after finished(config.max_rounds) = true')
            else:
                chk.fail('R1', 'run:ok-exit%d' % i, fn_loc(fr), 'Strategy::run returns Ok without finished(self.config.max_rounds) being true (%s)' % fin[-1:],
                         key='R1|run|ok-exit')
        else:
            # error exits must carry the error of send_request / recv_response
            if re.search(r'(unwrap_err|field:0)\(call:Strategy::(send_request|recv_response)', val):
                chk.ok('R1', 'run:err-exit%d' % i, val[:80])
            else:
                chk.fail('R1', 'run:err-exit%d' % i, fn_loc(fr), 'Strategy::run returns %s' % val[:100], key='R1|run|err-exit')
    w = field_writers(prog, TS)
    ws = sorted({p for (p, _, _) in w.get('round', ())})
    bad = [p for p in ws if prog.fns[p].get('name') not in ('advance_round', 'new') or not p.startswith(TS)]
    if bad or not ws:
        chk.fail('R1', 'writers:round', fn_loc(prog.fns[bad[0]]) if bad else '?', 'TracerState.round is written by %s' % [short(b) for b in bad], key='R1|writers|round')
    else:
        chk.ok('R1', 'writers:round', [short(p) for p in ws])
    enga = Engine(prog, inline_depth=1)
    fa = prog.find(r'TracerState::advance_round$')
    st = St()
    for o in enga.run(fa, [enga.sym_ref(st, 'self'), ('sym', 'first_ttl')], st):
        rw = [vshow(e[3]) for e in o.st.events if e[0] == 'write' and e[1] == TS and e[2] == 'round']
        if rw and all(re.fullmatch(r'(RoundId\()?Add\(self\.round(\.0)?, 1\)\)?', x) for x in rw) and len(rw) == 1:
            chk.ok('R1', 'advance_round:round+1', rw[0])
        else:
            chk.fail('R1', 'advance_round:round+1', fn_loc(fa), 'advance_round must increment round by exactly one (writes %s)' % rw, key='R1|advance_round|round')
    fn = prog.find(r'TracerState::new$')
    st = St()
    for o in enga.run(fn, [('sym', 'config')], st):
        v = o.value
        rv = None
        if isinstance(v, tuple) and v[0] == 'adt':
            names = [f['name'] for f in prog.adt(TS)['variants'][0]['fields']]
            rv = vshow(v[4][names.index('round')])
        if rv == 'RoundId(0)':
            chk.ok('R1', 'new:round=0', rv)
        else:
            chk.fail('R1', 'new:round=0', fn_loc(fn), 'TracerState::new starts at round %s, not 0' % rv, key='R1|new|round')

    # ---- R2 ---------------------------------------------------------------------------------------------
    chk.rule('R2', 'no crate Result is swallowed or dropped outside the frozen list', floor=150)
    sites = result_sites(prog, ['trippy-core/src/'])
    for sdict in sites:
        cls = sdict['cls']
        inst = '%s@%s:%s' % (short(sdict['callee']), short(sdict['fn']), cls)
        if cls in ('propagated', 'returned', 'matched'):
            chk.ok('R2', inst, cls, nontrivial=False)
            continue
        hit = None
        for (fs, cs, c), reason in ALLOW_SWALLOW.items():
            if fs in sdict['fn'] and short(sdict['callee']).endswith(cs.split('::')[-1]) and c == cls:
                hit = reason
        if cls == 'unwrapped':
            chk.ok('R2', inst, 'unwrap: a panic site, audited under C04/C16', nontrivial=False)
        elif hit:
            chk.ok('R2', inst, 'allowed: ' + hit)
        else:
            chk.fail('R2', inst, '%s:%d' % (sdict['file'], sdict['line']),
                     'the Result of %s is %s in %s: an error from the network layer is silently lost' % (short(sdict['callee']), cls, short(sdict['fn'])),
                     key='R2|%s|%s|%s' % (short(sdict['fn']), short(sdict['callee']), cls))
    chk.call_sites += len(sites)

    # ---- R3 ---------------------------------------------------------------------------------------------
    chk.rule('R3', 'every Err exit of TracerInner::run/run_with passes through handle_error; handle_error records the message', floor=8)
    eng1 = Engine(prog, inline_depth=1, opaque=[r'TracerInner::handle_error$'])      # the call itself is what is looked for, however it is spelled (map_err / match)
    for nm in ('run', 'run_with'):
        f = prog.find(r'tracer::inner::TracerInner::%s$' % nm)
        chk.fn_seen(f['path'])
        st = St()
        args = [eng1.sym_ref(st, 'self')] + ([('sym', 'func')] if nm == 'run_with' else [])
        outs = eng1.run(f, args, st)
        nerr = 0
        for i, o in enumerate(outs):
            val = vshow(o.value)
            if o.kind != 'return':
                chk.fail('R3', '%s:trace%d' % (nm, i), fn_loc(f), 'TracerInner::%s has a %s trace' % (nm, o.kind), key='R3|%s|%s' % (nm, o.kind))
            elif val.startswith('Result::Err'):
                nerr += 1
                if re.match(r'Result::Err\(call:TracerInner::handle_error\(self, ', val):
                    chk.ok('R3', '%s:err%d' % (nm, i), val[:90])
                else:
                    chk.fail('R3', '%s:err%d' % (nm, i), fn_loc(f), 'TracerInner::%s returns %s without going through handle_error: the failure is not '
                             'visible in later snapshots' % (nm, val[:100]), key='R3|%s|bypass' % nm)
            else:
                chk.ok('R3', '%s:ok%d' % (nm, i), val[:40], nontrivial=False)
        if nerr < 4:
            chk.fail('R3', nm + ':coverage', fn_loc(f), 'only %d error exits derived for TracerInner::%s' % (nerr, nm), key='R3|%s|coverage' % nm)
    fh = prog.find(r'TracerInner::handle_error$')
    chk.fn_seen(fh['path'])
    st = St()
    outs = eng1.run(fh, [eng1.sym_ref(st, 'self'), ('sym', 'err')], st)
    for o in outs:
        calls = [(short(c[1]), [vshow(x) for x in c[7]]) for c in user_calls(o)]
        names = [c[0] for c in calls]
        se = [c for c in calls if c[0].endswith('State::set_error')]
        good = o.kind == 'return' and vshow(o.value) == 'err' and len(se) == 1 and \
            se[0][1][0] == 'call:RwLock::write(self.state)' and re.fullmatch(r'Option::Some\(call:ToString::to_string\(err\)\)', se[0][1][1])
        if good:
            chk.ok('R3', 'handle_error', 'state.write().set_error(Some(err.to_string())); returns err')
        else:
            chk.fail('R3', 'handle_error', fn_loc(fh), 'handle_error must store Some(err.to_string()) under the state write lock and return err; calls: %s, returns %s' % (
                calls, vshow(o.value)), key='R3|handle_error')
    fse = prog.find(r'state::State::set_error$')
    st = St()
    outs = eng1.run(fse, [eng1.sym_ref(st, 'self'), ('sym', 'error')], st)
    wr = [(e[2], vshow(e[3])) for o in outs for e in o.st.events if e[0] == 'write']
    if wr == [('error', 'error')]:
        chk.ok('R3', 'set_error', 'self.error = error')
    else:
        chk.fail('R3', 'set_error', fn_loc(fse), 'State::set_error writes %s' % wr, key='R3|set_error')

    # ---- R4 ---------------------------------------------------------------------------------------------
    chk.rule('R4', 'failure tables of do_send, the TCP re-issue loop, fail_probe, reissue_probe', floor=8)
    fd = prog.find(r'Strategy::do_send$')
    chk.fn_seen(fd['path'])
    st = St()
    outs = eng0.run(fd, [eng0.sym_ref(st, 'network'), eng0.sym_ref(st, 'st'), ('sym', 'probe')], st)
    SP = r'call:Network::send_probe\(network, probe\)'
    PF = evars.index('ProbeFailed')
    rows = {}
    for o in outs:
        d = {vshow(a): v for a, v, _ in o.st.decisions}
        okd = d.get('discr(%s)' % SP.replace('\\', ''))
        ev = d.get('discr(field:0(%s))' % SP.replace('\\', ''))
        names = [short(c[1]) for c in user_calls(o)]
        val = vshow(o.value)
        spv = SP.replace('\\', '')
        if val == spv and ev != PF and 'TracerState::fail_probe' not in names:
            # the send result is handed back unchanged: Ok stays Ok, any other error stays that error
            covered = ['Ok'] if okd == 0 else (['Err(other)'] if okd == 1 else ['Ok', 'Err(other)'])
            for row in covered:
                rows[row] = True
                chk.ok('R4', 'do_send:' + row, 'send result returned unchanged')
            continue
        if okd == 0:
            row, good = 'Ok', val == 'Result::Ok(unit)' and 'TracerState::fail_probe' not in names
        elif ev == PF:
            row, good = 'Err(ProbeFailed)', val == 'Result::Ok(unit)' and names.count('TracerState::fail_probe') == 1
        elif isinstance(ev, tuple) and ev[0] == 'ne' and PF in ev[1] and len(ev[1]) == 1:
            row, good = 'Err(other)', val == 'Result::Err(field:0(%s))' % SP.replace('\\', '') and 'TracerState::fail_probe' not in names
        else:
            row, good = 'unexpected:%s/%s' % (okd, ev), False
        rows[row] = good
        if good:
            chk.ok('R4', 'do_send:' + row, val)
        else:
            chk.fail('R4', 'do_send:' + row, fn_loc(fd), 'do_send on %s returns %s and calls %s; required: Ok→Ok, ProbeFailed→fail_probe+Ok, other→Err(same)' % (
                row, val[:80], names), key='R4|do_send|' + row.split(':')[0])
    if set(rows) != {'Ok', 'Err(ProbeFailed)', 'Err(other)'}:
        chk.fail('R4', 'do_send:coverage', fn_loc(fd), 'do_send rows derived: %s' % sorted(rows), key='R4|do_send|coverage')
    # TCP loop
    fs = prog.find(r'Strategy::send_request$')
    st = St()
    selfv = ('rec', 'self', {'config': ('rec', 'self.config', {'protocol': eng0.adt_val('trippy_core::config::Protocol', 'Tcp')})})
    eng0b = Engine(prog, inline_depth=0, loop_visits=2)
    outs = eng0b.run(fs, [eng0b.obj_ref(st, selfv), eng0b.sym_ref(st, 'network'), eng0b.sym_ref(st, 'st')], st)
    AIU = evars.index('AddressInUse')
    seen_rows = set()
    for i, o in enumerate(outs):
        evs = []
        for (a, v, _) in o.st.decisions:
            s_ = vshow(a)
            if re.match(r'discr\(call:Strategy::do_send', s_):
                evs.append(('res', v))
            elif re.match(r'discr\(field:0\(call:Strategy::do_send', s_):
                evs.append(('err', v))
            elif 'round_has_capacity' in s_:
                evs.append(('cap', v))
        names = [short(c[1]).split('::')[-1] for c in user_calls(o, r'TracerState::(next_probe|reissue_probe|round_has_capacity)$|Strategy::<F>::do_send$')]
        val = vshow(o.value)
        # walk: after each do_send Err(AddressInUse) the next event must be a capacity check followed by reissue (true) or InsufficientCapacity (false)
        good, why = True, ''
        for j, (k, v) in enumerate(evs):
            if k == 'err' and v == AIU:
                seen_rows.add('aiu')
                nxt = evs[j + 1] if j + 1 < len(evs) else None
                if nxt is None and o.kind == 'cut':
                    continue
                if not nxt or nxt[0] != 'cap':
                    good, why = False, 'AddressInUse is not followed by a capacity check'
                elif nxt[1] == 0 and val != 'Result::Err(Error::InsufficientCapacity)':
                    good, why = False, 'AddressInUse without capacity does not return InsufficientCapacity'
            elif k == 'err' and isinstance(v, tuple):
                seen_rows.add('other')
                if not re.fullmatch(r'Result::Err\(field:0\(call:Strategy::do_send\(.*\)\)\)', val):
                    good, why = False, 'an error other than AddressInUse is not returned unchanged (%s)' % val[:60]
            elif k == 'err':
                good, why = False, 'the TCP loop special-cases error variant %s' % evars[v]
        if names.count('reissue_probe') != sum(1 for j, (k, v) in enumerate(evs) if k == 'err' and v == AIU and j + 1 < len(evs) and evs[j + 1] == ('cap', 1)):
            good, why = False, 'reissue_probe count does not match AddressInUse-with-capacity outcomes'
        if good:
            chk.ok('R4', 'tcp-loop:trace%d' % i, names[-4:])
        else:
            chk.fail('R4', 'tcp-loop:trace%d' % i, fn_loc(fs), 'send_request[Tcp]: %s (calls %s, returns %s)' % (why, names, val[:60]), key='R4|tcp-loop|' + why[:40])
    if seen_rows != {'aiu', 'other'}:
        chk.fail('R4', 'tcp-loop:coverage', fn_loc(fs), 'TCP loop rows derived: %s' % sorted(seen_rows), key='R4|tcp-loop|coverage')
    # fail_probe
    ffp = prog.find(r'TracerState::fail_probe$')
    chk.fn_seen(ffp['path'])
    psv = prog.variant_names('trippy_core::probe::ProbeStatus')
    st = St()
    engf = Engine(prog, inline_depth=2, opaque=[r'Probe::failed$', r'ProbeStatus as core::clone::Clone>::clone$'])   # depth 2: the index may come from a helper
    outs = engf.run(ffp, [engf.sym_ref(st, 'self')], st)
    IDX1 = r'Sub\(Sub\(self\.sequence, self\.round_sequence\), 1\)'
    for o in outs:
        d = [(vshow(a), v) for a, v, _ in o.st.decisions]
        if o.kind == 'panic':
            chk.ok('R4', 'fail_probe:not-awaited', 'unreachable!() — audited under C16 (slot was just issued)', nontrivial=False)
            continue
        wr = [(e[2], vshow(e[3])) for e in o.st.events if e[0] == 'write' and e[1] == TS]
        idx = [vshow(e[2][1]) for e in o.st.events if e[0] == 'assert' and e[1] == 'BoundsCheck']
        good = len(d) == 1 and d[0][1] == psv.index('Awaited') and re.fullmatch(r'discr\(index\(self\.buffer, %s\)\)' % IDX1, d[0][0]) and \
            len(wr) == 1 and wr[0][0] == 'buffer' and re.fullmatch(r'ProbeStatus::Failed\(call:Probe::failed\(field:0\(index\(self\.buffer, %s\)\)\)\)' % IDX1, wr[0][1]) and \
            idx and all(re.fullmatch(r'(Sequence\()?%s\)?' % IDX1, x) or re.fullmatch(IDX1, x) for x in idx)
        if good:
            chk.ok('R4', 'fail_probe:awaited', wr[0][1][:80])
        else:
            chk.fail('R4', 'fail_probe:awaited', fn_loc(ffp), 'fail_probe must turn exactly the last issued slot (sequence − round_sequence − 1) from Awaited into '
                     'Failed(probe.failed()); decisions %s, writes %s, indices %s' % (d, wr, idx), key='R4|fail_probe')
    fri = prog.find(r'TracerState::reissue_probe$')
    st = St()
    engp = Engine(prog, inline_depth=1, opaque=[r'TracerState::probe_data$', r'Probe::new$'])
    for o in engp.run(fri, [engp.sym_ref(st, 'self'), ('sym', 'sent')], st):
        if o.kind != 'return':
            continue
        wr = [vshow(e[3]) for e in o.st.events if e[0] == 'write' and e[1] == TS and e[2] == 'buffer']
        good = len(wr) == 2 and wr[0] == 'ProbeStatus::Skipped' and wr[1].startswith('ProbeStatus::Awaited(')
        if good:
            chk.ok('R4', 'reissue_probe:skipped', wr[0])
        else:
            chk.fail('R4', 'reissue_probe:skipped', fn_loc(fri), 'reissue_probe must mark the abandoned slot Skipped and store the re-issued probe as Awaited '
                     '(buffer writes: %s)' % [x[:40] for x in wr], key='R4|reissue_probe|skipped')

    # ---- R5 ---------------------------------------------------------------------------------------------
    chk.rule('R5', 'ErrorMapper tables and their presence on the TCP bind/connect chains', floor=9)
    engm = Engine(prog, inline_depth=2, opaque=[r'IoError::kind$'])
    IO = evars.index('IoError')
    kinds = prog.variant_names('trippy_core::error::ErrorKind')
    KIND = 'call:IoError::kind(err#IoError.0)'

    def table(pat, args):
        f = prog.find(pat)
        chk.fn_seen(f['path'])
        st = St()
        return f, engm.run(f, args, st)
    f, outs = table(r'ErrorMapper::in_progress$', [('sym', 'err')])
    for o in outs:
        d = {vshow(a): v for a, v, _ in o.st.decisions}
        val = vshow(o.value)
        io = d.get('discr(err)') == IO
        inprog = io and d.get('discr(%s)' % KIND) == kinds.index('InProgress')
        # on a trace that decided `err` is the IoError variant, `err` and `Error::IoError(<its payload>)` are the same value
        want = 'Result::Ok(unit)' if inprog else (('Result::Err(Error::IoError(err#IoError.0))', 'Result::Err(err)') if io else 'Result::Err(err)')
        if io and ('discr(%s)' % KIND) not in d:
            want = 'a decision on the kind of the I/O error — this trace decides only %s' % sorted(k_ for k_ in d if k_ != 'discr(err)')
        _row(chk, 'R5', 'in_progress:io=%s,inprogress=%s' % (io, inprog), f, val, want)
    f, outs = table(r'ErrorMapper::addr_in_use$', [('sym', 'err'), ('sym', 'addr')])
    for o in outs:
        d = {vshow(a): v for a, v, _ in o.st.decisions}
        val = vshow(o.value)
        io = d.get('discr(err)') == IO
        std = io and d.get('discr(%s)' % KIND) == kinds.index('Std')
        inner = d.get('discr(field:0(%s))' % KIND)
        aiu = std and isinstance(inner, int)
        want = 'Error::AddressInUse(addr)' if aiu else (('Error::IoError(err#IoError.0)', 'err') if io else 'err')
        if io and ('discr(%s)' % KIND) not in d:
            # an I/O error passed through without its kind being looked at (e.g. only for one IoError variant): address-in-use from that source is not mapped
            want = 'a decision on the kind of the I/O error (whichever call produced it) — this trace decides only %s' % sorted(k_ for k_ in d if k_ != 'discr(err)')
        _row(chk, 'R5', 'addr_in_use:io=%s,std=%s,kind=%s' % (io, std, inner if isinstance(inner, int) else 'other'), f, val, want)
        if aiu and inner != 8:     # std::io::ErrorKind::AddrInUse has discriminant 8 in this toolchain's std
            chk.notes.append('addr_in_use matches std::io::ErrorKind discriminant %s' % inner)
    f, outs = table(r'ErrorMapper::probe_failed$', [('sym', 'err'), ('sym', 'kind')])
    for o in outs:
        d = {vshow(a): v for a, v, _ in o.st.decisions}
        val = vshow(o.value)
        io = d.get('discr(err)') == IO
        eq = io and d.get('Eq(%s, kind)' % KIND) == 1
        want = 'Error::ProbeFailed(err#IoError.0)' if eq else (('err', 'Error::IoError(err#IoError.0)') if io else 'err')
        _row(chk, 'R5', 'probe_failed:io=%s,kind-matches=%s' % (io, eq), f, val, want)
    # presence on the TCP chains: bind and connect of dispatch_tcp_probe (v4, v6) map in_progress then addr_in_use
    for fam in ('ipv4::Ipv4', 'ipv6::Ipv6'):
        f = prog.find(r'net::%s::dispatch_tcp_probe$' % fam)
        chk.fn_seen(f['path'])
        chain = _mapper_chain(prog, f)
        for sock_call in ('bind', 'connect'):
            maps = chain.get(sock_call)
            good = maps is not None and 'in_progress' in maps and 'addr_in_use' in maps and maps.index('in_progress') < maps.index('addr_in_use')
            if good:
                chk.ok('R5', '%s:%s-chain' % (fam, sock_call), maps)
            else:
                chk.fail('R5', '%s:%s-chain' % (fam, sock_call), fn_loc(f), '%s::dispatch_tcp_probe: the result of Socket::%s is mapped through %s; '
                         'an address-in-use failure must become Error::AddressInUse (after in_progress→Ok) so that the probe is re-issued' % (
                             fam, sock_call, maps), key='R5|%s|%s-chain' % (fam, sock_call))
        chk.notes.append('%s TCP mapper chains: %s' % (fam, chain))


def _row(chk, rid, inst, f, val, want):
    if val == want or (isinstance(want, tuple) and val in want):
        chk.ok(rid, inst, val)
    else:
        chk.fail(rid, inst, fn_loc(f), '%s: returns %s, required %s' % (inst, val, want[0] if isinstance(want, tuple) else want), key='%s|%s' % (rid, inst))


def _mapper_chain(prog, fn):
    """for each Socket::<m> call in fn whose Result flows through map_err/or_else closures, list the ErrorMapper fns applied, in order"""
    from ..facts import op_place
    out = {}
    for bi, b in enumerate(fn['blocks']):
        t = b['term']
        if t['k'] != 'call' or b['cleanup']:
            continue
        m = re.search(r'Socket::(\w+)$', t['callee'])
        if not m or t['dest']['p']:
            continue
        cur = t['dest']['l']
        maps = []
        for _ in range(8):
            nxt = None
            for b2 in fn['blocks']:
                t2 = b2['term']
                if t2['k'] == 'call' and not b2['cleanup'] and t2['args'] and op_place(t2['args'][0]) and op_place(t2['args'][0])['l'] == cur \
                        and short(t2['resolved'] or t2['callee']).split('::')[-1] in ('map_err', 'or_else'):
                    # which mapper: a fn item or a closure calling ErrorMapper::x
                    arg = t2['args'][1]
                    name = None
                    if arg.get('fn'):
                        name = arg['fn'].split('::')[-1]
                    else:
                        for c in t2.get('closures', ()):
                            cf = prog.fns.get(c)
                            if cf:
                                for b3 in cf['blocks']:
                                    t3 = b3['term']
                                    if t3['k'] == 'call' and 'ErrorMapper::' in (t3['resolved'] or t3['callee']):
                                        name = (t3['resolved'] or t3['callee']).split('::')[-1]
                    maps.append(name or '?')
                    nxt = t2['dest']['l'] if not t2['dest']['p'] else None
                    break
            if nxt is None:
                break
            cur = nxt
        if maps:
            out[m.group(1)] = maps
    return out
