"""Shared rule: configuration values are handed on unchanged ("name-preserving copy"). A struct built by `fn` must take every field that the
source object also has *under the same name* from exactly that field — no min / max / arithmetic on the way, no neighbouring field of the same type."""
import re

from .common import *


def check_copy(chk, rid, prog, fn_pattern, adt, source, exceptions=None, inst=None):
    """every field f of `adt` built by the function is `<source>.f` whenever the source type has a field f; `exceptions` maps field -> regex"""
    exceptions = exceptions or {}
    fn = prog.find(fn_pattern)
    chk.fn_seen(fn['path'])
    inst = inst or '%s→%s' % (short(fn['path']), adt.split('::')[-1])
    names = [x['name'] for x in prog.adt(adt)['variants'][0]['fields']]
    # the source object's own field names
    src_names = None
    for i in range(1, fn.get('argc', 0) + 1):
        if (fn['locals'][i].get('name') or ('self' if i == 1 else '')) == source or (source == 'self' and i == 1):
            ty = re.sub(r"^&(?:'\w+ )?(?:mut )?", '', fn['locals'][i]['ty'])
            a = prog.adts.get(ty)
            if a and not a.get('enum'):
                src_names = {x['name'] for x in a['variants'][0]['fields']}
    if src_names is None:
        chk.fail(rid, inst, fn_loc(fn), '%s: the source object `%s` was not found among the parameters (anchor lost)' % (short(fn['path']), source), key='%s|%s|anchor' % (rid, inst))
        return
    eng = Engine(prog, inline_depth=0)
    st = St()
    args = [eng.sym_ref(st, fn['locals'][i].get('name') or ('self' if i == 1 else 'a%d' % i)) if fn['locals'][i]['ty'].startswith('&') else ('sym', fn['locals'][i].get('name') or 'a%d' % i)
            for i in range(1, fn.get('argc', 0) + 1)]
    vals = []

    def collect(v, depth=0):
        if not isinstance(v, tuple) or depth > 6:
            return
        if v[0] == 'adt' and v[1] == adt:
            vals.append(v)
            return
        for x in v:
            if isinstance(x, (tuple, list)):
                for y in (x if isinstance(x, list) else [x]):
                    collect(y, depth + 1)
    for o in eng.run(fn, args, st):
        if o.kind == 'return':
            collect(o.value)
    bad = []
    n = 0
    for v in vals:
        for i, f in enumerate(names):
            got = vshow(v[4][i]) if i < len(v[4]) else None
            if f in exceptions:
                if got is None or not re.fullmatch(exceptions[f], got):
                    bad.append('%s := %s' % (f, got))
                n += 1
            elif f in src_names:
                if got != '%s.%s' % (source, f):
                    bad.append('%s := %s (expected %s.%s unchanged)' % (f, (got or '?')[:70], source, f))
                n += 1
    if bad or not vals:
        chk.fail(rid, inst, fn_loc(fn), '%s builds %s with %s: a configured value does not reach its consumer unchanged' % (short(fn['path']), adt.split('::')[-1], bad[:3] or 'no derivable value'),
                 key='%s|%s|%s' % (rid, inst, (bad[0].split(' := ')[0] if bad else 'none')))
    else:
        chk.ok(rid, inst, '%d fields copied from the field of the same name' % n)
