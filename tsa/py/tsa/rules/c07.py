"""C07 — sequence numbers stay unique, in range and inside the round buffer.

 R1 constant relations (rustc-evaluated): BUFFER_SIZE = MAX_SEQUENCE_PER_ROUND = buffer array length; MAX_SEQUENCE + BUFFER_SIZE ≤ u16::MAX
    (no wrap inside a round, 65535 never reached); MAX_INITIAL_SEQUENCE + BUFFER_SIZE ≤ MAX_SEQUENCE; MAX_TTL < BUFFER_SIZE;
    Dublin/IPv6 payload bound (BUFFER_SIZE − 1) + MAGIC + ... ≤ MAX_UDP_PAYLOAD_BUF (see R6).
 R2 who-may-write: `sequence` / `round_sequence` are written only by next_probe / reissue_probe (+1) and advance_round / new.
 R3 capacity: in the TCP arm every next_probe / reissue_probe is immediately preceded by round_has_capacity() = true, the false
    edge returns Err(InsufficientCapacity); round_has_capacity == (sequence − round_sequence < BUFFER_SIZE); buffer index sites
    use sequence − round_sequence. ICMP/UDP: one new sequence per TTL under ttl ≤ max_ttl ≤ MAX_TTL < BUFFER_SIZE (C06.R1 + R4).
 R4 Builder::build rejects initial_sequence > MAX_INITIAL_SEQUENCE, first_ttl/max_ttl > MAX_TTL, and is the only caller of Tracer::new.
 R5 advance_round: sequence := initial_sequence iff sequence ≥ max_sequence(), then round_sequence := sequence;
    max_sequence() = initial + BUFFER_SIZE for (Dublin, IPv6) else MAX_SEQUENCE.
 R6 Dublin/IPv6 payload slice derived from the sequence offset fits the packet buffer.
 R7 two-round separation: a wrap can only re-open numbers of the immediately preceding round if
    MAX_INITIAL_SEQUENCE > MAX_SEQUENCE − 2·BUFFER_SIZE (general regime) / always in the Dublin-IPv6 regime.
 C02.R1 (imported): the sequence recovered from a response is the sequence that was sent, per configuration cell (a decode that folds two sequences of a round onto each
    other makes them one probe); C02's known findings (F19) are listed under the imported keys.
Not decided: long-run behaviour beyond these (inductive) invariants.
"""
import re

from .common import *
from ..callgraph import CallGraph
from ..writers import field_writers
from ..tables import decided

LEVEL = 'other'
TS = 'trippy_core::strategy::state::TracerState'


def run(chk, tier):
    prog = program(crates=('core',))
    chk.explanation = __doc__
    cg = CallGraph(prog)
    # sequence numbers are only "unique" to the tracer if the number recovered from a response is the number that was sent (a decode that folds two
    # sequences of one round onto each other — `% 512` on the Dublin/IPv6 payload length — makes them the same probe): the encode / decode identity per
    # configuration cell is C02.R1, imported. C02's known findings (F19: unprivileged Paris / Dublin) are listed for this property too, under the imported keys.
    from ..report import run_sub
    run_sub(chk, 'c02', 'C02.', {'R1'})

    # ---- R1 ---------------------------------------------------------------------------------------------
    chk.rule('R1', 'constant relations', floor=6)
    BS = prog.const_val('trippy_core::strategy::state::BUFFER_SIZE')
    MSPR = prog.const_val('trippy_core::constants::MAX_SEQUENCE_PER_ROUND')
    MAXSEQ = prog.const_val('trippy_core::strategy::state::MAX_SEQUENCE')
    MAXINIT = prog.const_val('trippy_core::constants::MAX_INITIAL_SEQUENCE')
    MAXTTL = prog.const_val('trippy_core::constants::MAX_TTL')
    buf = [f for f in prog.adt(TS)['variants'][0]['fields'] if f['name'] == 'buffer']
    m = re.search(r';\s*(\d+)\]', buf[0]['ty']) if buf else None
    buflen = int(m.group(1)) if m else -1
    rels = [
        ('BUFFER_SIZE == MAX_SEQUENCE_PER_ROUND', BS == MSPR),
        ('len(TracerState.buffer) == BUFFER_SIZE', buflen == BS),
        ('MAX_SEQUENCE + BUFFER_SIZE <= u16::MAX (no wrap inside a round; 65535 never reached)', MAXSEQ + BS <= 65535),
        ('MAX_INITIAL_SEQUENCE + BUFFER_SIZE <= MAX_SEQUENCE (a full first round fits below the wrap threshold)', MAXINIT + BS <= MAXSEQ),
        ('MAX_TTL < BUFFER_SIZE (a round of ICMP/UDP probes fits the buffer)', MAXTTL < BS),
        ('BUFFER_SIZE <= 512 (property: never number more than 512)', BS <= 512),
    ]
    for name, okv in rels:
        if okv:
            chk.ok('R1', name, 'BS=%d MAXSEQ=%d MAXINIT=%d MAXTTL=%d buflen=%d' % (BS, MAXSEQ, MAXINIT, MAXTTL, buflen))
        else:
            chk.fail('R1', name, 'crates/trippy-core/src/constants.rs', 'constant relation violated: %s (BUFFER_SIZE=%d MAX_SEQUENCE=%d '
                     'MAX_INITIAL_SEQUENCE=%d MAX_TTL=%d buffer length=%d)' % (name, BS, MAXSEQ, MAXINIT, MAXTTL, buflen), key='R1|' + name.split(' (')[0])

    # ---- R2 ---------------------------------------------------------------------------------------------
    chk.rule('R2', 'sequence / round_sequence written only by next_probe, reissue_probe, advance_round, new', floor=2)
    w = field_writers(prog, TS)
    for fld, allowed in (('sequence', {'next_probe', 'reissue_probe', 'advance_round', 'new'}), ('round_sequence', {'advance_round', 'new'})):
        ws = sorted({p for (p, _, _) in w.get(fld, ())})
        bad = [p for p in ws if prog.fns[p].get('name') not in allowed or not p.startswith(TS)]
        if bad or not ws:
            chk.fail('R2', 'writers:' + fld, fn_loc(prog.fns[bad[0]]) if bad else '?', 'TracerState.%s is written by %s' % (fld, [short(b) for b in bad]),
                     key='R2|writers|%s|%s' % (fld, short(bad[0]) if bad else 'none'))
        else:
            chk.ok('R2', 'writers:' + fld, [short(p) for p in ws])

    # ---- R3 ---------------------------------------------------------------------------------------------
    chk.rule('R3', 'TCP: every issue is guarded by round_has_capacity(); predicate and index terms as specified', floor=8)
    eng0 = Engine(prog, inline_depth=0, loop_visits=2)
    f = prog.find(r'Strategy::send_request$')
    chk.fn_seen(f['path'])
    st = St()
    selfv = ('rec', 'self', {'config': ('rec', 'self.config', {'protocol': eng0.adt_val('trippy_core::config::Protocol', 'Tcp')})})
    outs = eng0.run(f, [eng0.obj_ref(st, selfv), eng0.sym_ref(st, 'network'), eng0.sym_ref(st, 'st')], st)
    nissue = 0
    for i, o in enumerate(outs):
        evs = [e for e in o.st.events if e[0] == 'call' and re.search(r'TracerState::(next_probe|reissue_probe|round_has_capacity)$|Strategy::<F>::do_send$', e[1])]
        names = [short(e[1]).split('::')[-1] for e in evs]
        caps = [(vshow(a), v) for a, v, _ in o.st.decisions if 'round_has_capacity' in vshow(a)]
        ok, why = True, ''
        for j, n in enumerate(names):
            if n in ('next_probe', 'reissue_probe'):
                nissue += 1
                if j == 0 or names[j - 1] != 'round_has_capacity':
                    ok, why = False, '%s is not immediately preceded by a round_has_capacity() check' % n
        # number of capacity checks that came out true must equal the number of issues
        if ok and sum(1 for _, v in caps if v == 1) != sum(1 for n in names if n in ('next_probe', 'reissue_probe')):
            ok, why = False, 'a probe is issued on a path where round_has_capacity() was not true'
        if ok and any(v == 0 for _, v in caps):
            val = vshow(o.value)
            if val != 'Result::Err(Error::InsufficientCapacity)':
                ok, why = False, 'round_has_capacity() = false does not end the trace with Err(InsufficientCapacity) (returns %s)' % val[:60]
        inst = 'tcp-capacity:trace%d' % i
        if ok:
            chk.ok('R3', inst, names)
        else:
            chk.fail('R3', inst, fn_loc(f), 'send_request[Tcp]: %s; calls: %s' % (why, names), key='R3|tcp-capacity|' + why[:50])
    if nissue < 2:
        chk.fail('R3', 'tcp-capacity:coverage', fn_loc(f), 'no next_probe/reissue_probe found in the TCP arm', key='R3|tcp-capacity|coverage')
    eng = Engine(prog, inline_depth=2)
    frc = prog.find(r'TracerState::round_has_capacity$')
    chk.fn_seen(frc['path'])
    st = St()
    o = eng.run(frc, [eng.sym_ref(st, 'self')], st)
    val = vshow(o[0].value) if len(o) == 1 else '?'
    want = r'Lt\(Sub\(self\.sequence(\.0)?, self\.round_sequence(\.0)?\), %d\)' % BS
    if re.fullmatch(want, val):
        chk.ok('R3', 'round_has_capacity', val)
    else:
        chk.fail('R3', 'round_has_capacity', fn_loc(frc), 'round_has_capacity() is %s; a round may use at most BUFFER_SIZE=%d sequence numbers '
                 '(sequence − round_sequence < %d)' % (val, BS, BS), key='R3|round_has_capacity')
    # buffer index terms
    IDX = r'Sub\(self\.sequence, self\.round_sequence\)'
    # depth 2: the index may be computed by a helper of TracerState (which itself converts the Sequence difference)
    engp = Engine(prog, inline_depth=2, opaque=[r'TracerState::probe_data$', r'Probe::new$', r'Probe::clone$'])
    for name, want_idx in (('next_probe', [IDX]), ('reissue_probe', [r'Sub\(%s, 1\)' % IDX, IDX])):
        fn = prog.find(r'TracerState::%s$' % name)
        st = St()
        outs = engp.run(fn, [engp.sym_ref(st, 'self'), ('sym', 'sent')], st)
        for o in outs:
            if o.kind != 'return':
                continue
            idx = [vshow(e[2][1]) for e in o.st.events if e[0] == 'assert' and e[1] == 'BoundsCheck']
            good = len(idx) == len(want_idx) and all(re.fullmatch(wi, re.sub(r'Sequence\((.*)\)$', r'\1', x)) for wi, x in zip(want_idx, idx))
            if good:
                chk.ok('R3', name + ':index', idx)
            else:
                chk.fail('R3', name + ':index', fn_loc(fn), '%s stores into buffer slots %s; expected sequence − round_sequence%s' % (
                    name, idx, ' − 1 (Skipped) then sequence − round_sequence' if name == 'reissue_probe' else ''), key='R3|%s|index' % name)
    for name in ('probe_at', 'probes'):
        fn = prog.find(r'TracerState::%s$' % name)
        st = St()
        args = [eng.sym_ref(st, 'self')] + ([('sym', 'seq')] if name == 'probe_at' else [])
        outs = eng.run(fn, args, st)
        vals = [vshow(e[7][1]) for o in outs for e in o.st.events if e[0] == 'call' and re.search(r'::index$', e[1])] + \
               [vshow(e[2][1]) for o in outs for e in o.st.events if e[0] == 'assert' and e[1] == 'BoundsCheck']
        want = r'(Sequence\()?Sub\(seq, self\.round_sequence\)\)?' if name == 'probe_at' else r'(?:RangeTo\(|Range\(0, )Sub\(self\.sequence, self\.round_sequence\)\)'
        if vals and all(re.fullmatch(want, v) for v in vals):
            chk.ok('R3', name + ':index', vals[0])
        else:
            chk.fail('R3', name + ':index', fn_loc(fn), '%s indexes the buffer with %s' % (name, vals), key='R3|%s|index' % name)

    # ---- R4 ---------------------------------------------------------------------------------------------
    chk.rule('R4', 'Builder::build enforces the ranges the state machine relies on and is the only way to a Tracer', floor=4)
    fb = prog.find(r'builder::Builder::build$')
    chk.fn_seen(fb['path'])
    engb = Engine(prog, inline_depth=0)
    st = St()
    outs = engb.run(fb, [('sym', 'self')], st)
    rejects = set()
    for o in outs:
        v = vshow(o.value)
        if v.startswith('Result::Err'):
            last = [(vshow(a), val) for a, val, _ in o.st.decisions][-1]
            rejects.add(last)
    need = [
        ('initial_sequence > MAX_INITIAL_SEQUENCE', (r'Gt\(self\.initial_sequence\.0, %d\)' % MAXINIT, 1)),
        ('first_ttl > MAX_TTL', (r'Gt\(self\.first_ttl\.0, %d\)' % MAXTTL, 1)),
        ('max_ttl > MAX_TTL', (r'Gt\(self\.max_ttl\.0, %d\)' % MAXTTL, 1)),
    ]
    from ..tables import canon
    rejects_c = {canon(a, v) for a, v in rejects if isinstance(v, int)}
    for name, (rx, val) in need:
        if any(re.fullmatch(rx, a) and v == val for a, v in rejects) or canon(rx.replace('\\', ''), val) in rejects_c:
            chk.ok('R4', 'rejects:' + name)
        else:
            chk.fail('R4', 'rejects:' + name, fn_loc(fb), 'Builder::build does not reject %s (rejecting conditions: %s)' % (name, sorted(rejects)[:6]),
                     key='R4|rejects|' + name)
    # accepted ⇒ in range: the rejection must not depend on anything else — every trace of build that returns Ok has decided each bound the state
    # machine relies on (a rejection that is skipped for some port direction / protocol lets the out-of-range value through for that cell)
    from ..tables import holds
    oks = [o for o in outs if vshow(o.value).startswith('Result::Ok')]
    for name, atom in (('initial_sequence ≤ MAX_INITIAL_SEQUENCE', 'Gt(self.initial_sequence.0, %d)' % MAXINIT), ('first_ttl ≤ MAX_TTL', 'Gt(self.first_ttl.0, %d)' % MAXTTL),
                       ('max_ttl ≤ MAX_TTL', 'Gt(self.max_ttl.0, %d)' % MAXTTL)):
        und = [o for o in oks if holds(o.st.decisions, atom) != 0]
        if oks and not und:
            chk.ok('R4', 'accepted-implies:' + name, '%d accepting traces, each decided it' % len(oks))
        else:
            d = [(vshow(a), v) for a, v, _ in und[0].st.decisions][-4:] if und else []
            chk.fail('R4', 'accepted-implies:' + name, fn_loc(fb), 'Builder::build accepts a configuration without having established %s (%d of %d accepting traces; last decisions of one: %s): '
                     'the sequence arithmetic of the state machine relies on it for every configuration' % (name, len(und), len(oks), d), key='R4|accepted-implies|' + name.split(' ')[0])
    fnew = prog.find(r'tracer::Tracer::new$')
    callers = cg.callers(fnew['path'])
    if callers == [fb['path']]:
        chk.ok('R4', 'Tracer::new:callers', 'only Builder::build')
    else:
        chk.fail('R4', 'Tracer::new:callers', fn_loc(fnew), 'Tracer::new is reachable without Builder::build validation: callers %s' % [short(c) for c in callers],
                 key='R4|Tracer::new|callers')

    # ---- R5 ---------------------------------------------------------------------------------------------
    chk.rule('R5', 'advance_round wraps only between rounds: sequence := initial iff sequence ≥ max_sequence(); round_sequence := sequence', floor=6)
    fa = prog.find(r'TracerState::advance_round$')
    enga = Engine(prog, inline_depth=1)
    st = St()
    outs = enga.run(fa, [enga.sym_ref(st, 'self'), ('sym', 'first_ttl')], st)
    regimes = set()
    for i, o in enumerate(outs):
        dec = [(vshow(a), v) for a, v, _ in o.st.decisions]
        wr = {}
        for e in o.st.events:
            if e[0] == 'write' and e[1] == TS:
                wr.setdefault(e[2], []).append(vshow(e[3]))
        strat = dict(dec).get('discr(self.config.multipath_strategy)')
        fam = dict(dec).get('discr(self.config.target_addr)')
        dublin6 = (strat == 2 and fam == 1)
        regimes.add(dublin6)
        thr = 'Add(self.config.initial_sequence, %d)' % BS if dublin6 else str(MAXSEQ)
        ge_ = decided(o.st.decisions, 'Ge(self.sequence, %s)' % thr)      # whichever spelling: s >= m, m <= s, !(s < m), !(m > s)
        ge = [] if ge_ is None else [ge_]
        if o.kind != 'return' or len(ge) != 1:
            chk.fail('R5', 'advance_round:trace%d' % i, fn_loc(fa), 'advance_round does not compare sequence with max_sequence() = %s in the %s regime (decisions %s)' % (
                thr, 'Dublin/IPv6' if dublin6 else 'general', dec), key='R5|advance_round|threshold|' + ('dublin6' if dublin6 else 'general'))
            continue
        wrap = ge[0] == 1
        exp_seq = ['self.config.initial_sequence'] if wrap else None
        exp_rs = ['self.config.initial_sequence'] if wrap else ['self.sequence']
        if wr.get('sequence') == exp_seq and wr.get('round_sequence') == exp_rs:
            chk.ok('R5', 'advance_round:%s:wrap=%d' % ('dublin6' if dublin6 else 'general', wrap), 'sequence %s, round_sequence %s' % (wr.get('sequence'), wr.get('round_sequence')))
        else:
            chk.fail('R5', 'advance_round:%s:wrap=%d' % ('dublin6' if dublin6 else 'general', wrap), fn_loc(fa),
                     'advance_round with sequence %s max_sequence(): sequence := %s, round_sequence := %s (expected %s / %s)' % (
                         '≥' if wrap else '<', wr.get('sequence'), wr.get('round_sequence'), exp_seq, exp_rs), key='R5|advance_round|effects')
    if regimes != {True, False}:
        chk.fail('R5', 'advance_round:regimes', fn_loc(fa), 'max_sequence() does not distinguish the Dublin/IPv6 regime', key='R5|regimes')

    # ---- R6: Dublin/IPv6 payload bound -------------------------------------------------------------------
    chk.rule('R6', 'Dublin/IPv6: payload length derived from the sequence fits the packet buffer', floor=1)
    try:
        MAXBUF = prog.const_val('trippy_core::net::ipv6::MAX_UDP_PAYLOAD_BUF')
    except AnchorLost:
        MAXBUF = None
    mc = prog.consts.get('trippy_core::net::ipv6::MAGIC')
    mlen = len(bytes.fromhex(mc['pbytes'])) if mc and mc.get('pbytes') else None
    # a Dublin/IPv6 round starts at s < initial + BUFFER_SIZE (R5) and, being UDP, issues one sequence per TTL under
    # ttl ≤ max_ttl ≤ MAX_TTL (C06.R1, R4): offset = sequence − initial ≤ (BUFFER_SIZE − 1) + MAX_TTL
    worst = (mlen or 10 ** 6) + (BS - 1) + MAXTTL
    # proved at the site itself (not through a named constant): every slicing / copy / arithmetic site of Ipv6::dispatch_udp_probe_raw is
    # discharged by the range prover under 0 ≤ probe.sequence − initial_sequence ≤ (BUFFER_SIZE − 1) + MAX_TTL
    from ..vra import RangeEngine, Lin
    fd = prog.find(r'net::ipv6::Ipv6::dispatch_udp_probe_raw$')
    chk.fn_seen(fd['path'])

    def inv6(P):
        out = []
        seqs = [n for n in P.atoms if re.search(r'probe\.sequence(\.0)?$', n)]
        inits = [n for n in P.atoms if re.search(r'initial_sequence(\.0)?$', n)]
        for s_ in seqs:
            for i_ in inits:
                out.append(Lin(0, {s_: 1, i_: -1}))
                out.append(Lin(BS - 1 + MAXTTL, {s_: -1, i_: 1}))
        return out
    e6 = RangeEngine(prog, inline_depth=2)
    e6.invariants = [inv6]
    st6 = St()
    args6 = [e6.sym_ref(st6, fd['locals'][i]['name'] or 'a%d' % i) for i in range(1, fd['argc'] + 1)]
    e6.run(fd, args6, st6)
    # the sites of the function and of the private Ipv6 helpers it is split into (inlined by the engine, evaluated with the caller's values)
    own6 = {fd['path']} | {p_ for p_, f_ in prog.fns.items() if f_.get('impl_adt') == fd.get('impl_adt') and fd.get('impl_adt') and _takes_buffer(f_, fd)}
    sites = [(k_, d_, lst) for (p_, k_, d_, b_), lst in e6.evals.items() if p_ in own6 and k_ in ('slice-index', 'BoundsCheck', 'copy_from_slice', 'Overflow:Sub', 'Overflow:Add')]
    bad6 = [(k_, d_, [x for x in lst if not x[1]][0]) for k_, d_, lst in sites if any(not x[1] for x in lst)]
    n_slices = len([1 for k_, d_, lst in sites if k_ == 'slice-index'])
    if n_slices >= 2 and not bad6:
        chk.ok('R6', 'payload-bound', 'all %d buffer sites of dispatch_udp_probe_raw proved for offsets up to (BUFFER_SIZE − 1) + MAX_TTL = %d (payload ≤ %d octets)' % (len(sites), BS - 1 + MAXTTL, worst))
    elif bad6:
        k_, d_, w_ = bad6[0]
        chk.fail('R6', 'payload-bound', '%s:%s' % (fd['span']['file'], w_[3]), 'Dublin/IPv6: a round may run up to sequence offset %d past the initial sequence (payload %d octets), but %s (%s) in dispatch_udp_probe_raw is only safe for less: %s' % (
            BS - 1 + MAXTTL, worst, k_, d_, w_[2][:200]), key='R6|payload-bound')
    else:
        chk.fail('R6', 'payload-bound', fn_loc(fd), 'dispatch_udp_probe_raw: the payload buffer sites were not found (%d slice sites)' % n_slices, key='R6|payload-bound')

    # ---- R7: two-round separation ------------------------------------------------------------------------
    chk.rule('R7', 'a sequence number used in the immediately preceding round is never valid in the current one', floor=2)
    # after a wrap the window is [initial, initial+BS); the preceding round started at s with MAXSEQ−BS ≤ s < MAXSEQ (general)
    # separation needs initial + BS ≤ MAXSEQ − BS for every accepted initial, i.e. MAX_INITIAL_SEQUENCE ≤ MAX_SEQUENCE − 2·BUFFER_SIZE
    if MAXINIT <= MAXSEQ - 2 * BS:
        chk.ok('R7', 'separation:general', 'MAX_INITIAL_SEQUENCE=%d ≤ MAX_SEQUENCE − 2·BUFFER_SIZE = %d' % (MAXINIT, MAXSEQ - 2 * BS))
    else:
        chk.fail('R7', 'separation:general', 'crates/trippy-core/src/constants.rs',
                 'initial sequences %d..=%d leave only one round of separation: after the wrap the window [initial, initial+%d) contains '
                 'numbers of the immediately preceding round (MAX_INITIAL_SEQUENCE=%d > MAX_SEQUENCE − 2·BUFFER_SIZE=%d)' % (
                     MAXSEQ - 2 * BS + 1, MAXINIT, BS, MAXINIT, MAXSEQ - 2 * BS), key='R7|separation|general')
    # Dublin/IPv6: max_sequence = initial + BS, preceding round started at s ∈ [initial, initial+BS) ⊂ new window: never separated
    d6 = [o for o in outs if dict((vshow(a), v) for a, v, _ in o.st.decisions).get('discr(self.config.multipath_strategy)') == 2
          and dict((vshow(a), v) for a, v, _ in o.st.decisions).get('discr(self.config.target_addr)') == 1]
    thr_ok = False   # would need max_sequence ≥ initial + 2·BS
    for o in d6:
        for a, v, _ in o.st.decisions:
            m2 = re.fullmatch(r'Ge\(self\.sequence, Add\(self\.config\.initial_sequence, (\d+)\)\)', vshow(a))
            if m2 and int(m2.group(1)) >= 2 * BS:
                thr_ok = True
    if thr_ok:
        chk.ok('R7', 'separation:dublin-ipv6', 'max_sequence ≥ initial + 2·BUFFER_SIZE')
    else:
        chk.fail('R7', 'separation:dublin-ipv6', fn_loc(fa),
                 'Dublin/IPv6: max_sequence() = initial + BUFFER_SIZE, so every wrap re-opens the numbers of the immediately preceding round '
                 '(window after the wrap = [initial, initial+%d) ⊇ previous round)' % BS, key='R7|separation|dublin-ipv6')


def _takes_buffer(helper, owner):
    """a helper that is handed one of the owner's stack buffers (`&mut [u8; N]` of the same N): its slicing sites belong to the owner's buffer discipline"""
    arrays = {m for l in owner['locals'] for m in re.findall(r'\[u8; \d+\]', l['ty'])}
    return any(a in l['ty'] for a in arrays for l in helper['locals'][1:helper.get('argc', 0) + 1])

