"""C03 — only genuine current-round responses can complete a probe.

Decides the "leave everything unchanged" clause structurally:
 R1 who-may-call: complete_probe is called only from the receive step.
 R2 gate table: in recv_response, complete_probe is reached exactly on the row
    recv=Ok ∧ Some ∧ validate(resp.data) ∧ check_trace_id(sr.trace_id) ∧ in_round(sr.sequence), with sr built from the
    same response and this tracer's config, and nothing else is handed `&mut TracerState` on any trace.
 R3 who-may-write: target_found / target_ttl / max_received_ttl / received_time are written only by complete_probe
    (and reset by advance_round / new); ProbeStatus::Complete is stored into the buffer only by complete_probe.
 R4 complete_probe's transition table: a slot that is not Awaited ⇒ no write at all (first response wins; never-sent,
    skipped, failed slots untouched); an Awaited slot ⇒ exactly the specified updates (buffer slot, latched
    target_found, received_time, max of max_received_ttl, the ECMP-aware target_ttl table).
 R5 the gate predicates themselves: check_trace_id == (id == cfg.trace_identifier ∨ id == 0);
    in_round == (seq ≥ round_sequence ∧ seq − round_sequence < BUFFER_SIZE).
 R6 a never-sent / stale sequence inside the window must not crash: complete_probe has no panicking trace.
 R8 trace identifiers of one process (trippy-tui start_tracers): the identifier handed to the i-th tracer — the term that reaches
    Builder::trace_identifier, with private helpers inlined — is extracted and evaluated as arithmetic (tsa/termeval-style, no trippy code is run) over the
    process-id domain the caller establishes (`process::id() % M`): it is never 0 (0 means "no identifier" and passes every tracer's check_trace_id),
    distinct for distinct i, and no overflow assertion on the way can fail. Bounds: every pid of the domain × i < 16; the four boundary pids × i < 4096.
C07.R5 (imported): advance_round restarts the numbering only at max_sequence(), whose two regimes leave a whole buffer of numbers per round.
C07.R3 (imported): which slot every issue / re-issue writes — an abandoned TCP sequence ends up Skipped, never Awaited.
Not decided: arrival-order semantics over many rounds (the two-round separation itself is C07.R7, with its known findings);
multi-tracer interference beyond the trace-id / validate gates.
"""
import re

from .common import *
from ..tables import cdec
from ..tables import Atom, check_decision_table, check_pred_table as _pred_table
from ..callgraph import CallGraph
from ..writers import field_writers

LEVEL = 'other'

TS = 'trippy_core::strategy::state::TracerState'


def run(chk, tier):
    prog = program(crates=('core',))
    chk.explanation = __doc__
    chk.assumptions += ['tracing macros have no effect on program state',
                        'Network::recv_probe is the only source of responses (trait boundary)']
    cg = CallGraph(prog)
    eng0 = Engine(prog, inline_depth=0)
    # "responses to the previous round's probes leave everything unchanged" rests on in_round (R5) *and* on the wrap rule that keeps a restarted
    # window away from the numbers just used: imported so that a narrowed wrap threshold is reported here and not only under C07
    from ..report import run_sub
    run_sub(chk, 'c07', 'C07.', {'R5', 'R3'})      # R3: which slot every issue / re-issue writes — an abandoned sequence must end up Skipped, not Awaited

    # ---- R1 -------------------------------------------------------------------------------------------
    chk.rule('R1', 'complete_probe is called only by the receive step', floor=1)
    fcp = prog.find(r'TracerState::complete_probe$')
    frr = prog.find(r'Strategy::recv_response$')
    chk.fn_seen(fcp['path'], frr['path'])
    callers = cg.callers(fcp['path'])
    for c in callers:
        if c == frr['path']:
            chk.ok('R1', 'caller:' + short(c))
        else:
            chk.fail('R1', 'caller:' + short(c), fn_loc(prog.fns[c]),
                     'complete_probe is also called from %s, outside the validate/trace-id/in-round gates' % short(c),
                     key='R1|caller|' + short(c))
    if frr['path'] not in callers:
        chk.fail('R1', 'caller:none', fn_loc(frr), 'recv_response no longer calls complete_probe', key='R1|nocaller')

    # ---- R2 -------------------------------------------------------------------------------------------
    chk.rule('R2', 'complete_probe reached iff recv Ok(Some) ∧ validate ∧ check_trace_id ∧ in_round', floor=8)
    st = St()
    # a private bool helper of Strategy that only reads (an extracted `is_expected(st, resp)`) is part of the gate expression: inlined; the named gate
    # predicates themselves stay opaque
    def _gate_helper(c):
        f_ = prog.fns.get(c)
        return bool(f_) and re.search(r'::strategy::Strategy::<', c) is not None and not re.search(r'::(validate|check_trace_id|recv_response)$', c) and \
            f_['locals'][0]['ty'] == 'bool' and not any(l_['ty'].startswith('&mut') for l_ in f_['locals'][1:f_.get('argc', 0) + 1])
    eng2 = Engine(prog, inline_depth=1, inline_filter=_gate_helper)
    outs = eng2.run(frr, [eng2.sym_ref(st, 'self'), eng2.sym_ref(st, 'network'), eng2.sym_ref(st, 'st')], st)
    RECV = r'call:Network::recv_probe\(network\)'
    RESP = r'field:0\(field:0\(%s\)\)' % RECV
    SR = r'call:StrategyResponse::from\(\(%s, self\.config\)\)' % RESP
    atoms = [
        Atom('recv_ok', r'is_ok\(%s\)' % RECV),
        Atom('some', r'discr\(field:0\(%s\)\)' % RECV, truth={1: 1}),
        Atom('validate', r'call:Strategy::validate\(self, call:Response::data\(%s\)\)' % RESP),
        Atom('trace_id', r'call:Strategy::check_trace_id\(self, field:trace_id\(%s\)\)' % SR),
        Atom('in_round', r'call:TracerState::in_round\(st, field:sequence\(%s\)\)' % SR),
    ]
    completes = lambda o: bool(user_calls(o, r'TracerState::complete_probe$'))
    check_decision_table(chk, 'R2', 'recv_response', fn_loc(frr), outs, atoms, completes,
                         lambda a: bool(a['recv_ok'] and a['some'] and a['validate'] and a['trace_id'] and a['in_round']))
    for i, o in enumerate(outs):
        muts = [c for c in user_calls(o) if any(t.startswith('&mut ' + TS) for t in _atys(prog, c))]
        names = [short(c[1]) for c in muts]
        bad = [n for n in names if not n.endswith('complete_probe')]
        cp = [c for c in muts if c[1].endswith('complete_probe')]
        argok = all(re.fullmatch(SR, vshow(c[7][1])) for c in cp)
        if bad or not argok:
            chk.fail('R2', 'recv_response:mut%d' % i, fn_loc(frr),
                     'the receive step hands the tracer state mutably to %s / passes %s to complete_probe' % (
                         bad, [vshow(c[7][1])[:80] for c in cp]), key='R2|mut|' + ','.join(bad))
        else:
            chk.ok('R2', 'recv_response:mut%d' % i, names)

    # ---- R3 -------------------------------------------------------------------------------------------
    chk.rule('R3', 'round-progress fields are written only by complete_probe / advance_round / new', floor=4)
    w = field_writers(prog, TS)
    allowed = {'complete_probe', 'advance_round', 'new'}
    for fld in ('target_found', 'target_ttl', 'max_received_ttl', 'received_time'):
        ws = sorted({p for (p, _, _) in w.get(fld, ())})
        bad = [p for p in ws if prog.fns[p].get('name') not in allowed or not p.startswith(TS)]
        if not ws:
            chk.fail('R3', 'field:' + fld, '?', 'no writer of TracerState.%s found (anchor lost)' % fld, key='R3|nowriter|' + fld)
        elif bad:
            chk.fail('R3', 'field:' + fld, fn_loc(prog.fns[bad[0]]),
                     'TracerState.%s is written outside complete_probe/advance_round/new: %s' % (fld, [short(b) for b in bad]),
                     key='R3|writer|%s|%s' % (fld, short(bad[0])))
        else:
            chk.ok('R3', 'field:' + fld, [short(p) for p in ws])
    # stores of ProbeStatus::Complete
    cstores = set()
    for path, fn in prog.fns.items():
        for b in fn['blocks']:
            for s_ in b['stmts']:
                rv = s_.get('rv')
                if rv and rv['k'] == 'agg' and rv['kind'].get('def') == 'trippy_core::probe::ProbeStatus' and rv['kind'].get('vn') == 'Complete':
                    if fn['crate'] == 'core' and not path.startswith('<') and 'tests' not in path:
                        cstores.add(path)
    bad = [p for p in cstores if p != fcp['path']]
    if bad:
        chk.fail('R3', 'store:Complete', fn_loc(prog.fns[bad[0]]),
                 'ProbeStatus::Complete is constructed outside complete_probe: %s' % [short(b) for b in bad],
                 key='R3|complete-store|' + short(bad[0]))
    elif fcp['path'] in cstores:
        chk.ok('R3', 'store:Complete', 'only complete_probe constructs ProbeStatus::Complete')
    else:
        chk.fail('R3', 'store:Complete', fn_loc(fcp), 'complete_probe does not construct ProbeStatus::Complete', key='R3|nostore')

    # ---- R4 / R6: transition table of complete_probe ---------------------------------------------------
    chk.rule('R4', 'complete_probe: non-Awaited slot ⇒ no write; Awaited ⇒ exactly the specified updates', floor=10)
    chk.rule('R6', 'complete_probe never panics, whatever slot the in-window sequence names', floor=1)
    transitions(chk, prog)
    trace_ids(chk)

    # ---- R7: stale slots ---------------------------------------------------------------------------------
    chk.rule('R7', 'a sequence not sent in the current round can never name an Awaited slot '
                   '(in_round bounded by the next sequence, or the buffer is reset between rounds)', floor=1)
    far = prog.find(r'TracerState::advance_round$')
    chk.fn_seen(far['path'])
    enga = Engine(prog, inline_depth=1)
    st = St()
    outs = enga.run(far, [enga.sym_ref(st, 'self'), ('sym', 'first_ttl')], st)
    resets = 0
    for o in outs:
        w = [e for e in o.st.events if e[0] == 'write' and e[1] == TS and e[2] == 'buffer' and e[5] == 'buffer']
        fresh = False
        for e in w:
            v = e[3]
            if vshow(v) == 'filled(ProbeStatus::NotSent)':
                fresh = True        # `for slot in &mut self.buffer { *slot = ProbeStatus::default() }` (engine summary of a fill loop)
            elif not contains(v, lambda x: isinstance(x, tuple) and x[0] in ('sym', 'rec') and 'buffer' in str(x[1])):
                # value must be built from default (NotSent) entries
                cl = [x for x in _subterms(v) if isinstance(x, tuple) and x[0] == 'closure']
                if cl and cl[0][1] in prog.fns:
                    st2 = St()
                    eng3 = Engine(prog, inline_depth=3)
                    r = eng3.run(prog.fns[cl[0][1]], [eng3.obj_ref(st2, cl[0]), ('sym', 'i')], st2)
                    if r and all(x.kind == 'return' and vshow(x.value) == 'ProbeStatus::NotSent' for x in r):
                        fresh = True
        resets += 1 if (o.kind == 'return' and fresh) else 0
    st = St()
    eng2b = Engine(prog, inline_depth=2)
    fir_ = prog.find(r'TracerState::in_round$')
    io = eng2b.run(fir_, [eng2b.sym_ref(st, 'self'), ('sym', 'seq')], st)
    bounded = any(re.search(r'Lt\(seq(\.0)?, self\.sequence(\.0)?\)|Gt\(self\.sequence(\.0)?, seq(\.0)?\)', vshow(a))
                  for o in io for a, v, _ in o.st.decisions) or \
        any(re.search(r'Lt\(seq(\.0)?, self\.sequence(\.0)?\)', vshow(o.value)) for o in io)
    if bounded or (outs and resets == len(outs)):
        chk.ok('R7', 'stale-slots', 'in_round bounded by self.sequence: %s; advance_round resets the whole buffer to NotSent on %d/%d traces' % (bounded, resets, len(outs)))
    else:
        chk.fail('R7', 'stale-slots', fn_loc(far),
                 'neither does in_round bound the sequence by what was sent, nor does advance_round reset the buffer '
                 '(reset on %d/%d traces): a response naming a not-yet-sent in-window sequence can complete a stale Awaited '
                 'entry of an earlier round and corrupt target_found / max_received_ttl / received_time' % (resets, len(outs)),
                 key='R7|stale-awaited-slot')

    # ---- R5: the gate predicates ------------------------------------------------------------------------
    chk.rule('R5v', 'validate == dest-addr ∧ ports(direction) ∧ (Dublin/IPv6 → magic), per configuration cell (72 cells)', floor=72 * 4)
    from .validate_spec import check_validate
    check_validate(chk, 'R5v', prog)
    chk.rule('R5', 'check_trace_id and in_round are the specified predicates', floor=4)
    eng2 = Engine(prog, inline_depth=2)
    fct = prog.find(r'Strategy::check_trace_id$')
    chk.fn_seen(fct['path'])
    st = St()
    outs = eng2.run(fct, [eng2.sym_ref(st, 'self'), ('sym', 'tid')], st)
    A = r'Eq\(self\.config\.trace_identifier, tid\)|Eq\(tid, self\.config\.trace_identifier\)'
    Z = r'Eq\(tid, 0\)|Eq\(0, tid\)'
    _pred_table(chk, 'R5', 'check_trace_id', fct, outs,
                [Atom('mine', A), Atom('zero', Z)], lambda a: bool(a['mine'] or a['zero']))
    fir = prog.find(r'TracerState::in_round$')
    chk.fn_seen(fir['path'])
    bs = prog.const_val('trippy_core::strategy::state::BUFFER_SIZE')
    st = St()
    outs = eng2.run(fir, [eng2.sym_ref(st, 'self'), ('sym', 'seq')], st)
    GE = r'Ge\(seq, self\.round_sequence\)|Le\(self\.round_sequence, seq\)|Ge\(seq\.0, self\.round_sequence\.0\)'
    LT = r'Lt\(Sub\(seq\.0, self\.round_sequence\.0\), %d\)|Lt\(Sub\(seq, self\.round_sequence\), %d\)' % (bs, bs)
    _pred_table(chk, 'R5', 'in_round', fir, outs, [Atom('ge', GE, r'Lt\(seq, self\.round_sequence\)'), Atom('window', LT)],
                lambda a: bool(a['ge'] and a['window']))


def transitions(chk, prog):
    """R4/R6: the transition table of TracerState::complete_probe (also used by C06.R4)"""
    fcp = prog.find(r'TracerState::complete_probe$')
    chk.fn_seen(fcp['path'])
    eng = Engine(prog, inline_depth=2, opaque=[r'Probe::complete$'])
    st = St()
    outs = eng.run(fcp, [eng.sym_ref(st, 'self'), ('sym', 'resp')], st)
    variants = prog.variant_names('trippy_core::probe::ProbeStatus')
    AW, CO = variants.index('Awaited'), variants.index('Complete')
    SLOT = r'index\(self\.buffer, Sub\(resp\.sequence, self\.round_sequence\)\)'
    COMPLETED = (r'call:Probe::complete\(field:0\(%s\), resp\.addr, resp\.received, resp\.icmp_packet_type, resp\.tos, '
                 r'resp\.expected_udp_checksum, resp\.actual_udp_checksum, resp\.exts\)' % SLOT)
    TTL = r'field:ttl\(%s\)' % COMPLETED
    n_aw = 0
    panics = 0
    for i, o in enumerate(outs):
        dec = [(vshow(a), v) for a, v, _ in o.st.decisions]
        slot = []
        for a, v in dec:
            if re.fullmatch(r'discr\(%s\)' % SLOT, a) and v not in slot:
                slot.append(v)
        writes = [(e[2], vshow(e[3])) for e in o.st.events if e[0] == 'write' and e[1] == TS]
        if o.kind == 'panic':
            panics += 1
            chk.fail('R6', 'panic:slot=%s' % (str(slot[0]) if slot else '?',), fn_loc(fcp),
                     'an in-window sequence whose slot is neither Awaited nor Complete (never sent, skipped, failed, or '
                     'left over) reaches a panic (debug_assert!(false)) in complete_probe',
                     key='R6|complete_probe|panic-on-non-awaited-slot')
            continue
        if o.kind != 'return' or len(slot) != 1:
            chk.fail('R4', 'trace%d' % i, fn_loc(fcp), 'complete_probe does not start by classifying the slot named by '
                     'resp.sequence − round_sequence (decisions: %s)' % dec[:2], key='R4|shape')
            continue
        if slot[0] != AW:
            if writes:
                chk.fail('R4', 'slot=%s' % (slot[0],), fn_loc(fcp),
                         'a response for a slot that is not Awaited (%s) modifies %s: duplicates and responses naming unsent / skipped / failed slots must leave everything unchanged' % ((slot[0],), [w_[0] for w_ in writes]),
                         key='R4|write-on-non-awaited|' + ','.join(sorted({w_[0] for w_ in writes})))
            else:
                chk.ok('R4', 'slot=%s:nowrite' % (slot[0],), 'no state change')
            continue
        n_aw += 1
        d = dict(dec)
        is_t = d.get('resp.is_target')
        wd = {}
        for k, v in writes:
            wd.setdefault(k, []).append(v)
        exp = {}
        exp['buffer'] = r'ProbeStatus::Complete\(%s\)' % COMPLETED
        exp['received_time'] = r'Option::Some\(resp\.received\)'
        exp['target_found'] = r'BitOr\(self\.target_found, resp\.is_target\)|BitOr\(resp\.is_target, self\.target_found\)' + \
                              (r'|1|resp\.is_target' if is_t == 1 else r'|self\.target_found')
        mr = d.get('discr(self.max_received_ttl)')
        exp['max_received_ttl'] = (r'Option::Some\(%s\)' % TTL) if mr == 0 else \
            r'Option::Some\(TimeToLive\(Max\((field:0\(self\.max_received_ttl\), %s|%s, field:0\(self\.max_received_ttl\))\)\)\)' % (TTL, TTL)
        tt = d.get('discr(self.target_ttl)')
        if isinstance(tt, tuple) and tt[0] == 'ne' and set(tt[1]) == {1}:
            tt = 0          # Option has two variants: "not Some" is None
        TT = r'field:0\(self\.target_ttl\)'
        unchanged = set()   # fields whose specified new value is the old one: leaving them alone or storing them back is the same transition
        lt = _cmp(d, 'Lt', TTL, TT)      # ttl < target_ttl ?
        if tt is None:
            tt_c = cdec(o).get('discr(self.target_ttl)')
            tt = (0 if isinstance(tt_c, tuple) else tt_c)
        if is_t == 1:
            if tt == 0:
                exp['target_ttl'] = r'Option::Some\(%s\)' % TTL
            elif lt is None:
                # the smaller of the two may also be taken with min(): the same function of (known, ttl)
                exp['target_ttl'] = r'Option::Some\(TimeToLive\(Min\((%s(\.0)?, %s(\.0)?|%s(\.0)?, %s(\.0)?)\)\)\)' % (TT, TTL, TTL, TT)
            else:
                exp['target_ttl'] = (r'Option::Some\(%s\)' % TTL) if lt else (r'Option::Some\(%s\)|self\.target_ttl' % TT)
                if not lt:
                    unchanged.add('target_ttl')
        else:
            if tt == 0:
                exp['target_ttl'] = r'Option::None|self\.target_ttl'
                unchanged.add('target_ttl')
            elif lt is None:
                exp['target_ttl'] = None
            else:
                exp['target_ttl'] = (r'Option::Some\(%s\)|self\.target_ttl' % TT) if lt else r'Option::None'
                if lt:
                    unchanged.add('target_ttl')
        if is_t == 0:
            unchanged.add('target_found')      # found |= false
        row = 'awaited:is_target=%s,target_ttl=%s,lt=%s,max_recv=%s' % (is_t, tt, lt, mr)
        for fld, rx in exp.items():
            got = wd.get(fld, [])
            if rx is None or is_t is None:
                chk.fail('R4', row + ':' + fld, fn_loc(fcp), 'complete_probe decides %s on conditions outside the specified '
                         'transition (decisions %s)' % (fld, dec), key='R4|unknown-decision|' + fld)
            elif (got and re.fullmatch(rx, got[-1])) or (not got and fld in unchanged):
                # several stores to one field on a trace: the last one is the state the function leaves (&mut self: nothing observes the others)
                chk.ok('R4', row + ':' + fld, (got[-1] if got else 'unchanged')[:120])
            else:
                chk.fail('R4', row + ':' + fld, fn_loc(fcp),
                         'on an Awaited slot with %s, TracerState.%s becomes %s; the transition requires %s' % (
                             row, fld, [g[:140] for g in got] or 'unchanged', _human(fld)),
                         detail={'got': got, 'want_regex': rx}, key='R4|transition|' + fld)
        extra = set(wd) - set(exp)
        if extra:
            chk.fail('R4', row + ':extra', fn_loc(fcp), 'complete_probe also writes %s' % sorted(extra), key='R4|extra|' + ','.join(sorted(extra)))
    if n_aw < 8:
        chk.fail('R4', 'coverage', fn_loc(fcp), 'only %d Awaited rows were derived (expected ≥ 8)' % n_aw, key='R4|coverage')
    if not panics:
        chk.ok('R6', 'no-panic', 'no trace of complete_probe panics')



def _subterms(v, depth=0):
    if depth > 20 or not isinstance(v, tuple):
        return
    yield v
    kids = v[4] if v[0] == 'adt' else v[1] if v[0] in ('tuple', 'arr') else v[2] if v[0] in ('term', 'closure') else ()
    if isinstance(kids, (list, tuple)):
        for x in kids:
            yield from _subterms(x, depth + 1)


def _atys(prog, c):
    """argument types of the call event (looked up from the call terminator is not kept; use callee signature)"""
    fn = prog.fns.get(c[1])
    if fn is None:
        return []
    return [fn['locals'][i + 1]['ty'] for i in range(fn['argc'])]


def _cmp(d, op, a, b):
    """truth of a<b from the decisions, accepting the mirrored / negated spellings"""
    forms = {
        'Lt': [(r'Lt\(%s, %s\)' % (a, b), 1), (r'Gt\(%s, %s\)' % (b, a), 1), (r'Ge\(%s, %s\)' % (a, b), -1), (r'Le\(%s, %s\)' % (b, a), -1)],
    }[op]
    for k, v in d.items():
        for rx, pol in forms:
            if re.fullmatch(rx, k) and isinstance(v, int):
                return v if pol == 1 else 1 - v
    return None


def _human(fld):
    return {
        'buffer': 'the slot to become Complete(awaited.complete(resp…))',
        'received_time': 'Some(resp.received)',
        'target_found': 'target_found | resp.is_target (latched for the round)',
        'max_received_ttl': 'Some(max(previous, ttl))',
        'target_ttl': 'target: None→Some(ttl), Some(t)→Some(min(t, ttl)); non-target: Some(t) with ttl ≥ t → None, otherwise unchanged',
    }[fld]


def trace_ids(chk):
    """R8 — see module docstring."""
    chk.rule('R8', 'tracers of one process get distinct non-zero trace identifiers, computed without overflow', floor=2)
    prog = program(crates=('core', 'tui'))
    fs = prog.find(r'trippy_tui::app::start_tracers$')
    chk.fn_seen(fs['path'])
    W = {'u8': 8, 'u16': 16, 'u32': 32, 'u64': 64, 'usize': 64}

    def comp(v):
        """extracted term -> python expression over pid, i (None: not arithmetic over these)"""
        if not isinstance(v, tuple):
            return None
        if v[0] == 'c' and isinstance(v[1], int):
            return str(int(v[1]))
        if v[0] == 'sym':
            return {'i': 'i'}.get(v[1], 'pid' if re.fullmatch(r'env\.\d+|pid', v[1]) else None)
        if v[0] != 'term':
            return None
        op, a = v[1], v[2]
        if re.fullmatch(r'field:0', op) and re.fullmatch(r'field:0\((?:call|havoc):\w*Enumerate\w*::next\(.*\)(?:, \d+)?\)', vshow(a[0])):
            return 'i'          # the index of `for (i, target) in addrs.iter().enumerate()`
        if op == 'unwrap_or' and len(a) == 2 and isinstance(a[0], tuple) and a[0][0] == 'term' and re.search(r'try_from$', a[0][1]):
            inner, dflt = comp(a[0][2][0]), comp(a[1])       # u16::try_from(x).unwrap_or(d)
            return None if inner is None or dflt is None else '(%s if 0 <= %s <= 65535 else %s)' % (inner, inner, dflt)
        xs = [comp(x) for x in a]
        if any(x is None for x in xs):
            return None
        if op in ('Add', 'Sub', 'Mul'):
            return '(%s %s %s)' % (xs[0], {'Add': '+', 'Sub': '-', 'Mul': '*'}[op], xs[1])
        if op == 'Rem':
            return '(%s %% %s)' % (xs[0], xs[1])
        if op == 'Div':
            return '(%s // %s)' % (xs[0], xs[1])
        m = re.fullmatch(r'as_(u8|u16|u32|u64|usize)', op)
        if m:
            return '(%s & %d)' % (xs[0], (1 << W[m.group(1)]) - 1)
        # the identifier arithmetic is u16 (Builder::trace_identifier takes a u16): wrapping / saturating forms at that width
        if op == 'wrapping_add':
            return '((%s + %s) & 65535)' % (xs[0], xs[1])
        if op == 'wrapping_sub':
            return '((%s - %s) & 65535)' % (xs[0], xs[1])
        if op == 'saturating_add':
            return 'min(%s + %s, 65535)' % (xs[0], xs[1])
        if op == 'saturating_sub':
            return 'max(%s - %s, 0)' % (xs[0], xs[1])
        if op in ('Max', 'Min') and len(xs) == 2:
            return '%s(%s, %s)' % (op.lower(), xs[0], xs[1])
        if re.fullmatch(r'call:(num|convert)::from', op) and len(xs) == 1:
            return xs[0]
        return None

    cls = [c for c in prog.fns.values() if c['kind'] == 'Closure' and c.get('parent') == fs['path']]
    callers = [c for c in [fs] + cls if any(b['term']['k'] == 'call' and re.search(r'app::start_tracer$', b['term'].get('resolved') or b['term']['callee'] or '') for b in c['blocks'])]
    if len(callers) != 1:
        chk.fail('R8', 'anchor', fn_loc(fs), 'expected one site in start_tracers that starts a tracer, found %d' % len(callers), key='R8|anchor')
        return
    fn = callers[0]
    eng = Engine(prog, inline_depth=2, opaque=[r'app::start_tracer$'])
    st = St()
    if fn['kind'] == 'Closure':
        outs = eng.run(fn, [eng.sym_ref(st, 'env'), ('tuple', [('sym', 'i'), eng.sym_ref(st, 'target')])], st)
    else:
        # the same assignment written as a loop over addrs.iter().enumerate(): the index is the first component of the item
        engl = Engine(prog, inline_depth=2, opaque=[r'app::start_tracer$'], loop_visits=1)
        outs = engl.run(fn, [engl.sym_ref(st, 'cfg'), engl.sym_ref(st, 'addrs'), ('sym', 'pid')], st)
        outs = [o for o in outs if user_calls(o, r'app::start_tracer$')][:1]
        for o in outs:
            o.kind = 'return'
    # the pid domain established by the caller
    ft = prog.find(r'trippy_tui::trippy$')
    e0 = Engine(prog, inline_depth=0)
    st0 = St()
    pid_terms = {vshow(c[7][1]) for o in e0.run(ft, [], st0) for c in user_calls(o, r'app::run_trippy$')}
    pid_max = 65535
    if len(pid_terms) == 1:
        m = re.fullmatch(r'field:0\(call:num::try_from\(Rem\(call:process::id\(\), (\d+)\)\)\)', next(iter(pid_terms)))
        if m:
            pid_max = min(65535, int(m.group(1)) - 1)
    chk.ok('R8', 'pid-domain', 'pid ∈ [0, %d] (%s)' % (pid_max, sorted(pid_terms)), nontrivial=False)
    n_sites = 0
    for o in outs:
        if o.kind != 'return':
            continue
        for c in user_calls(o, r'app::start_tracer$'):
            n_sites += 1
            term = c[7][3]
            expr = comp(term)
            asserts = [(e[1], e[2], e[4] if len(e) > 4 else None) for e in o.st.events if e[0] == 'assert' and e[1].startswith('Overflow')]
            aexprs = []
            for kind, ops, opty in asserts:
                xs = [comp(x) for x in ops]
                if None in xs or opty not in W:
                    expr = None
                    break
                opc = {'Overflow:Add': '+', 'Overflow:Sub': '-', 'Overflow:Mul': '*'}.get(kind)
                if opc is None:
                    expr = None
                    break
                aexprs.append(('0 <= (%s %s %s) <= %d' % (xs[0], opc, xs[1], (1 << W[opty]) - 1), '%s(%s, %s) on %s' % (kind, vshow(ops[0])[:40], vshow(ops[1])[:40], opty)))
            if expr is None:
                chk.fail('R8', 'id-term', fn_loc(fn), 'the trace identifier of the i-th tracer is %s: not an arithmetic term over (pid, i) this rule can evaluate' % vshow(term)[:140], key='R8|id-term')
                continue
            f_id = eval('lambda pid, i: ' + expr)
            f_as = [(eval('lambda pid, i: ' + ae), d) for ae, d in aexprs]
            bad = {}
            edge = sorted({0, 1, max(0, pid_max - 1), pid_max})
            for pids, imax in ((range(0, pid_max + 1), 16), (edge, 4096)):
                for pid in pids:
                    seen = set()
                    for i in range(imax):
                        for fa, d in f_as:
                            if not fa(pid, i):
                                bad.setdefault('overflow', 'pid %d, tracer %d: %s overflows (panic in a debug build, a wrapped identifier otherwise)' % (pid, i, d))
                        v = f_id(pid, i)
                        if v == 0:
                            bad.setdefault('zero', 'pid %d, tracer %d gets trace identifier 0 — "no identifier", which every other tracer\'s check_trace_id accepts, so its responses are taken by the other tracers of the process' % (pid, i))
                        if v in seen:
                            bad.setdefault('collision', 'pid %d: tracer %d gets the identifier %d of an earlier tracer' % (pid, i, v))
                        seen.add(v)
            for kind, msg in sorted(bad.items()):
                chk.fail('R8', 'ids:' + kind, fn_loc(fn), 'start_tracers assigns %s as the trace identifier of tracer i: %s' % (vshow(term)[:90], msg), key='R8|ids|' + kind)
            if not bad:
                chk.ok('R8', 'ids', '%s: non-zero, injective in i, %d overflow assertions hold (pid ∈ [0, %d] × i < 16; boundary pids × i < 4096)' % (vshow(term)[:100], len(f_as), pid_max))
    if not n_sites:
        chk.fail('R8', 'anchor', fn_loc(fn), 'no tracer is started on any trace of the start_tracers closure', key='R8|anchor')

