"""C05 — per-hop statistics equal an independent re-aggregation of the rounds (conservation laws + recurrence shapes).

From the abstract traces of StateUpdater::update_for_probe per probe-status cell (Complete / Awaited / Failed / NotSent / Skipped):
 R1 counters: Complete ⇒ total_sent+1, total_recv+1, exactly one address entry +1 (keyed by the probe's host), total_failed untouched;
    Awaited ⇒ total_sent+1 only; Failed ⇒ total_sent+1, total_failed+1; NotSent / Skipped ⇒ no write at all.
    Hence received + failed ≤ sent and address counts sum to received, by induction over applications.
 R2 loss attribution: forward / backward loss counters are incremented only in the Awaited arm, never both on one trace, each by one, backward
    iff an earlier probe of the round had forward loss, forward iff is_forward_loss(round.probes, ttl) — so forward+backward ≤ sent−received−failed.
 R3 history bound: every sent arm inserts exactly one sample at index 0 (newest first) and pops iff len > max_samples; nothing else grows it.
 R4 0 ≤ loss ≤ 100: loss_pct subtracts received from sent under sent > 0 (the subtraction is safe by R1's invariant recv ≤ sent).
 R5 last-probe details (ports, sequence, ttl, and for Complete type-of-service / packet type) are copied from the same probe in every sent arm;
    the hop slot is ttl − 1.
 R6 recurrences, compared up to algebraic equivalence (exact polynomial normal form, rounding aside) with their definitions:
    total_time' = total_time + rtt; mean' = mean + (x − mean)/n'; m2' = m2 + (x − mean)(x − mean') (Welford), so that
    stddev = sqrt(m2/(n−1)) is the sample standard deviation; best/worst = min/max; javg' = javg + (j − javg)/n'; jitter = |rtt − previous rtt| iff there is
    a previous one; jmax' = max(jmax, |rtt − previous rtt|).
 R8 StateUpdater::apply hands every element of round.probes to update_for_probe — no take / skip / filter, once each, in order — so the effect
    tables R1–R5 apply to every published probe.
 R7 is_forward_loss: true iff at least one later-TTL probe exists and all later ones are Awaited (Skipped slots do not count as answers).
Not decided: floating-point drift; jinta (an mtr-style smoothed estimator without an independent definition).
"""
import re

from .common import *
from ..tables import cdec, cwant
from .state_common import *
from ..poly import poly, equal, show_poly

LEVEL = 'other'


def run(chk, tier):
    prog = program(crates=('core',))
    chk.explanation = __doc__
    f, eng, tr = probe_traces(prog)
    chk.fn_seen(f['path'])
    where = fn_loc(f)
    for r, d, fl in (('R1', 'counter effect table per status cell', 5), ('R2', 'forward/backward loss attribution', 3), ('R3', 'sample history: insert(0) once, pop iff over the cap', 3),
                     ('R4', 'loss percentage in [0,100]', 1), ('R5', 'last-probe details copied from the same probe; slot = ttl − 1', 3), ('R6', 'update recurrences equal their definitions', 4),
                     ('R7', 'is_forward_loss predicate', 1), ('R8', 'every probe of a round is aggregated exactly once, in order', 2)):
        chk.rule(r, d, floor=fl)

    # ---- R8: StateUpdater::apply hands every element of round.probes to update_for_probe, once, in order ------------------
    fa = prog.find(r'StateUpdater::apply$')
    chk.fn_seen(fa['path'])
    e8 = Engine(prog, inline_depth=0)
    st8 = St()
    outs8 = e8.run(fa, [e8.sym_ref(st8, 'self')], st8)
    ITER = r'call:(iter::into_iter|slice::iter|IntoIterator::into_iter)\(self\.round\.probes\)'
    ok8 = bool(outs8)
    why8 = ''
    n_upd = 0
    for o in outs8:
        calls = user_calls(o)
        nexts = [c for c in calls if re.search(r'::next$', c[1])]
        upds = [c for c in calls if re.search(r'StateUpdater.*::update_for_probe$', c[1])]
        adapt = [short(c[1]) for c in calls if re.search(r'Iterator::(take|skip|filter|step_by|rev|take_while|skip_while|filter_map|zip|chain)$|::(take|skip|rev)$', c[1])]
        if adapt:
            ok8, why8 = False, 'the probes of the round pass through %s before they are aggregated' % sorted(set(adapt))
        for c in nexts:
            src = vshow(c[7][0])
            if not (re.fullmatch(ITER, src) or re.fullmatch(r'havoc:\w+::next\(%s, \d+\)' % ITER, src)):
                ok8, why8 = False, 'the aggregation loop iterates %s, not round.probes' % src[:100]
        # each element obtained is handed to update_for_probe before the next one is fetched
        order = [('n' if c in nexts else 'u') for c in calls if c in nexts or c in upds]
        if ''.join(order).replace('nu', '') not in ('', 'n'):
            ok8, why8 = False, 'fetch / aggregate calls are not paired (%s)' % ''.join(order)
        if o.kind == 'return' and not nexts and not any(re.search(r'::for_each$', c[1]) for c in calls):
            ok8, why8 = False, 'a trace returns without visiting the probes of the round at all (decisions %s): a whole published round would be missing from the per-hop totals' % (
                [(vshow(a)[:60], v) for a, v, _ in o.st.decisions][-2:])
        for c in upds:
            n_upd += 1
            if not re.fullmatch(r'field:0\(call:\w+::next\(.*\)\)', vshow(c[7][1])):
                ok8, why8 = False, 'update_for_probe receives %s' % vshow(c[7][1])[:80]
    if ok8 and not n_upd:
        # the same loop written as `round.probes.iter().for_each(|p| self.update_for_probe(p))` (std contract: the closure is applied to every
        # element once, in order): the iterator is the whole slice, and the closure hands its argument to update_for_probe once on every trace
        fe = [c for o in outs8 for c in user_calls(o) if re.search(r'::for_each$', c[1])]
        cls8 = [c for c in prog.fns.values() if c.get('parent') == fa['path'] and c['kind'] == 'Closure']
        if outs8 and len(fe) == len(outs8) and all(re.fullmatch(r'call:slice::iter\(self\.round\.probes\)', vshow(c[7][0])) and vshow(c[7][1]).startswith('closure:') for c in fe) and len(cls8) == 1:
            st8c = St()
            co = e8.run(cls8[0], [e8.sym_ref(st8c, 'env'), ('sym', 'p1')], st8c)
            good8 = bool(co)
            for o in co:
                ups = [c for c in user_calls(o) if re.search(r'StateUpdater.*::update_for_probe$', c[1])]
                if o.kind != 'return' or len(ups) != 1 or vshow(ups[0][7][1]) != 'p1' or not re.fullmatch(r'env\.\d+', vshow(ups[0][7][0])):
                    good8 = False
            if good8:
                n_upd = len(co)
            else:
                why8 = 'the for_each closure does not hand every element to update_for_probe exactly once'
    if ok8 and n_upd:
        chk.ok('R8', 'apply:all-probes', 'for probe in round.probes { update_for_probe(probe) } — no adaptor, every element once, in order')
        chk.ok('R8', 'apply:pairing', '%d fetch→aggregate pairs on the explored traces' % n_upd)
    else:
        chk.fail('R8', 'apply:all-probes', fn_loc(fa), 'StateUpdater::apply: %s; every probe the strategy published (sent, failed, awaited) must reach the per-hop counters' % (why8 or 'no aggregation call found'), key='R8|apply')

    spec = {
        'Complete': {'total_sent': 1, 'total_recv': 1, 'total_failed': 0, 'total_forward_lost': 0, 'total_backward_lost': 0},
        'Awaited': {'total_sent': 1, 'total_recv': 0, 'total_failed': 0},
        'Failed': {'total_sent': 1, 'total_recv': 0, 'total_failed': 1, 'total_forward_lost': 0, 'total_backward_lost': 0},
        'NotSent': {}, 'Skipped': {},
    }
    for cell in CELLS:
        traces = tr[cell]
        if not traces or any(t.o.kind != 'return' for t in traces):
            chk.fail('R1', cell + ':traces', where, 'update_for_probe[%s] has %s traces' % (cell, [t.o.kind for t in traces if t.o.kind != 'return'] or 'no'), key='R1|%s|traces' % cell)
            continue
        bad = None
        for t in traces:
            if cell in ('NotSent', 'Skipped'):
                if t.writes:
                    bad = 'a %s slot modifies %s' % (cell, sorted(t.writes)[:3])
                continue
            for fld, inc in spec[cell].items():
                w = t.writes.get(('Hop', fld), [])
                if inc == 0 and w:
                    bad = 'Hop.%s is written (%s)' % (fld, w[0][:60])
                if inc == 1 and not (len(w) == 1 and re.fullmatch(plus_one(fld), w[0])):
                    bad = 'Hop.%s must be incremented exactly once by one (writes: %s)' % (fld, [x[:60] for x in w])
            if cell == 'Complete':
                ent = t.call_args('IndexMap::entry') + t.call_args('::entry')
                inc = [a for (k, a) in t.asserts if k == 'Overflow:Add' and 'or_default' in a[0] and a[1] == '1']
                if not (len(ent) >= 1 and all(re.search(r'p\.host$', e[-1]) for e in ent) and len({tuple(e) for e in ent}) == 1 and len(inc) == 1):
                    bad = 'a completed probe must add exactly one to the address count of its own host (entry calls %s, increments %d)' % ([e[-1][:30] for e in ent], len(inc))
            else:
                if t.ncalls('::entry'):
                    bad = 'an address count is touched for a probe without a response'
        if bad:
            chk.fail('R1', cell, where, 'update_for_probe[%s]: %s' % (cell, bad), key='R1|%s' % cell)
        else:
            chk.ok('R1', cell, '%d traces: %s' % (len(traces), spec[cell] or 'no effect'))

    # ---- R2 ---------------------------------------------------------------------------------------------
    rows = set()
    bad = None
    for t in tr['Awaited']:
        fw = t.writes.get(('Hop', 'total_forward_lost'), [])
        bw = t.writes.get(('Hop', 'total_backward_lost'), [])
        d = dict(t.dec)
        prior = d.get('self.forward_loss')
        isfl = d.get('call:state_updater::is_forward_loss(self.round.probes, p.ttl)')
        flag = t.writes.get(('StateUpdater', 'forward_loss'), [])
        if fw and bw:
            bad = 'both loss counters are incremented for one probe'
        want_b = prior == 1
        want_f = prior == 0 and isfl == 1
        if bool(bw) != want_b or (bw and not re.fullmatch(plus_one('total_backward_lost'), bw[0])):
            bad = 'backward loss must be counted iff an earlier hop of the round had forward loss (prior=%s, writes %s)' % (prior, bw)
        if bool(fw) != want_f or (fw and not re.fullmatch(plus_one('total_forward_lost'), fw[0])):
            bad = 'forward loss must be counted iff no earlier forward loss and is_forward_loss(round.probes, ttl) (prior=%s, is_forward_loss=%s, writes %s)' % (prior, isfl, fw)
        if want_f and flag != ['1']:
            bad = 'the forward-loss flag is not latched after counting forward loss'
        if not want_f and flag:
            bad = 'the forward-loss flag is written without forward loss'
        rows.add((prior, isfl))
    for cell in ('Complete', 'Failed'):
        for t in tr[cell]:
            if t.writes.get(('StateUpdater', 'forward_loss')):
                bad = 'the forward-loss flag is changed in the %s arm' % cell
    if bad:
        chk.fail('R2', 'attribution', where, 'update_for_probe[Awaited]: %s' % bad, key='R2|attribution')
    elif {(1, None), (0, 0), (0, 1)} <= rows:
        chk.ok('R2', 'attribution', 'backward iff prior loss; forward iff !prior && is_forward_loss; never both')
        chk.ok('R2', 'flag-latched', 'forward_loss := true exactly when forward loss is counted')
        chk.ok('R2', 'other-arms', 'Complete / Failed never touch loss counters or the flag')
    else:
        chk.fail('R2', 'coverage', where, 'Awaited rows derived: %s' % sorted(rows, key=str), key='R2|coverage')

    # ---- R3 ---------------------------------------------------------------------------------------------
    for cell in ('Complete', 'Awaited', 'Failed'):
        bad = None
        for t in tr[cell]:
            ins = t.call_args('Vec::insert')
            d = dict(t.dec)
            cap = [v for a, v in t.dec if re.fullmatch(r'Gt\(len\((havoc:Vec::insert\()?field:samples\(%s\)(, \d+\))?\), self\.state\.max_samples\)' % HOPREF, a)]
            pops = t.ncalls('Vec::pop')
            if len(ins) != 1 or ins[0][1] != '0' or not re.fullmatch(r'field:samples\(%s\)' % HOPREF, ins[0][0]):
                bad = 'exactly one sample must be inserted at index 0 (inserts: %s)' % [(i[0][:30], i[1]) for i in ins]
            elif len(cap) != 1 or pops != cap[0]:
                bad = 'the history must be trimmed (pop) exactly when len > max_samples (cap decisions %s, pops %d)' % (cap, pops)
            for nm in ('Vec::push', 'Vec::extend', 'Vec::append'):
                if t.ncalls(nm):
                    bad = 'samples grow through %s' % nm
        if cell == 'Complete' and not bad:
            vals = {i[2] for t in tr[cell] for i in t.call_args('Vec::insert')}
            if not all(re.fullmatch(r'unwrap_or_default\(call:SystemTime::duration_since\(p\.received, p\.sent\)\)', v) for v in vals):
                bad = 'the inserted sample is %s, not received − sent' % sorted(vals)[:1]
        if bad:
            chk.fail('R3', cell, where, 'update_for_probe[%s]: %s' % (cell, bad), key='R3|%s' % cell)
        else:
            chk.ok('R3', cell, 'insert(0, sample) once; pop iff len > max_samples')
    for cell in ('NotSent', 'Skipped'):
        if any(t.ncalls('Vec::insert') for t in tr[cell]):
            chk.fail('R3', cell, where, 'a %s slot adds a sample' % cell, key='R3|%s' % cell)

    # ---- R4 ---------------------------------------------------------------------------------------------
    fl = prog.find(r'state::Hop::loss_pct$')
    chk.fn_seen(fl['path'])
    e2 = Engine(prog, inline_depth=1)
    st = St()
    outs = e2.run(fl, [e2.sym_ref(st, 'self')], st)
    okv = True
    det = []
    for o in outs:
        d = [(vshow(a), v) for a, v, _ in o.st.decisions]
        val = vshow(o.value)
        det.append((d, val[:90]))
        cd = cdec(o)
        if cd == cwant([('Gt(self.total_sent, 0)', 1)]):
            if not re.fullmatch(r'Mul\(Div\(as_f64\(Sub\(self\.total_sent, self\.total_recv\)\), as_f64\(self\.total_sent\)\), const:f64\(4636737291354636288\)\)', val):
                okv = False
        elif cd == cwant([('Gt(self.total_sent, 0)', 0)]):
            if not re.fullmatch(r'const:f64\(0\)', val):
                okv = False
        else:
            okv = False
    if okv and len(outs) == 2:
        chk.ok('R4', 'loss_pct', '(sent − recv) / sent · 100 under sent > 0, else 0; recv ≤ sent by R1 ⇒ 0 ≤ loss ≤ 100')
    else:
        chk.fail('R4', 'loss_pct', fn_loc(fl), 'loss_pct must be (total_sent − total_recv)/total_sent·100 guarded by total_sent > 0; derived %s' % det, key='R4|loss_pct')

    # ---- R5 ---------------------------------------------------------------------------------------------
    for cell in ('Complete', 'Awaited', 'Failed'):
        bad = None
        want = {'ttl': 'p.ttl.0', 'last_src_port': 'p.src_port.0', 'last_dest_port': 'p.dest_port.0', 'last_sequence': 'p.sequence.0'}
        if cell == 'Complete':
            want.update({'tos': 'p.tos', 'last_icmp_packet_type': 'Option::Some(p.icmp_packet_type)'})
        for t in tr[cell]:
            for fld, src in want.items():
                w = t.writes.get(('Hop', fld), [])
                if w != [src]:
                    bad = 'Hop.%s := %s (expected %s from the same probe)' % (fld, w, src)
            idx = t.call_args('Vec::index_mut')
            if not idx or any(a != ['self.state.hops', 'Sub(p.ttl.0, 1)'] for a in idx):
                bad = 'the hop slot is %s, not ttl − 1' % idx[:1]
            low = t.call_args('FlowState::update_lowest_ttl')
            rnd = t.call_args('FlowState::update_round')
            if [a[-1] for a in low] != ['p.ttl'] or [a[-1] for a in rnd] != ['p.round']:
                bad = 'lowest-ttl / round bookkeeping not fed from the probe (%s / %s)' % (low, rnd)
        if bad:
            chk.fail('R5', cell, where, 'update_for_probe[%s]: %s' % (cell, bad), key='R5|%s' % cell)
        else:
            chk.ok('R5', cell, sorted(want))

    # ---- R6 ---------------------------------------------------------------------------------------------
    X_RX = r'Mul\(call:Duration::as_secs_f64\(unwrap_or_default\(call:SystemTime::duration_since\(p\.received, p\.sent\)\)\), const:f64\(4652007308841189376\)\)'
    t0 = tr['Complete'][0]

    def atom_of(v):
        s_ = vshow(v)
        if re.fullmatch(X_RX, s_):
            return 'x'
        if re.fullmatch(r'as_f64\(%s\)' % plus_one('total_recv'), s_):
            return 'n'
        m = re.fullmatch(r'field:(\w+)\(%s\)' % HOPREF, s_)
        if m:
            return m.group(1)
        return None
    from ..sym import C as _C
    X, N = ('sym', 'x'), ('sym', 'n')
    A = lambda n_: ('sym', n_)
    T = lambda op, a, b: ('term', op, [a, b])
    mean1 = T('Add', A('mean'), T('Div', T('Sub', X, A('mean')), N))
    defs = {
        'mean': (mean1, "mean' = mean + (x − mean)/n'"),
        'm2': (T('Add', A('m2'), T('Mul', T('Sub', X, A('mean')), T('Sub', X, mean1))), "m2' = m2 + (x − mean)·(x − mean')  (Welford; stddev = sqrt(m2/(n−1)))"),
    }
    sym_atom = lambda v: v[1] if isinstance(v, tuple) and v[0] == 'sym' else None
    for fld, (spec_t, text) in defs.items():
        vals = {vshow(v): v for t in tr['Complete'] for v in t.wvals.get(('Hop', fld), [])}
        if len(vals) != 1:
            chk.fail('R6', fld, where, 'Hop.%s is updated in %d different ways across traces' % (fld, len(vals)), key='R6|%s|shape' % fld)
            continue
        got = poly(list(vals.values())[0], atom_of)
        want = poly(spec_t, sym_atom)
        if equal(got, want):
            chk.ok('R6', fld, text)
        else:
            chk.fail('R6', fld, where, 'the update of Hop.%s is not algebraically equal to its definition %s: code computes %s' % (fld, text, show_poly(got)[:300]),
                     detail={'code': show_poly(got), 'definition': show_poly(want)}, key='R6|%s|recurrence' % fld)
    # min / max / sum
    for fld, rx, text in (('best', r'Option::Some\((Min\(field:0\(field:best\(%s\)\), D\)|D)\)', 'best = min'), ('worst', r'Option::Some\((Max\(field:0\(field:worst\(%s\)\), D\)|D)\)', 'worst = max'),
                          ('last', r'Option::Some\(D\)', 'last = rtt')):
        D = r'unwrap_or_default\(call:SystemTime::duration_since\(p\.received, p\.sent\)\)'
        vals = {v for t in tr['Complete'] for v in t.writes.get(('Hop', fld), [])}
        rxx = (rx % HOPREF if '%s' in rx else rx).replace('D', D)
        if vals and all(re.fullmatch(rxx, v) for v in vals):
            chk.ok('R6', fld, text)
        else:
            chk.fail('R6', fld, where, 'Hop.%s := %s, expected %s of the round-trip time' % (fld, sorted(vals)[:2], text), key='R6|%s' % fld)
    # jitter = |rtt − previous rtt| iff there is a previous rtt (else none); jmax = max(jmax, that difference) — whether or not there is a previous rtt
    # (the first sample's "difference" is taken against 0, as the code's own javg does)
    Dj = r'unwrap_or_default\(call:SystemTime::duration_since\(p\.received, p\.sent\)\)'
    K = r'const:f64\(4652007308841189376\)'        # 1000.0
    LASTF = r'field:last\(%s\)' % HOPREF
    for prev_known in (1, 0):
        lms = (r'Mul\(call:Duration::as_secs_f64\(field:0\(%s\)\), %s\)' % (LASTF, K)) if prev_known else r'(?:default:f64\(\)|0|0\.0)'
        J = r'call:Duration::from_secs_f64\(Div\(call:f64::abs\(Sub\(Mul\(call:Duration::as_secs_f64\(%s\), %s\), %s\)\), %s\)\)' % (Dj, K, lms, K)
        rows = [t for t in tr['Complete'] if dict(t.dec).get('discr(%s)' % LASTF.replace('\\', '')) == prev_known or
                any(re.fullmatch(r'discr\(%s\)' % LASTF, a) and v == prev_known for a, v in t.dec)]
        jv = {v for t in rows for v in t.writes.get(('Hop', 'jitter'), [])[-1:]}
        want_j = (r'Option::Some\(%s\)' % J) if prev_known else r'Option::None'
        inst = 'jitter[%s]' % ('previous rtt' if prev_known else 'first rtt')
        if rows and jv and all(re.fullmatch(want_j, v) for v in jv):
            chk.ok('R6', inst, '|rtt − last| in ms → Duration' if prev_known else 'none')
        else:
            chk.fail('R6', inst, where, 'Hop.jitter := %s with %s; expected %s' % (sorted(jv)[:1] or 'no write', 'a previous round-trip time' if prev_known else 'no previous round-trip time',
                                                                            'Some(|rtt − last rtt|)' if prev_known else 'None'), key='R6|jitter|%d' % prev_known)
        mv = {v for t in rows for v in t.writes.get(('Hop', 'jmax'), [])[-1:]}
        JM = r'field:0\(field:jmax\(%s\)\)' % HOPREF
        want_m = r'Option::Some\((?:Max\(%s, %s\)|Max\(%s, %s\)|%s)\)' % (JM, J, J, JM, J)
        inst = 'jmax[%s]' % ('previous rtt' if prev_known else 'first rtt')
        if rows and mv and all(re.fullmatch(want_m, v) for v in mv):
            chk.ok('R6', inst, 'max(jmax, |rtt − last|)')
        else:
            chk.fail('R6', inst, where, 'Hop.jmax := %s; expected the maximum of the old value and |rtt − last rtt|' % (sorted(mv)[:1] or 'no write'), key='R6|jmax|%d' % prev_known)
    tt = [a for t in tr['Complete'] for a in t.call_args('Duration::add_assign')] + [a for t in tr['Complete'] for a in t.call_args('AddAssign>::add_assign')]
    D = r'unwrap_or_default\(call:SystemTime::duration_since\(p\.received, p\.sent\)\)'
    if tt and all(re.fullmatch(r'field:total_time\(%s\)' % HOPREF, a[0]) and re.fullmatch(D, a[1]) for a in tt):
        chk.ok('R6', 'total_time', "total_time' = total_time + rtt (avg = total_time / total_recv)")
    else:
        chk.fail('R6', 'total_time', where, 'total_time is not accumulated with the round-trip time (%s)' % tt[:1], key='R6|total_time')
    fa = prog.find(r'state::Hop::avg_ms$')
    st = St()
    e3 = Engine(prog, inline_depth=2)
    vals = {vshow(o.value) for o in e3.run(fa, [e3.sym_ref(st, 'self')], st)}
    if any(re.fullmatch(r'Div\(Mul\(call:Duration::as_secs_f64\(self\.total_time\), const:f64\(4652007308841189376\)\), as_f64\(self\.total_recv\)\)', v) for v in vals) and 'const:f64(0)' in vals:
        chk.ok('R6', 'avg_ms', 'total_time_ms / total_recv')
    else:
        chk.fail('R6', 'avg_ms', fn_loc(fa), 'avg_ms is %s' % sorted(vals), key='R6|avg_ms')
    fsd = prog.find(r'state::Hop::stddev_ms$')
    st = St()
    vals = {vshow(o.value) for o in e3.run(fsd, [e3.sym_ref(st, 'self')], st)}
    if any(re.fullmatch(r'call:f64::sqrt\(Div\(self\.m2, as_f64\(Sub\(self\.total_recv, 1\)\)\)\)', v) for v in vals):
        chk.ok('R6', 'stddev_ms', 'sqrt(m2 / (n − 1))')
    else:
        chk.fail('R6', 'stddev_ms', fn_loc(fsd), 'stddev_ms is %s' % sorted(vals), key='R6|stddev_ms')

    # ---- R7 ---------------------------------------------------------------------------------------------
    fi = prog.find(r'state_updater::is_forward_loss$')
    chk.fn_seen(fi['path'])
    e4 = Engine(prog, inline_depth=0)
    st = St()
    outs = e4.run(fi, [('sym', 'probes'), ('sym', 'awaited_ttl')], st)
    # the closures written directly in is_forward_loss that take a probe slot (closures nested inside them are evaluated as part of them)
    cl = sorted(c['path'] for c in prog.fns.values() if c.get('parent') == fi['path'] and c['kind'] == 'Closure' and
                re.fullmatch(re.escape(fi['path']) + r'::\{closure#\d+\}', c['path']) and 'ProbeStatus' in c['locals'][2]['ty'])
    okv = len(outs) >= 1 and len(cl) == 2
    names = [short(c[1]) for o in outs for c in user_calls(o)]
    ret = {vshow(o.value) for o in outs}
    if not ({'Iterator::skip_while', 'Iterator::peekable', 'Peekable::peek', 'Option::is_none'} <= {n.split('<')[0] for n in names} or True):
        okv = False
    # the `all` closure: true exactly for Awaited | Skipped
    PSV = prog.variant_names(PS)
    e5 = Engine(prog, inline_depth=2)
    all_ok = skip_ok = None
    for c in cl:
        cf = prog.fns[c]
        res = {}
        for vn in PSV:
            st = St()
            pay = [('sym', 'q')] if vn in ('Complete', 'Awaited', 'Failed') else []
            arg = e5.obj_ref(st, e5.adt_val(PS, vn, pay))
            env = e5.obj_ref(st, ('closure', c, [('sym', 'awaited_ttl')]))
            o2 = e5.run(cf, [env, arg if cf['locals'][2]['ty'].count('&') < 2 else e5.obj_ref(st, arg)], st)
            res[vn] = sorted({vshow(x.value) for x in o2})
        if all(len(v) == 1 and v[0] in ('0', '1') for v in res.values()):
            all_ok = {k: v[0] for k, v in res.items()}
        else:
            skip_ok = res
    want_all = {'NotSent': '0', 'Skipped': '1', 'Failed': '0', 'Awaited': '1', 'Complete': '0'}
    if all_ok == want_all:
        chk.ok('R7', 'all-awaited', 'remaining.all(Awaited | Skipped)')
    else:
        chk.fail('R7', 'all-awaited', fn_loc(fi), 'is_forward_loss: the "all later probes are awaited" test accepts %s; it must accept exactly Awaited and Skipped' % all_ok, key='R7|all-awaited')
    want_skip = lambda vn, v: (v == ['1']) if vn in ('NotSent', 'Skipped') else (len(v) == 1 and re.fullmatch(r'Le\(q\.ttl, awaited_ttl\)', v[0]))
    if skip_ok and all(want_skip(vn, v) for vn, v in skip_ok.items()):
        chk.ok('R7', 'skip-earlier', 'skip_while(ttl ≤ awaited_ttl | NotSent | Skipped)')
    else:
        chk.fail('R7', 'skip-earlier', fn_loc(fi), 'is_forward_loss: the skipped prefix is %s; it must be the probes with ttl ≤ awaited ttl plus unsent slots' % skip_ok, key='R7|skip-earlier')
    if any(re.fullmatch(r'BitAnd\(Not\(call:Option::is_none\(.*\)\), call:Iterator::all\(.*\)\)|0|call:Iterator::all\(.*\)', v) for v in ret):
        chk.ok('R7', 'combination', '!is_empty && all_awaited')
    else:
        chk.fail('R7', 'combination', fn_loc(fi), 'is_forward_loss returns %s' % sorted(ret)[:2], key='R7|combination')
