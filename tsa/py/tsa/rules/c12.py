"""C12 — packet field accessors are exact, independent and RFC-positioned (level: proof; all obligations or fail).

For the 19 view types, with the bit-provenance domain (tsa/bits.py) and the oracle tsa/spec/rfc_layout.json (written from the RFCs):
 O1 round trip   get_f(set_f(v)) == v truncated to the field width, for all pre-existing buffer contents;
 O2 frame        every buffer bit outside the field keeps its pre-state value after set_f;
 O3 position     the value's bits sit where the RFC puts them, most significant first (network order); getters read exactly those bits;
 O4 disjoint     the oracle's fields of one type do not overlap except declared composites (IPv4 tos = dscp‖ecn);
 O5 construction new / new_view succeed exactly on len ≥ MIN, MIN = the RFC minimum;
 O6 read-only    Buffer::Immutable holds &[u8]; both mutating primitives diverge on it; the crate forbids unsafe code;
 O7 numbers      enum ↔ number conversions are inverse on all 256 values and equal the IANA numbers;
 OB model        the axioms used for the six Buffer primitives hold of Buffer's own MIR.
Every get_*/set_* of a view type must be mapped by the oracle (or listed as unmapped/raw) — an unknown accessor fails the check.
"""
import json
import os
import re

from .common import *
from ..bits import BitEngine, val_bits, in_byte, is_bv, flatten_be, show_cells, T, bv_const
from ..report import VERIF
from ..tables import canon

LEVEL = 'proof'

RAW = {'get_options_raw', 'get_options_raw_mut', 'set_payload'}   # slice accessors: audited under C04, not bit fields
SPEC = os.path.join(VERIF, 'tsa', 'spec')


def abs_bit(b):
    """absolute network-order bit index -> (byte, bit-in-byte with LSB = 0)"""
    return b // 8, 7 - (b % 8)


def expected_post(start, width):
    """expected buffer cells per touched byte after set(value): dict byte -> 8 cells (LSB first)"""
    out = {}
    for b in range(start, start + width):
        k, j = abs_bit(b)
        out.setdefault(k, [('In', k, jj) for jj in range(8)])
        out[k][j] = ('Val', width - 1 - (b - start))
    return out


def expected_get(start, width, rw):
    cells = []
    for j in range(rw):
        if j < width:
            k, jj = abs_bit(start + width - 1 - j)
            cells.append(('In', k, jj))
        else:
            cells.append(0)
    return cells


def arg_value(eng, prog, ty):
    """abstract setter argument of the given type; returns (value, nbits)"""
    from ..sym import INT_W
    if ty in INT_W:
        return val_bits(INT_W[ty]), INT_W[ty]
    if ty.endswith('Ipv4Addr'):
        v = val_bits(32)[1]
        return ('arr', [('bv', v[8 * (3 - i):8 * (4 - i)]) for i in range(4)]), 32
    if ty.endswith('Ipv6Addr'):
        v = val_bits(128)[1]
        return ('arr', [('bv', v[8 * (15 - i):8 * (16 - i)]) for i in range(16)]), 128
    a = prog.adts.get(ty)
    if a and not a['enum'] and len(a['variants'][0]['fields']) == 1:
        inner, n = arg_value(eng, prog, a['variants'][0]['fields'][0]['ty'])
        return ('adt', ty, 0, a['variants'][0]['name'], [inner]), n
    if a and a['enum']:
        return val_bits(8), 8      # enum ↔ u8 conversions are whole-byte bijections (O7)
    return None, 0


def run(chk, tier):
    prog = program(crates=('packet',))
    chk.explanation = __doc__
    chk.trusted += ['RFC layouts in tsa/spec/rfc_layout.json and IANA numbers in tsa/spec/enum_numbers.json (written from the RFCs)']
    layout = json.load(open(os.path.join(SPEC, 'rfc_layout.json')))
    numbers = json.load(open(os.path.join(SPEC, 'enum_numbers.json')))
    eng = BitEngine(prog)

    chk.rule('O1', 'round trip get(set(v)) == v mod 2^width', floor=82)
    chk.rule('O2', 'frame: bits outside the field untouched by the setter', floor=82)
    chk.rule('O3', 'position / byte order as in the RFC (setter placement and getter read-out)', floor=82 + 91)
    chk.rule('O4', 'oracle fields disjoint (declared composites excepted); every accessor mapped', floor=19)
    chk.rule('O5', 'construction succeeds exactly on len >= RFC minimum', floor=19 * 3)
    chk.rule('O6', 'read-only views never modify; no unsafe code', floor=4)
    chk.rule('O7', 'enum <-> number tables inverse and equal to IANA numbers', floor=4 * 256)
    chk.rule('OB', 'Buffer primitive model holds of Buffer\'s MIR', floor=6)

    types = [k for k in layout if not k.startswith('_')]
    for ty in types:
        if ty not in prog.adts:
            chk.fail('O4', 'type:' + ty, '?', 'view type %s of the oracle is not in the crate (anchor lost)' % ty, key='O4|type|' + ty)
            continue
        spec = layout[ty]
        fields = dict(spec['fields'])
        fields.update(spec.get('unmapped', {}))
        meths = {f['name']: f for f in prog.fns.values() if f.get('impl_adt') == ty and not f.get('impl_trait') and f['kind'] == 'AssocFn'}
        acc = {n for n in meths if n.startswith(('get_', 'set_')) and meths[n].get('pubvis')}
        unknown = sorted(n for n in acc if n not in RAW and n[4:] not in fields)
        # O4: oracle sanity + every accessor mapped
        over = []
        names = sorted(fields)
        for i, a in enumerate(names):
            for b in names[i + 1:]:
                sa, wa = fields[a]
                sb, wb = fields[b]
                if sa < sb + wb and sb < sa + wa and not ({a, b} <= {'tos', 'dscp', 'ecn'}):
                    over.append((a, b))
        if unknown or over:
            chk.fail('O4', 'type:' + short(ty), fn_loc(meths[unknown[0]]) if unknown else '?',
                     '%s: accessors without an RFC mapping %s; overlapping oracle fields %s' % (short(ty), unknown, over), key='O4|%s|%s' % (short(ty), ','.join(unknown) or 'overlap'))
        else:
            chk.ok('O4', 'type:' + short(ty), '%d fields, %d accessors mapped' % (len(fields), len(acc)))
        # O5 construction
        _construction(chk, prog, ty, spec, meths)
        # per field
        for fname, (start, width) in sorted(fields.items()):
            g = meths.get('get_' + fname)
            s_ = meths.get('set_' + fname)
            tag = '%s.%s' % (short(ty).split('::')[-1] if '::' in short(ty) else short(ty), fname)
            tag = '%s.%s' % (ty.replace('trippy_packet::', ''), fname)
            post = None
            if s_ is not None:
                chk.fn_seen(s_['path'])
                aty = s_['locals'][2]['ty']
                av, nb = arg_value(eng, prog, aty)
                st = St()
                outs = eng.run(s_, [eng.sym_ref(st, 'self'), av], st) if av is not None else []
                rets = [o for o in outs if o.kind == 'return']
                if av is None or len(outs) != 1 or len(rets) != 1:
                    for rid in ('O2', 'O3'):
                        chk.fail(rid, tag + ':set', fn_loc(s_), 'set_%s could not be evaluated to a single straight-line effect (%s)' % (
                            fname, [o.kind for o in outs] or ('argument type ' + aty)), key='%s|%s|set-shape' % (rid, tag))
                else:
                    post = dict(BitEngine.buf(rets[0].st))
                    exp = expected_post(start, width)
                    # O2 frame: bytes written but outside the field, and untouched bits inside shared bytes
                    bad_frame = []
                    bad_pos = []
                    for k, cells in sorted(post.items()):
                        for j, c in enumerate(cells):
                            b = k * 8 + (7 - j)
                            infield = start <= b < start + width
                            want = exp.get(k, [('In', k, jj) for jj in range(8)])[j]
                            if not infield and c != ('In', k, j):
                                bad_frame.append('byte %d bit %d becomes %s' % (k, j, show_cells([c])))
                            if infield and c != want:
                                bad_pos.append('byte %d bit %d holds %s, RFC puts %s there' % (k, j, show_cells([c]), show_cells([want])))
                    for k in exp:
                        if k not in post:
                            bad_pos.append('byte %d is not written' % k)
                    where = fn_loc(s_)
                    if bad_frame:
                        chk.fail('O2', tag + ':frame', where, 'set_%s modifies bits outside the %d-bit field at bit %d: %s' % (
                            fname, width, start, '; '.join(bad_frame[:4])), detail={'post': {k: show_cells(v) for k, v in post.items()}}, key='O2|%s|frame' % tag)
                    else:
                        chk.ok('O2', tag + ':frame', {k: show_cells(v) for k, v in post.items()})
                    if bad_pos:
                        chk.fail('O3', tag + ':set-position', where, 'set_%s does not place the value at the RFC position (bits %d..%d, MSB first): %s' % (
                            fname, start, start + width - 1, '; '.join(bad_pos[:4])), key='O3|%s|set-position' % tag)
                    else:
                        chk.ok('O3', tag + ':set-position', 'bits %d..%d' % (start, start + width - 1))
            if g is not None:
                chk.fn_seen(g['path'])
                st = St()
                outs = eng.run(g, [eng.sym_ref(st, 'self')], st)
                rets = [o for o in outs if o.kind == 'return']
                cells = flatten_be(eng._deref_val(rets[0].value, rets[0].st), eng) if len(rets) == 1 and len(outs) == 1 else None
                if cells is None:
                    chk.fail('O3', tag + ':get', fn_loc(g), 'get_%s could not be evaluated to a bit vector (%s)' % (fname, [o.kind for o in outs]), key='O3|%s|get-shape' % tag)
                else:
                    want = expected_get(start, width, len(cells))
                    if cells == want:
                        chk.ok('O3', tag + ':get-position', show_cells(cells))
                    else:
                        chk.fail('O3', tag + ':get-position', fn_loc(g), 'get_%s reads %s; the RFC field (bits %d..%d) is %s' % (
                            fname, show_cells(cells), start, start + width - 1, show_cells(want)), key='O3|%s|get-position' % tag)
                # O1: getter on the setter's post-state
                if post is not None:
                    st = St()
                    st.heap['#buf'] = ('bufmap', dict(post))
                    outs = eng.run(g, [eng.sym_ref(st, 'self')], st)
                    rets = [o for o in outs if o.kind == 'return']
                    cells = flatten_be(eng._deref_val(rets[0].value, rets[0].st), eng) if len(rets) == 1 and len(outs) == 1 else None
                    want = [('Val', j) if j < width else 0 for j in range(len(cells or []))]
                    if cells is not None and cells == want:
                        chk.ok('O1', tag + ':roundtrip', 'get(set(v)) = v[%d..0]' % (width - 1))
                    else:
                        chk.fail('O1', tag + ':roundtrip', fn_loc(g), 'get_%s(set_%s(v)) = %s, expected v truncated to %d bits' % (
                            fname, fname, show_cells(cells) if cells else '?', width), key='O1|%s|roundtrip' % tag)
            if g is None and s_ is None:
                chk.fail('O4', tag + ':missing', '?', 'the oracle field %s has neither getter nor setter (anchor lost)' % tag, key='O4|%s|missing' % tag)

    _readonly(chk, prog)
    _numbers(chk, prog, numbers)
    _buffer_model(chk, prog)


def _construction(chk, prog, ty, spec, meths):
    eng = Engine(prog, inline_depth=1)
    mn = meths.get('minimum_packet_size')
    where = fn_loc(mn) if mn else '?'
    tag = ty.replace('trippy_packet::', '')
    if mn is None:
        chk.fail('O5', tag + ':min', '?', '%s has no minimum_packet_size()' % tag, key='O5|%s|min-missing' % tag)
        return
    st = St()
    outs = eng.run(mn, [], st)
    val = vshow(outs[0].value) if len(outs) == 1 else '?'
    if val == str(spec['min']):
        chk.ok('O5', tag + ':min', '%s (%s)' % (val, spec['rfc']))
    else:
        chk.fail('O5', tag + ':min', where, '%s::minimum_packet_size() = %s, the RFC minimum is %d (%s)' % (tag, val, spec['min'], spec['rfc']), key='O5|%s|min' % tag)
    for ctor in ('new', 'new_view'):
        f = meths.get(ctor)
        if f is None:
            chk.fail('O5', '%s:%s' % (tag, ctor), '?', '%s::%s missing' % (tag, ctor), key='O5|%s|%s-missing' % (tag, ctor))
            continue
        chk.fn_seen(f['path'])
        st = St()
        outs = eng.run(f, [('sym', 'packet')], st)
        good = len(outs) == 2
        detail = []
        for o in outs:
            d = [(vshow(a), v) for a, v, _ in o.st.decisions]
            val = vshow(o.value)
            detail.append((d, val[:60]))
            want_ = canon('Ge(len(packet), %d)' % spec['min'], 1)
            got_ = canon(d[0][0], d[0][1]) if len(d) == 1 and d[0][1] in (0, 1) else None
            if got_ is None or got_[0] != want_[0]:
                good = False
                continue
            okv = got_[1] == want_[1]
            if okv:
                bufv = 'Buffer::Mutable(packet)' if ctor == 'new' else 'Buffer::Immutable(packet)'
                if not re.fullmatch(r'Result::Ok\(\w+\(%s\)\)' % re.escape(bufv), val):
                    good = False
            elif not val.startswith('Result::Err('):
                good = False
        if good:
            chk.ok('O5', '%s:%s' % (tag, ctor), 'Ok(%s) iff len >= %d' % ('Mutable' if ctor == 'new' else 'Immutable', spec['min']))
        else:
            chk.fail('O5', '%s:%s' % (tag, ctor), fn_loc(f), '%s::%s must succeed exactly for len(packet) >= %d and wrap the %s slice; derived: %s' % (
                tag, ctor, spec['min'], 'mutable' if ctor == 'new' else 'immutable', detail), key='O5|%s|%s' % (tag, ctor))


def _readonly(chk, prog):
    eng = Engine(prog, inline_depth=1)
    B = 'trippy_packet::buffer::Buffer'
    adt = prog.adt(B)
    vt = {v['name']: v['fields'][0]['ty'] for v in adt['variants']}
    if vt.get('Immutable', '').replace("'a ", '').startswith('&[u8]') and 'mut' not in vt.get('Immutable', ''):
        chk.ok('O6', 'Buffer::Immutable:type', vt['Immutable'])
    else:
        chk.fail('O6', 'Buffer::Immutable:type', '?', 'Buffer::Immutable must hold a shared slice &[u8], found %s' % vt.get('Immutable'), key='O6|immutable-type')
    for m in ('write', 'as_slice_mut'):
        f = prog.find(r'buffer::Buffer::%s$' % m)
        chk.fn_seen(f['path'])
        st = St()
        selfv = ('adt', B, 0, 'Immutable', [('sym', 'ro')])
        outs = eng.run(f, [eng.obj_ref(st, selfv)] + ([('sym', 'offset')] if m == 'write' else []), st)
        if outs and all(o.kind == 'panic' for o in outs):
            chk.ok('O6', 'Buffer::%s:immutable-diverges' % m, 'panics')
        else:
            chk.fail('O6', 'Buffer::%s:immutable-diverges' % m, fn_loc(f), 'Buffer::%s on an Immutable buffer must diverge; outcomes %s' % (
                m, [(o.kind, vshow(o.value)[:40]) for o in outs]), key='O6|%s|immutable' % m)
    # set_bytes goes through as_slice_mut
    f = prog.find(r'buffer::Buffer::set_bytes$')
    names = [short(t['term'].get('resolved') or t['term'].get('callee', '')) for t in f['blocks'] if t['term']['k'] == 'call']
    if any(n.endswith('as_slice_mut') for n in names):
        chk.ok('O6', 'Buffer::set_bytes:via-as_slice_mut', names)
    else:
        chk.fail('O6', 'Buffer::set_bytes:via-as_slice_mut', fn_loc(f), 'set_bytes does not obtain the slice through as_slice_mut (calls %s)' % names, key='O6|set_bytes')
    meta = prog.crate_meta['packet']
    forbid = any('unsafe_code' in a and ('forbid' in a.lower()) for a in meta['crate_attrs']) or \
        any(a in ('--forbid=unsafe_code', '--deny=unsafe_code') for a in meta['cmdline'])
    allows = any('allow' in a.lower() and 'unsafe_code' in a for a in meta['crate_attrs'])
    if forbid and not allows:
        chk.ok('O6', 'no-unsafe', 'unsafe_code is denied/forbidden for trippy-packet and the crate type-checks')
    else:
        chk.fail('O6', 'no-unsafe', 'crates/trippy-packet/src/lib.rs', 'trippy-packet no longer forbids unsafe code: the read-only guarantee rests on safe Rust', key='O6|no-unsafe')


def _numbers(chk, prog, numbers):
    eng = Engine(prog, inline_depth=2)
    for ty, want in numbers.items():
        if ty.startswith('_'):
            continue
        adt = prog.adts.get(ty)
        if adt is None:
            chk.fail('O7', ty, '?', 'enum %s not found' % ty, key='O7|%s|missing' % ty)
            continue
        ffrom = [f for f in prog.fns.values() if f.get('impl_adt') == ty and f.get('trait_item') == 'core::convert::From::from' and f['locals'][1]['ty'] == 'u8']
        fid = [f for f in prog.fns.values() if f.get('impl_adt') == ty and f.get('name') == 'id' and not f.get('impl_trait')]
        if len(ffrom) != 1 or len(fid) != 1:
            chk.fail('O7', ty + ':fns', '?', '%s must have exactly one From<u8> and one id() (found %d / %d)' % (ty, len(ffrom), len(fid)), key='O7|%s|fns' % ty)
            continue
        chk.fn_seen(ffrom[0]['path'], fid[0]['path'])
        tag = ty.replace('trippy_packet::', '')
        for n in range(256):
            st = St()
            o = eng.run(ffrom[0], [C(n)], st)
            v = o[0].value if len(o) == 1 and o[0].kind == 'return' else None
            name = v[3] if isinstance(v, tuple) and v[0] == 'adt' else None
            st = St()
            o2 = eng.run(fid[0], [eng.obj_ref(st, v)], st) if v is not None else []
            back = o2[0].value if len(o2) == 1 and o2[0].kind == 'return' else None
            exp_name = next((k for k, x in want.items() if x == n), 'Other')
            if name == exp_name and back == C(n):
                chk.ok('O7', '%s:%d' % (tag, n), name, nontrivial=(name != 'Other'))
            else:
                chk.fail('O7', '%s:%d' % (tag, n), fn_loc(ffrom[0]), '%s::from(%d) = %s and id() gives back %s; IANA: %d is %s' % (
                    tag, n, name, vshow(back) if back else '?', n, exp_name), key='O7|%s|%d' % (tag, n))


def _buffer_model(chk, prog):
    """The axioms of tsa/bits.py: read(o)=byte o; write(o) -> &mut byte o; get_bytes::<N>(o)=bytes o..o+N; set_bytes::<N>(o,b) writes
    b to o..o+N; as_slice/as_slice_mut = the whole slice — checked against Buffer's MIR with the term engine."""
    eng = Engine(prog, inline_depth=2)
    B = 'trippy_packet::buffer::Buffer'
    for variant in ('Immutable', 'Mutable'):
        f = prog.find(r'buffer::Buffer::read$')
        st = St()
        outs = eng.run(f, [eng.obj_ref(st, ('adt', B, 0 if variant == 'Immutable' else 1, variant, [('sym', 'bytes')])), ('sym', 'offset')], st)
        idx = [vshow(e[2][1]) for o in outs for e in o.st.events if e[0] == 'assert' and e[1] == 'BoundsCheck']
        val = vshow(eng._deref_val(outs[0].value, outs[0].st)) if len(outs) == 1 else '?'
        if val == 'index(bytes, offset)' and idx == ['offset']:
            chk.ok('OB', 'read[%s]' % variant, val)
        else:
            chk.fail('OB', 'read[%s]' % variant, fn_loc(f), 'Buffer::read(%s, offset) = %s (bounds-checked index %s), the model assumes bytes[offset]' % (variant, val, idx), key='OB|read|' + variant)
    f = prog.find(r'buffer::Buffer::write$')
    st = St()
    outs = eng.run(f, [eng.obj_ref(st, ('adt', B, 1, 'Mutable', [('sym', 'bytes')])), ('sym', 'offset')], st)
    idx = [vshow(e[2][1]) for o in outs for e in o.st.events if e[0] == 'assert' and e[1] == 'BoundsCheck']
    val = vshow(eng._deref_val(outs[0].value, outs[0].st)) if len(outs) == 1 else '?'
    if val == 'index(bytes, offset)' and idx == ['offset']:
        chk.ok('OB', 'write[Mutable]', '&mut bytes[offset]')
    else:
        chk.fail('OB', 'write[Mutable]', fn_loc(f), 'Buffer::write(offset) yields %s / index %s, the model assumes &mut bytes[offset]' % (val, idx), key='OB|write')
    for m in ('as_slice', 'as_slice_mut'):
        f = prog.find(r'buffer::Buffer::%s$' % m)
        st = St()
        outs = eng.run(f, [eng.obj_ref(st, ('adt', B, 1, 'Mutable', [('sym', 'bytes')]))], st)
        val = vshow(eng._deref_val(outs[0].value, outs[0].st)) if len(outs) == 1 else '?'
        if val == 'bytes':
            chk.ok('OB', m, val)
        else:
            chk.fail('OB', m, fn_loc(f), 'Buffer::%s returns %s, the model assumes the whole slice' % (m, val), key='OB|' + m)
    # get_bytes: from_fn(|i| self.read(offset + i))
    f = prog.find(r'buffer::Buffer::get_bytes$')
    cl = [c for c in prog.fns.values() if c.get('parent') == f['path'] and c['kind'] == 'Closure']
    okc = False
    if len(cl) == 1:
        st = St()
        envv = ('closure', cl[0]['path'], [eng.sym_ref(st, 'self'), ('sym', 'offset')])
        # capture order is (self, offset) or (offset, self): try both
        for caps in ([eng.sym_ref(st, 'self'), eng.obj_ref(st, ('sym', 'offset'))], [eng.obj_ref(st, ('sym', 'offset')), eng.sym_ref(st, 'self')]):
            st2 = St()
            st2.heap = dict(st.heap)
            outs = Engine(prog, inline_depth=0).run(cl[0], [eng.obj_ref(st2, ('closure', cl[0]['path'], caps)), ('sym', 'i')], st2)
            for o in outs:
                reads = [c for c in o.st.events if c[0] == 'call' and c[1].endswith('::read')]
                if len(reads) == 1 and vshow(reads[0][7][1]) in ('Add(offset, i)', 'Add(i, offset)') and vshow(reads[0][7][0]) == 'self':
                    okc = True
    if not okc and not cl:
        okc = _get_bytes_loop_form(prog, f)
    if okc:
        chk.ok('OB', 'get_bytes', 'element i = self.read(offset + i)')
    else:
        chk.fail('OB', 'get_bytes', fn_loc(f), 'Buffer::get_bytes is neither from_fn(|i| self.read(offset + i)) nor a loop storing self.read(offset + i) into element i of the result', key='OB|get_bytes')
    f = prog.find(r'buffer::Buffer::set_bytes$')
    st = St()
    e0 = Engine(prog, inline_depth=0)
    outs = e0.run(f, [e0.sym_ref(st, 'self'), ('sym', 'offset'), ('sym', 'bytes')], st)
    good = False
    for o in outs:
        calls = [(short(c[1]), [vshow(x) for x in c[7]]) for c in o.st.events if c[0] == 'call']
        rng = [c for c in calls if c[0].endswith('index_mut')]
        cp = [c for c in calls if c[0].endswith('copy_from_slice')]
        if len(rng) == 1 and len(cp) == 1 and re.fullmatch(r'Range\(offset, Add\(offset, const\(Ty\(usize, N[^)]*\)\)\)\)', rng[0][1][1]) and \
                rng[0][1][0] == 'call:Buffer::as_slice_mut(self)' and cp[0][1][1] == 'bytes':
            good = True
        detail = calls
    if good:
        chk.ok('OB', 'set_bytes', 'as_slice_mut()[offset..offset+N].copy_from_slice(&bytes)')
    else:
        chk.fail('OB', 'set_bytes', fn_loc(f), 'Buffer::set_bytes is not as_slice_mut()[offset..offset+N].copy_from_slice(&bytes): %s' % (detail if outs else '?'), key='OB|set_bytes')


def _get_bytes_loop_form(prog, f):
    """get_bytes written as `let mut b = [0; N]; for (i, x) in b.iter_mut().enumerate() { *x = self.read(offset + i) } b`: one loop over
    enumerate(iter_mut(the result array)) (std contract: item k is (k, &mut b[k]), every k < N once); the body stores self.read(offset + k)
    through the item reference and does nothing else; the array is returned."""
    from ..cfg import CFG
    from ..vra import RangeEngine
    g = CFG(f)
    heads = sorted({h for (_, h) in g.back_edges()})
    if len(heads) != 1 or f['argc'] != 2:
        return False
    # the returned local is the array the iterator borrows
    arrs = [i for i, l in enumerate(f['locals']) if i > f['argc'] and re.fullmatch(r'\[u8; \w+\]', l['ty'])]
    ret_from = None
    for b in f['blocks']:
        for st_ in b['stmts']:
            if 'lhs' in st_ and st_['lhs']['l'] == 0 and not st_['lhs']['p'] and st_['rv']['k'] == 'use':
                pl = st_['rv']['a'].get('move') or st_['rv']['a'].get('copy')
                ret_from = pl['l'] if pl and not pl['p'] else None
    if len(arrs) != 1 or ret_from != arrs[0]:
        return False
    e = RangeEngine(prog, inline_depth=0)
    st = St()
    st.mem[(1, '#cgen')] = 3
    outs = e.run(f, [e.sym_ref(st, 'self'), ('sym', 'offset')], st)
    body = [o for o in outs if o.kind == 'loop-closed']
    done = [o for o in outs if o.kind == 'return']
    if not body or not done or len(body) + len(done) != len(outs):
        return False
    ITER = r'call:Enumerate::next\((?:loopiter\()?call:IntoIterator::into_iter\(call:Iterator::enumerate\(call:slice::iter_mut\(repeat\(0, 3\)\)\)\)(?:, \d+\))?\)'
    for o in body:
        d = [(vshow(a), v) for a, v, _ in o.st.decisions]
        reads = [c for c in o.st.events if c[0] == 'call' and c[1].endswith('Buffer::<\'_>::read') or (c[0] == 'call' and re.search(r'buffer::Buffer(::<.*>)?::read$', c[1]))]
        others = [c for c in o.st.events if c[0] == 'call' and c not in reads and not re.search(r'::(next|into_iter|enumerate|iter_mut)$', c[1])]
        if len(d) != 1 or not re.fullmatch(r'discr\(%s\)' % ITER, d[0][0]) or d[0][1] != 1 or len(reads) != 1 or others:
            return False
        a0, a1 = vshow(reads[0][7][0]), vshow(reads[0][7][1])
        if a0 != 'self' or not re.fullmatch(r'Add\(offset, index#\d+\)|Add\(index#\d+, offset\)', a1):
            return False
    for o in done:
        d = [(vshow(a), v) for a, v, _ in o.st.decisions]
        if len(d) != 1 or not re.fullmatch(r'discr\(%s\)' % ITER, d[0][0]) or d[0][1] != 0:
            return False
    # the value read is stored through the item reference: `(*byte) = move <dest of read>`
    rd = [b['term'] for b in f['blocks'] if b['term']['k'] == 'call' and re.search(r'buffer::Buffer(::<.*>)?::read$', b['term'].get('resolved') or b['term']['callee'])]
    if len(rd) != 1:
        return False
    dest = rd[0]['dest']
    stores = []
    for b in f['blocks']:
        for st_ in b['stmts']:
            if 'lhs' in st_ and [e_['k'] for e_ in st_['lhs']['p']] == ['deref'] and f['locals'][st_['lhs']['l']]['ty'] == '&mut u8':
                pl = (st_['rv'].get('a') or {}).get('move') or (st_['rv'].get('a') or {}).get('copy')
                stores.append(pl['l'] if pl else None)
    if dest['p'] and [e_['k'] for e_ in dest['p']] == ['deref'] and f['locals'][dest['l']]['ty'] == '&mut u8':
        return not stores              # read's result written straight through the reference
    return stores == [dest['l']]
