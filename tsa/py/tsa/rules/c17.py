"""C17 — the TUI never crashes; selections always refer to existing entries (site audit + selection discipline).

The front end keeps indices (selected hop, hop address, flow, trace, settings tab, settings item, zoom) into data that is replaced asynchronously by
snapshot_trace_data. The argument is inductive:
 R2 invariants of TuiApp established by all writers (who-may-write + value-range proof per write, from the abstract traces of every writer):
    zoom_factor ∈ 1..=MAX_ZOOM_FACTOR, settings_tab_selected < number of settings tabs, trace_selected < trace_info.len() (trace_info is never
    resized after construction), and every `table_state.select(Some(i))` stores an index below the hop count of the currently selected flow.
 R3 freshness: in the run_app loop every path to `terminal.draw` passes clamp_selected_flow and clamp_selected_hop after the snapshot (dominator
    rule) — also while the display is frozen, because commands may switch the flow; clamp_selected_flow leaves a flow that exists in the
    snapshot (else the default flow, and leaves flow mode); clamp_selected_hop leaves no selection or an index below the hop count (also for an
    empty hop list).
 R1 panic audit (A5) of every function of trippy_tui::frontend (ratatui / crossterm internals are the boundary) under R2 / R3 and the stated
    contracts: Layout::split yields as many areas as constraints; State readers succeed for the default flow and registered flows (C10.R1);
    Hop counters satisfy received ≤ sent (C05.R1); hop lists have at most MAX_TTL entries.
    Every panic-capable MIR construct is discharged by the range prover, by a reviewed allow entry (function + kind + reason), or reported.
 R3h the selected hop *address* is re-validated with the hop: a clamp that runs before every frame bounds selected_hop_address by the address count of
    the hop selected when it returns (0 without a selection). C15.R4 (imported): the registry never holds more than max_flows flows — the fact the
    reviewed reason of the flow-position lookup cites.
 R2t every command that changes the selected settings tab selects item 0 of the new tab afterwards (the item index of the old tab may name no item of the new one).
Not decided: panics inside ratatui / crossterm for degenerate terminal sizes; that layout arithmetic renders *correctly*; the report modes.
"""
import re

from .common import *
from ..tables import cdec, cwant, canon
from ..callgraph import CallGraph
from ..cfg import CFG
from ..vra import RangeEngine, Lin
from ..writers import field_writers
from .c04 import audit_scope

LEVEL = 'other'
APP = 'trippy_tui::frontend::tui_app::TuiApp'


def split_len(name):
    ns = set(re.findall(r'#len=(\d+)', name))
    if len(ns) == 1:
        n = int(ns.pop())
        return (n, n)
    m = re.search(r'Layout::constraints\([^\[]*\[(.*)\]\)', name)
    if m:
        depth = 0
        k = 1
        for ch in m.group(1):
            if ch in '([':
                depth += 1
            elif ch in ')]':
                depth -= 1
            elif ch == ',' and depth == 0:
                k += 1
        return (k, k)
    return (None, None)


def in_scope(prog, p):
    f = prog.fns[p]
    if '::tests' in p or f.get('derived'):
        return False
    return p.startswith('trippy_tui::frontend') or bool(re.match(r'<trippy_tui::frontend::.* as ', p))


def run(chk, tier):
    prog = program(crates=('tui', 'core'))
    chk.explanation = __doc__
    cg = CallGraph(prog)
    for r, d, fl in (('R1', 'panic-site audit of the front end', 80), ('R1t', 'loops terminate', 0), ('R2', 'TuiApp index invariants hold after every writer', 25),
                     ('R3', 'selection is re-validated between every snapshot / command and the next frame', 4)):
        chk.rule(r, d, floor=fl)
    # the flow selection is looked up in flow_counts, which keeps the max_flows() most frequent flows: that it lists *every* registered flow (the reviewed
    # reason of the unwrap in next_flow / previous_flow) needs the registry never to hold more than max_flows (C15.R4, imported)
    from ..report import run_sub
    run_sub(chk, 'c15', 'C15.', {'R4'})
    MAXZ = prog.const_val('trippy_tui::frontend::tui_app::MAX_ZOOM_FACTOR')
    MAXTTL = prog.const_val('trippy_core::constants::MAX_TTL')
    ftabs = prog.find(r'render::settings::settings_tabs$')
    eng0 = Engine(prog, inline_depth=0)
    st = St()
    o = [x for x in eng0.run(ftabs, [], st) if x.kind == 'return']
    NT = None
    if o:
        m = re.search(r'#len=(\d+)', vshow(o[0].value))
        if m:
            NT = int(m.group(1))
        elif isinstance(o[0].value, tuple) and o[0].value[0] == 'arr':
            NT = len(o[0].value[1])
    if NT is None:
        # count the elements of the array literal that settings_tabs() boxes into a Vec
        for b in ftabs['blocks']:
            for s_ in b['stmts']:
                rv = s_.get('rv')
                if rv and rv['k'] == 'agg' and rv['kind'].get('a') == 'array':
                    NT = max(NT or 0, len(rv['ops']))
    if not NT:
        raise AnchorLost('cannot determine the number of settings tabs')
    chk.extra['settings_tabs'] = NT

    # ---- R2: writers preserve the invariants -----------------------------------------------------------------
    hints = [(r'(^|\.)zoom_factor$', 1, MAXZ), (r'(^|\.)settings_tab_selected$', 0, NT - 1),
             (r'^len\(call:Layout::split\(', split_len, None),
             (r'^len\(call:State::hops_for_flow\(|^len\(call:State::hops\(|^len\(call:FlowState::hops\(', 0, MAXTTL),
             (r'^len\(call:settings::settings_tabs\(\)\)$|^len\(call:Vec::deref\(call:settings::settings_tabs\(\)\)\)$', NT, NT),
             (r'^call:TuiApp::get_settings_items_count\(', 1, None), (r'^len\(\w+(\.\d+)?\.tui_config\.tui_columns\.0\)$|^call:Columns::all_columns_count\(', 1, None)]

    def inv(P):
        out = []
        for n in list(P.atoms):
            m = re.fullmatch(r'(.*)\.trace_selected', n)
            if m:
                ln = 'len(%s.trace_info)' % m.group(1)
                if ln in P.atoms:
                    out.append(Lin(-1, {ln: 1, n: -1}))        # trace_selected ≤ len − 1
        return out

    def fresh(P):
        out = []
        sel = [n for n in P.atoms if re.search(r'TableState::selected\((\w+(\.\d+)?)\.table_state\)', n) and (n.startswith('unwrap(') or n.startswith('field:0(') or '#Some.0' in n)]
        for n in sel:
            m = re.search(r'TableState::selected\(((?:\w|\.)+)\.table_state\)', n)
            pre = m.group(1)
            for ln in P.atoms:
                if ln.startswith('len(call:State::hops_for_flow(') and (pre + '.selected_flow') in ln:
                    out.append(Lin(-1, {ln: 1, n: -1}))
        return out

    def fresh_settings(P, s_):
        # I6: the selected settings item is below the item count of the selected tab (R2 select rule); on the columns tab that is the column list
        out = []
        d = [(vshow(a_), v_) for a_, v_, _ in s_.decisions]
        for n in list(P.atoms):
            m = re.search(r'TableState::selected\(((?:\w|\.)+)\.setting_table_state\)', n)
            if not m or not (n.startswith('unwrap(') or n.startswith('field:0(') or '#Some.0' in n):
                continue
            pre = m.group(1)
            cnt = 'call:TuiApp::get_settings_items_count(%s)' % pre
            if cnt in P.atoms:
                out.append(Lin(-1, {cnt: 1, n: -1}))
            if ('Eq(%s.settings_tab_selected, %d)' % (pre, NT - 1), 1) in d:
                for ln in ('len(%s.tui_config.tui_columns.0)' % pre, 'call:Columns::all_columns_count(%s.tui_config.tui_columns)' % pre):
                    if ln in P.atoms:
                        out.append(Lin(-1, {ln: 1, n: -1}))
        return out

    def writer_check(field, lo, hi, rel=None, allowed=None):
        w = field_writers(prog, APP).get(field, [])
        fns = sorted({p for p, _, k in w})
        if not fns:
            chk.fail('R2', field + ':writers', '-', 'no writer of TuiApp.%s found (anchor lost)' % field, key='R2|%s|writers' % field)
            return
        for p in fns:
            fn = prog.fns[p]
            inst = '%s@%s' % (field, short(p))
            e = RangeEngine(prog, inline_depth=0)
            e.range_hints = [(re.compile(rx), a, b) for rx, a, b in hints]
            e.invariants = [inv]
            st = St()
            args = []
            for i in range(1, fn['argc'] + 1):
                ty = fn['locals'][i]['ty']
                nm = fn['locals'][i]['name'] or 'a%d' % i
                args.append(e.sym_ref(st, nm) if ty.startswith('&') else ('sym', nm))
            outs = e.run(fn, args, st)
            bad = None
            n = 0
            for o_ in outs:
                for ev in o_.st.events:
                    if ev[0] != 'write' or ev[1] != APP or ev[2] != field:
                        continue
                    n += 1
                    v = ev[3]
                    facts = e.trace_facts(o_.st)
                    pidx = [i for i in range(1, fn['argc'] + 1) if (fn['locals'][i]['name'] or 'a%d' % i) == vshow(v)]
                    if pidx and lo is not None and hi is not None:
                        # the stored value is a parameter: every caller must pass a constant within the bounds
                        vals = set()
                        for c_ in cg.callers(p):
                            for bb_ in prog.fns[c_]['blocks']:
                                t_ = bb_['term']
                                if t_['k'] == 'call' and (t_.get('resolved') or t_['callee']) == p:
                                    a_ = t_['args'][pidx[0] - 1]
                                    vals.add(int(a_['bits']) if a_.get('const') and 'bits' in a_ else None)
                        if vals and all(x is not None and lo <= x <= hi for x in vals):
                            continue
                        bad = 'stores its argument, and callers pass %s (allowed %d..=%d)' % (sorted(vals, key=str), lo, hi)
                        continue
                    lv = e.P.lin(v, o_.st)
                    if lv is None:
                        bad = 'writes the unmodelled value %s' % vshow(v)[:80]
                        continue
                    if lo is not None:
                        g = Lin(-lo).add(lv) if hasattr(Lin(0), 'add') else None
                        g = lv_plus(lv, -lo)
                        if not e.P.prove(g, facts):
                            bad = 'may store %s below %d' % (vshow(v)[:80], lo)
                    if hi is not None:
                        g = lv_neg_plus(lv, hi)
                        if not e.P.prove(g, facts):
                            bad = 'may store %s above %d' % (vshow(v)[:80], hi)
                    if rel is not None:
                        g = rel(e.P, lv, o_.st)
                        if g is None or not e.P.prove(g, facts):
                            bad = 'may store %s, not shown below the length it indexes' % vshow(v)[:80]
            if fn.get('name') == 'new' and not n:
                # the constructor initialises through the struct literal
                chk.ok('R2', inst, 'constructor (initial value checked by the struct literal rule)', nontrivial=False)
                continue
            if bad:
                chk.fail('R2', inst, fn_loc(fn), 'TuiApp.%s: %s %s' % (field, short(p), bad), key='R2|%s|%s' % (field, short(p)))
            else:
                chk.ok('R2', inst, '%d writes within bounds' % n)

    def lv_plus(lv, c):
        r = Lin(lv.c + c, dict(lv.t))
        return r

    def lv_neg_plus(lv, c):
        return Lin(c - lv.c, {k: -v for k, v in lv.t.items()})

    writer_check('zoom_factor', 1, MAXZ)
    writer_check('settings_tab_selected', 0, NT - 1)

    def rel_trace(P, lv, s):
        # value ≤ len(self.trace_info) − 1
        name = 'len(self.trace_info)'
        P.lin(('term', 'len', [('sym', 'self.trace_info')]), s)
        g = Lin(-1 - lv.c, {k: -v for k, v in lv.t.items()})
        g.t[name] = g.t.get(name, 0) + 1
        return g
    writer_check('trace_selected', 0, None, rel=rel_trace)
    # initial values from the struct literal in TuiApp::new
    fnew = prog.find(r'tui_app::TuiApp::new$')
    st = St()
    on = [x for x in Engine(prog, inline_depth=0).run(fnew, [('sym', 'cfg'), ('sym', 'resolver'), ('sym', 'geo'), ('sym', 'trace_info')], st) if x.kind == 'return']
    names = [x['name'] for x in prog.adt(APP)['variants'][0]['fields']]
    init = dict(zip(names, [vshow(x) for x in on[0].value[4]])) if on else {}
    want = {'zoom_factor': '1', 'settings_tab_selected': '0', 'trace_selected': '0', 'selected_hop_address': '0', 'selected_flow': 'call:State::default_flow_id()', 'show_flows': '0'}
    for k, v in want.items():
        if init.get(k) == v:
            chk.ok('R2', 'init:' + k, v)
        else:
            chk.fail('R2', 'init:' + k, fn_loc(fnew), 'TuiApp::new initialises %s to %s (expected %s)' % (k, init.get(k), v), key='R2|init|%s' % k)
    # trace_info is never resized
    tw = sorted({short(p) for p, _, k in field_writers(prog, APP).get('trace_info', [])})
    if set(tw) <= {'TuiApp::new'}:
        chk.ok('R2', 'trace_info:writers', 'set by the constructor only')
    else:
        chk.fail('R2', 'trace_info:writers', '-', 'TuiApp.trace_info is modified by %s: trace_selected may dangle' % tw, key='R2|trace_info|writers')
    # every table_state.select(Some(i)) stores an index below the hop count of the selected flow; every setting_table_state.select(Some(i))
    # an index below the item count of the selected settings tab (Some(0) after a tab change: every tab has at least one item)
    sel_sites = 0
    HC = ('term', 'len', [('term', 'call:State::hops_for_flow', [('term', 'call:TuiApp::tracer_data', [('sym', 'self')]), ('sym', 'self.selected_flow')])])
    IC = ('term', 'call:TuiApp::get_settings_items_count', [('sym', 'self')])
    for p, fn in prog.fns.items():
        if not in_scope(prog, p) or fn.get('impl_adt') != APP:
            continue
        if not any(b['term']['k'] == 'call' and (b['term'].get('resolved') or b['term']['callee']).endswith('TableState::select') for b in fn['blocks']):
            continue
        e = RangeEngine(prog, inline_depth=0)
        e.range_hints = [(re.compile(rx), a, b) for rx, a, b in hints]
        e.invariants = [fresh, fresh_settings] if fn['name'] not in ('clamp_selected_hop',) else []
        st = St()
        outs = e.run(fn, [e.sym_ref(st, 'self')] + [('sym', 'a%d' % i) for i in range(2, fn['argc'] + 1)], st)
        bad = None
        n = 0
        for o_ in outs:
            tab_changed = any(ev[0] == 'write' and ev[1] == APP and ev[2] == 'settings_tab_selected' for ev in o_.st.events)
            for c in user_calls(o_, r'TableState::select$'):
                recv = vshow(c[7][0])
                if 'table_state' not in recv:
                    continue
                settings = 'setting_table_state' in recv
                n += 1
                v = c[7][1]
                sv = vshow(v)
                if sv == 'Option::None':
                    continue
                if not (isinstance(v, tuple) and v[0] == 'adt' and v[3] == 'Some'):
                    bad = 'selects the unmodelled value %s' % sv[:80]
                    continue
                if settings and sv == 'Option::Some(0)':
                    continue          # first item: every tab has at least one (checked below)
                if settings and tab_changed:
                    bad = 'selects %s after changing the settings tab' % sv[:60]
                    continue
                lv = e.P.lin(v[4][0], o_.st)
                bounds_ = [IC if settings else HC]
                if settings and ('Eq(self.settings_tab_selected, %d)' % (NT - 1), 1) in [(vshow(a_), v_) for a_, v_, _ in o_.st.decisions]:
                    bounds_.append(('term', 'call:Columns::all_columns_count', [('sym', 'self.tui_config.tui_columns')]))
                proved = False
                for bt in bounds_:
                    hl = e.P.lin(bt, o_.st)
                    if lv is None or hl is None:
                        continue
                    g = Lin(hl.c - lv.c - 1, dict(hl.t))
                    for k_, c_ in lv.t.items():
                        g.t[k_] = g.t.get(k_, 0) - c_
                    if e.P.prove(g, e.trace_facts(o_.st)):
                        proved = True
                        break
                if not proved:
                    bad = 'may select index %s, which is not shown to be below %s' % (sv[:100], 'the item count of the settings tab' if settings else 'hops_for_flow(selected_flow).len()')
        if n:
            sel_sites += 1
            inst = 'select@%s' % short(p)
            if bad:
                chk.fail('R2', inst, fn_loc(fn), '%s %s' % (short(p), bad), key='R2|select|%s' % short(p))
            else:
                chk.ok('R2', inst, '%d select calls: None or an index below the count' % n)
    if sel_sites < 8:
        chk.fail('R2', 'select:count', '-', 'only %d functions selecting a row found (anchor lost)' % sel_sites, key='R2|select|count')
    # every settings tab has at least one item: the declared counts of tabs 0..NT-2 are ≥ 1 and do not exceed the items rendered; the columns list is never resized
    decl = []
    for b in ftabs['blocks']:
        for s_ in b['stmts']:
            rv = s_.get('rv')
            if rv and rv['k'] == 'agg' and rv['kind'].get('a') == 'tuple' and len(rv['ops']) == 2 and rv['ops'][1].get('const') and 'bits' in rv['ops'][1]:
                decl.append(int(rv['ops'][1]['bits']))
    fmt = ['format_tui_settings', 'format_trace_settings', 'format_dns_settings', 'format_geoip_settings', 'format_binding_settings', 'format_theme_settings']
    if len(decl) != NT:
        chk.fail('R2', 'settings:counts', fn_loc(ftabs), 'cannot read the declared item counts of the %d settings tabs (found %s)' % (NT, decl), key='R2|settings|counts')
    else:
        for k, fname in enumerate(fmt):
            ff = prog.find(r'render::settings::%s$' % fname)
            e0 = Engine(prog, inline_depth=0)
            st = St()
            cnt = {len(user_calls(o_, r'SettingsItem::new$')) for o_ in e0.run(ff, [e0.sym_ref(st, 'app')], st) if o_.kind == 'return'}
            inst = 'settings:tab%d' % k
            if len(cnt) == 1 and 1 <= decl[k] <= min(cnt):
                chk.ok('R2', inst, 'declares %d selectable items, %s renders %d' % (decl[k], fname, min(cnt)) + ('' if decl[k] == min(cnt) else ' (the last %d cannot be reached)' % (min(cnt) - decl[k])))
            else:
                chk.fail('R2', inst, fn_loc(ftabs), 'settings tab %d declares %d selectable items but %s renders %s: the selection can point past the table' % (k, decl[k], fname, sorted(cnt)), key='R2|settings|tab%d' % k)
    COLS = 'trippy_tui::frontend::columns::Columns'
    resize = {}
    for p, fn in prog.fns.items():
        if not in_scope(prog, p):
            continue
        for b in fn['blocks']:
            t = b['term']
            if t['k'] == 'call' and not b['cleanup'] and t.get('atys') and re.search(r'alloc::vec::Vec::<T, A>::(remove|insert|push|pop|clear|truncate|drain|retain|swap_remove|append|extend\w*)$', t.get('resolved') or t['callee']) and \
                    'columns::Column>' in t['atys'][0] and t['atys'][0].startswith('&mut'):
                resize.setdefault(short(p), []).append((t.get('resolved') or t['callee']).split('::')[-1])
    okc = set(resize) <= {'Columns::move_down', 'Columns::move_up'} and all(sorted(v) == ['insert', 'remove'] for v in resize.values())
    if okc:
        chk.ok('R2', 'columns:length', 'the column list is only permuted (remove + insert in move_up / move_down): its length is that of Columns::from')
    else:
        chk.fail('R2', 'columns:length', '-', 'the column list is resized by %s' % resize, key='R2|columns|length')
    # flow selection: show_flows becomes true only together with selected_flow := FlowId(1) under flow_count() > 0; other writes take ids from flow_counts or the default flow
    for fld, allowed in (('show_flows', {'TuiApp::toggle_flows', 'TuiApp::clamp_selected_flow', 'TuiApp::new'}), ('selected_flow', {'TuiApp::toggle_flows', 'TuiApp::clamp_selected_flow', 'TuiApp::new', 'TuiApp::next_flow', 'TuiApp::previous_flow'}),
                         ('flow_counts', {'TuiApp::update_order_flow_counts', 'TuiApp::new'})):
        ws = {short(p) for p, _, k in field_writers(prog, APP).get(fld, [])}
        if ws <= allowed:
            chk.ok('R2', 'writers:' + fld, sorted(ws))
        else:
            chk.fail('R2', 'writers:' + fld, '-', 'TuiApp.%s is written by %s' % (fld, sorted(ws - allowed)), key='R2|writers|%s' % fld)
    ftg = prog.find(r'tui_app::TuiApp::toggle_flows$')
    e0 = Engine(prog, inline_depth=0)
    st = St()
    okt = True
    for o_ in e0.run(ftg, [e0.sym_ref(st, 'self')], st):
        ws = {ev[2]: vshow(ev[3]) for ev in o_.st.events if ev[0] == 'write' and ev[1] == APP}
        d = dict((vshow(a), v) for a, v, _ in o_.st.decisions)
        if ws.get('show_flows') == '1':
            if not (ws.get('selected_flow') == 'FlowId(1)' and cdec(o_).get(canon('Gt(call:TuiApp::flow_count(self), 0)', 1)[0]) == canon('Gt(call:TuiApp::flow_count(self), 0)', 1)[1]):
                okt = False
        elif 'selected_flow' in ws and ws.get('selected_flow') != 'FlowId(0)':
            okt = False
    if okt:
        chk.ok('R2', 'toggle_flows', 'flow mode is entered only with FlowId(1) selected and at least one flow registered (ids are dense from 1: C15.R2)')
    else:
        chk.fail('R2', 'toggle_flows', fn_loc(ftg), 'toggle_flows enters flow mode without selecting the first registered flow under flow_count() > 0', key='R2|toggle_flows')

    # ---- R3: freshness ----------------------------------------------------------------------------------------------
    frun = prog.find(r'frontend::run_app$')
    chk.fn_seen(frun['path'])
    g = CFG(frun)
    dom = g.dom()

    def calls_to(rx):
        return [bi for bi, b in enumerate(frun['blocks']) if bi in g.reach and b['term']['k'] == 'call' and re.search(rx, b['term'].get('resolved') or b['term']['callee'])]
    draw = calls_to(r'Terminal::<B>::draw$|Terminal.*::draw$')
    snap = calls_to(r'TuiApp::snapshot_trace_data$')
    if len(draw) != 1 or len(snap) != 1:
        chk.fail('R3', 'run_app:anchors', fn_loc(frun), 'run_app: %d draw calls, %d snapshot calls (expected one each)' % (len(draw), len(snap)), key='R3|anchors')
    else:
        for nm in ('clamp_selected_flow', 'clamp_selected_hop'):
            cs = calls_to(r'TuiApp::%s$' % nm)
            inst = 'run_app:' + nm
            good = [c for c in cs if c in dom[draw[0]]]
            after_snap = [c for c in good if snap[0] not in g.reach_from(c, avoid={draw[0]}) or True]
            # the clamp must come after the snapshot on paths that take one: the snapshot block must not be reachable from the clamp without passing draw
            ordered = [c for c in good if snap[0] not in g.reach_from(frun['blocks'][c]['term']['t'], avoid={draw[0]})]
            if good and ordered:
                chk.ok('R3', inst, 'dominates the draw call on every path (also when frozen) and follows the snapshot')
            elif good:
                chk.fail('R3', inst, fn_loc(frun), 'run_app calls %s before snapshot_trace_data: the new data is drawn without re-validation' % nm, key='R3|order|%s' % nm)
            else:
                chk.fail('R3', inst, fn_loc(frun), 'run_app can reach terminal.draw without %s (%s): a selection made against older data, or a flow switched while frozen, is used to index the data being drawn' % (
                    nm, 'it is never called' if not cs else 'it is skipped on some path, e.g. while the display is frozen'), key='R3|dominates|%s' % nm)
    # clamp post-conditions
    fch = prog.find(r'tui_app::TuiApp::clamp_selected_hop$', unique=False)
    if fch:
        fn = fch[0]
        e = RangeEngine(prog, inline_depth=0)
        e.range_hints = [(re.compile(rx), a, b) for rx, a, b in hints]
        st = St()
        outs = e.run(fn, [e.sym_ref(st, 'self')], st)
        bad = None
        for o_ in outs:
            if o_.kind != 'return':
                bad = 'has a %s trace' % o_.kind
                continue
            sels = user_calls(o_, r'TableState::select$')
            d = [(vshow(a), v) for a, v, _ in o_.st.decisions]
            hc = ('term', 'len', [('term', 'call:State::hops_for_flow', [('term', 'call:TuiApp::tracer_data', [('sym', 'self')]), ('sym', 'self.selected_flow')])])
            hl = e.P.lin(hc, o_.st)
            cur = None
            some = [v for a, v in d if re.fullmatch(r'discr\(call:TableState::selected\(self\.table_state\)\)|is_some\(call:TableState::selected\(self\.table_state\)\)', a)]
            if sels:
                v = sels[-1][7][1]
                if vshow(v) == 'Option::None':
                    continue
                cur = v[4][0] if isinstance(v, tuple) and v[0] == 'adt' and v[3] == 'Some' else None
            elif some and some[-1] == 1:
                cur = ('term', 'field:0', [('term', 'call:TableState::selected', [('sym', 'self.table_state')])])
                # the engine names the payload of the matched Option
                names_ = [n_ for n_ in e.P.atoms if re.search(r'TableState::selected\(self\.table_state\)', n_) and ('#Some.0' in n_ or n_.startswith('field:0(') or n_.startswith('unwrap('))]
                cur = e.P.atoms[names_[0]] if names_ else None
            else:
                continue          # no selection
            lv = e.P.lin(cur, o_.st) if cur is not None else None
            if lv is None or hl is None:
                bad = 'leaves an unmodelled selection'
                continue
            gl = Lin(hl.c - lv.c - 1, dict(hl.t))
            for k_, c_ in lv.t.items():
                gl.t[k_] = gl.t.get(k_, 0) - c_
            if not e.P.prove(gl, e.trace_facts(o_.st)):
                bad = 'can return with a selected hop index that is not below the hop count (decisions %s)' % d[-3:]
        if bad:
            chk.fail('R3', 'clamp_selected_hop:post', fn_loc(fn), 'clamp_selected_hop %s' % bad, key='R3|clamp_selected_hop|post')
        else:
            chk.ok('R3', 'clamp_selected_hop:post', 'returns with no selection or an index below hops_for_flow(selected_flow).len() on all %d traces' % len(outs))
    else:
        chk.fail('R3', 'clamp_selected_hop:post', '-', 'TuiApp::clamp_selected_hop not found', key='R3|clamp_selected_hop|missing')
    # the selected settings *item* belongs to the selected settings *tab*: every command that changes the tab selects item 0 of the new tab afterwards
    # (tabs have different item counts; an index kept from the old tab may name no item of the new one)
    TA2 = 'trippy_tui::frontend::tui_app::TuiApp'
    et = Engine(prog, inline_depth=1, inline_filter=lambda c: prog.fns.get(c, {}).get('impl_adt') == TA2)
    bad_tab, n_tab = None, 0
    for p_, f_ in sorted(prog.fns.items()):
        if f_.get('impl_adt') != TA2 or f_['kind'] != 'AssocFn' or f_.get('argc', 0) < 1 or not f_['locals'][1]['ty'].startswith('&mut') or f_.get('name') == 'new':
            continue
        stt = St()
        try:
            ot = et.run(f_, [et.sym_ref(stt, 'self')] + [('sym', 'a%d' % i) for i in range(2, f_['argc'] + 1)], stt)
        except Exception:
            continue
        for o in ot:
            if o.kind != 'return':
                continue
            evs = o.st.events
            wi = [i for i, e_ in enumerate(evs) if e_[0] == 'write' and e_[1] == TA2 and e_[2] == 'settings_tab_selected' and vshow(e_[3]) != 'self.settings_tab_selected']
            if not wi:
                continue
            n_tab += 1
            sel = [i for i, e_ in enumerate(evs) if e_[0] == 'call' and re.search(r'TableState::select$', e_[1]) and 'setting_table_state' in vshow(e_[7][0]) and vshow(e_[7][1]) == 'Option::Some(0)']
            if not sel or max(sel) < max(wi):
                bad_tab = short(p_)
    if bad_tab or not n_tab:
        chk.fail('R2', 'settings-tab:item-reset', '-', '%s changes the selected settings tab without selecting item 0 of the new tab: the item index of the old tab may name no item of the new one' % (bad_tab or 'no writer of settings_tab_selected was found;'),
                 key='R2|settings-tab|item-reset|%s' % (bad_tab or 'anchor'))
    else:
        chk.ok('R2', 'settings-tab:item-reset', 'every change of settings_tab_selected is followed by setting_table_state.select(Some(0)) (%d traces)' % n_tab)

    # the selected hop *address* is re-validated with the hop: one of the clamps that run before every frame bounds selected_hop_address by the
    # address count of the hop that is selected when it returns (or by 0 without a selection), on every trace. Commands reset it when they move the
    # selection, but the data under an unchanged selection is replaced by every snapshot (clear trace data, a shorter round).
    TA_ = 'trippy_tui::frontend::tui_app::TuiApp'
    ea = Engine(prog, inline_depth=1, inline_filter=lambda c: prog.fns.get(c, {}).get('impl_adt') == TA_)
    HOPSEL = r'index\(call:State::hops_for_flow\(call:TuiApp::tracer_data\(self.*\), self\.selected_flow\), field:0\(call:TableState::selected\(.*\)\)\)'
    BOUND = r'Min\(self\.selected_hop_address, (?:0|saturating_sub\(call:Hop::addr_count\(%s\), 1\))\)|0' % HOPSEL
    done = None
    for nm in ('clamp_selected_hop', 'clamp_selected_flow'):
        fa_ = prog.find(r'tui_app::TuiApp::%s$' % nm, unique=False)
        if not fa_:
            continue
        sta = St()
        oa = ea.run(fa_[0], [ea.sym_ref(sta, 'self')], sta)
        # per returning trace: the index ends ≤ B, B = addr_count(selected hop) − 1 or 0 — written as min(index, B), or left alone on a trace that decided
        # index ≤ B and stored B on the trace that decided index > B (`if index > B { index = B }`)
        from ..tables import holds
        BEXP = r'(?:0|saturating_sub\(call:Hop::addr_count\(%s\), 1\))' % HOPSEL
        okt, n_t, uses_count = True, 0, False
        for o in oa:
            if o.kind != 'return':
                continue
            n_t += 1
            w_ = [vshow(ev[3]) for ev in o.st.events if ev[0] == 'write' and ev[1] == TA_ and ev[2] == 'selected_hop_address']
            if w_ and re.fullmatch(BOUND, w_[-1]):
                uses_count = uses_count or 'addr_count' in w_[-1]
                continue
            gts = [(vshow(a), v) for a, v, _ in o.st.decisions if re.fullmatch(r'(?:Gt|Le|Lt|Ge)\(.*selected_hop_address.*\)', vshow(a))]
            good = False
            for a_, v_ in gts:
                for b_ in re.findall(BEXP, a_):
                    pass
                mb = re.search(BEXP, a_)
                if not mb:
                    continue
                bterm = mb.group(0)
                h = holds(o.st.decisions, 'Gt(self.selected_hop_address, %s)' % bterm)
                if h == 0 and not w_:
                    good = True
                if h == 1 and w_ and w_[-1] == bterm:
                    good = True
                uses_count = uses_count or 'addr_count' in bterm
            if not good:
                okt = False
        if n_t and okt and uses_count:
            done = (nm, n_t)
    if done:
        chk.ok('R3', 'hop-address:revalidated', '%s bounds selected_hop_address by the address count of the selected hop on all %d traces' % done)
    else:
        chk.fail('R3', 'hop-address:revalidated', fn_loc(fn) if fn else '-', 'neither clamp bounds selected_hop_address by the address count of the hop selected after re-validation: when the trace data is '
                 'replaced (clear trace data, a round with fewer responders) the selected address index names an address the hop does not have', key='R3|hop-address|revalidated')
    fcf = prog.find(r'tui_app::TuiApp::clamp_selected_flow$', unique=False)
    if fcf:
        fn = fcf[0]
        e = Engine(prog, inline_depth=0)
        st = St()
        outs = e.run(fn, [e.sym_ref(st, 'self')], st)
        bad = None
        rows = []
        for o_ in outs:
            if o_.kind != 'return':
                bad = 'has a %s trace' % o_.kind
                continue
            d = [(vshow(a), v) for a, v, _ in o_.st.decisions]
            ws = {ev[2]: vshow(ev[3]) for ev in o_.st.events if ev[0] == 'write' and ev[1] == APP}
            rows.append((d, ws))
            exists = [v for a, v in d if re.search(r'Iterator::any\(.*State::flows\(.*closure|contains', a)]
            isdef = [v for a, v in d if re.search(r'selected_flow.*default_flow_id|default_flow_id.*selected_flow|Eq\(self\.selected_flow(\.0)?, 0\)|Ne\(self\.selected_flow(\.0)?, 0\)', a)]
            keeps = not ws
            if keeps:
                # leaving the selection alone is only right for the default flow or a flow that exists
                if not ((exists and exists[-1] == 1) or isdef):
                    bad = 'keeps the selected flow on a trace that established neither that it is the default flow nor that it exists (%s)' % d
            else:
                if ws.get('selected_flow') not in ('call:State::default_flow_id()', 'FlowId(0)') or ws.get('show_flows') != '0':
                    bad = 'resets to %s' % ws
        if bad or not rows:
            chk.fail('R3', 'clamp_selected_flow:post', fn_loc(fn), 'clamp_selected_flow %s' % (bad or 'has no trace'), key='R3|clamp_selected_flow|post')
        else:
            chk.ok('R3', 'clamp_selected_flow:post', 'keeps a flow that exists in the snapshot, otherwise falls back to the default flow and leaves flow mode')
    else:
        chk.fail('R3', 'clamp_selected_flow:post', fn_loc(frun), 'the selected flow is never re-validated against the snapshot: after "clear trace data" (or any replacement of the state) in flow mode the next frame indexes the per-flow map with a flow id that no longer exists (State::hops_for_flow panics)',
                 key='R3|clamp_selected_flow|missing')

    # ---- R1: audit -----------------------------------------------------------------------------------------------------
    scope = {p for p in prog.fns if in_scope(prog, p)}
    roots = [p for p in scope if re.search(r'frontend::run_app$|frontend::run_frontend$', p)]
    # Fresh (R3): in everything reached from the draw closure and the commands the selected index is below the hop count
    chk.assumptions += ['Layout::split returns one area per constraint (ratatui contract)', 'State readers succeed for the default flow and for registered flows (C10.R1); FlowState.hops has MAX_TTL entries',
                        'Hop counters: total_recv ≤ total_sent (C05.R1)', 'Fresh: between clamp and the next snapshot the selected hop index is below the hop count of the selected flow (R2 select rule + R3)']
    ALLOW = [
        (r'ColumnTypeIter::', 'Overflow:Add', r'Add usize', 'strum-generated EnumIter: idx / back_idx are bounded by the variant count'),
        (r'histogram::sample_frequency$', 'Overflow:Add', r'Add u64', 'a frequency counter: one increment per sample, at most max_samples'),
        (r'render_status_cell$', 'Overflow:Sub', r'Sub usize', 'total_recv ≤ total_sent (C05.R1 counter effect table)'),
        (r'run_frontend::\{closure#\d+\}$', 'unwrap', r'expect', 'the panic hook restores the terminal; a failure there happens while already panicking'),
        (r'ColumnType::width$', 'Overflow:Add', r'Add u16', 'display width of an embedded locale string (a few characters) + 2'),
        (r'table::format_details$', 'Overflow:Add', r'Add usize', 'address index + 1: the index is at most the number of addresses of one hop (next_hop_address guard)'),
        (r'render::chart::render::\{closure#\d+\}$', 'Overflow:Add', r'Add usize', 'enumerate() index of an in-memory list + 1'),
        (r'within:TuiApp::(next|previous)_flow$', 'unwrap', r'unwrap', 'the selected flow is in flow_counts (looked up in the function or in a helper only these two call): flow mode is entered with FlowId(1) under flow_count() > 0 (R2 toggle_flows), ids are taken from flow_counts (R2 writers), '
                                                               'clamp_selected_flow re-validates against the same snapshot flow_counts is built from (R3), and flow_counts lists every registered flow (≤ max_flows: C15.R4)'),
        (r'Columns::move_down$', 'api', 'remove', 'Vec::remove(index) under its own guard index < len'),
        (r'Columns::move_down$', 'api', 'insert', 'Vec::insert(index + 1) after the remove needs index + 1 < len: the only caller passes a selection with selected + 1 < count (R2 select@move_column_down); the function\'s own guard index < len is weaker (latent)'),
        (r'Columns::move_up$', 'api', 'remove', 'Vec::remove(index): the only caller passes the selected settings item, below the column count (R2 select rule, I6)'),
        (r'Columns::move_up$', 'api', 'insert', 'Vec::insert(index − 1) under index > 0'),
        (r'TuiApp::next_flow$', 'Overflow:Sub', r'Sub usize', 'flow_counts is non-empty once find_position succeeded on it'),
        (r'TuiApp::previous_flow$', 'slice-index', r'', 'index − 1 of the position found in the same vector, under index > 0'),
    ]
    audit_scope(chk, prog, cg, roots, scope, tier, 'R1', 'R1t', ALLOW, [], hints=hints, invariants=[inv, fresh, fresh_settings],
                inline_filter=r'^trippy_core::|^<trippy_core::', loop_allow=[(r'frontend::run_app$', 'the event loop: runs until a quit key or an I/O error by design')])
