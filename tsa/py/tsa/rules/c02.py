"""C02 — a probe's identity survives the wire: encode, quote, decode, match.

For every cell of protocol × strategy × port-direction × family × privilege that Builder::build accepts, the analysis composes, through the wire
model of tsa/wire.py (header fields as records; justified by C12's round-trip/frame proofs):
   the probe issued by TracerState::next_probe  →  the datagram built by the dispatch code (or, where the kernel builds headers, the datagram the
   socket calls determine: stated axioms)  →  extract_probe_proto_resp applied to a quotation of exactly that datagram  →
   ProtocolStrategyResponse::from + Strategy::validate + check_trace_id,
and requires on every abstract trace:  recovered sequence ≡ issued sequence (as linear terms, mod 2^16), trace id accepted, validate = true.
 R1 inversion per accepted cell (the table is exhaustive over the finite configuration space).
 R2 rejection half: validate's per-cell truth tables (= C03.R5v, imported), the protocol pair table of extract_probe_proto_resp
    {(Icmp, Icmp|IcmpV6), (Udp, Udp), (Tcp, Tcp)} → Some, everything else → None, and (R2m) the Dublin/IPv6 marker test is exactly
    quoted-payload.starts_with(MAGIC).
 R3 quotation length: on the decode path every accessor applied to the quoted transport header reads within its first 8 octets (RFC 792's
    "IP header + 64 bits"), per the RFC layout oracle of C12.
 R4 wiring: the copies of target address / initial sequence / protocol / privilege mode / pattern / tos / packet size used by the channel and by
    the strategy all come from the Tracer field of the same name.
 R5 TCP replies that do not come through ICMP: the ports handed to recv_tcp_socket are the probe's own (src_port, dest_port).
Not decided: that routers' in-transit rewrites keep these fields (a network fact); extension shapes (C14); the 2^16 concrete sequence values beyond
the term identity (ranges are C07's).
"""
import itertools
import json
import os
import re

from .common import *
from .wire_cells import *
from ..report import run_sub, VERIF

LEVEL = 'other'


def run(chk, tier):
    prog = program(crates=('packet', 'core'))
    chk.explanation = __doc__
    chk.assumptions += ['kernel-built headers: bind()/connect()/send_to() ports and addresses appear as the source/destination of the datagram (axiom)',
                        'packet views behave as field records (C12)']
    for r, d, fl in (('R1', 'encode∘wire∘decode = identity per accepted configuration cell', 60), ('R2p', 'protocol pair table of extract_probe_proto_resp', 18),
                     ('R3', 'decode reads only the first 8 octets of the quoted transport header', 6), ('R4', 'configuration wiring by name', 4), ('R5', 'TCP socket replies carry the probe\'s own ports', 2)):
        chk.rule(r, d, floor=fl)
    run_sub(chk, 'c03', 'C03.', {'R5v', 'R5'})
    # the slot a decoded sequence is matched against is the slot its probe was stored in (and a re-issue leaves the abandoned slot Skipped)
    run_sub(chk, 'c07', 'C07.', {'R3'})
    N = Norm(prog)
    psn = [y['name'] for y in prog.adt('trippy_core::strategy::ProtocolStrategyResponse')['variants'][0]['fields']]
    cells = 0
    for k in all_cells():
        if not builder_accepts(*k):
            continue
        c = Cell(prog, *k)
        inst = 'cell' + c.name()
        cells += 1
        pr = c.issue_probe()
        pdp = [o for o in c.probe_panics if o.site and re.search(r'probe_(udp|tcp|icmp)_data$', o.site[0])]
        if pr is None or pdp:
            chk.fail('R1', inst + ':probe', fn_loc(prog.find(r'TracerState::probe_data$')), 'cell %s is accepted by Builder::build but issuing a probe panics (unimplemented!)' % c.name(),
                     key='R1|%s|probe-panics' % c.name())
            continue
        oks = c.dispatch()
        if not oks:
            chk.fail('R1', inst + ':dispatch', fn_loc(c.dispatch_fn), 'cell %s: no successful dispatch trace' % c.name(), key='R1|%s|dispatch' % c.name())
            continue
        bad = None
        ntr = 0
        for o in oks:
            w = c.wire_datagram(o)
            if w is None:
                bad = 'the datagram put on the wire could not be derived (%s)' % [n for n, _ in c.socket_calls(o)]
                break
            ip, tp, s, how = w
            # bind the channel's copy of the target to the strategy's (R4 checks the wiring)
            f, douts = c.decode(ip, s)
            got_some = False
            for d in douts:
                vs = vshow(d.value)
                if d.kind != 'return':
                    bad = 'decoding a quotation of the probe has a %s trace' % d.kind
                    continue
                if vs.startswith('Result::Err'):
                    continue
                if vs == 'Result::Ok(Option::None)':
                    bad = 'a quotation of the probe itself is not recognised (extract_probe_proto_resp → None)'
                    continue
                got_some = True
                pr_ = d.value[4][0][4][0]
                if not (isinstance(pr_, tuple) and pr_[0] == 'adt' and pr_[3] == c.proto):
                    bad = 'decoded as %s' % vshow(pr_)[:40]
                    continue
                f2, so = c.strategy_decode(pr_, d.st)
                for x in so:
                    ntr += 1
                    if x.kind != 'return':
                        bad = 'ProtocolStrategyResponse::from has a %s trace' % x.kind
                        continue
                    seq = x.value[4][psn.index('sequence')]
                    tid = vshow(N.simp(x.value[4][psn.index('trace_id')]))
                    if not N.equal(seq, ('sym', 'seq')):
                        bad = 'recovered sequence is %s, not the issued sequence (decode path decisions %s)' % (vshow(N.simp(seq))[:160], [(vshow(a)[:40], v) for a, v, _ in d.st.decisions][-2:])
                    want_tid = 'cfg.trace_identifier' if c.proto == 'Icmp' else '0'
                    if tid != want_tid:
                        bad = 'recovered trace id is %s (expected %s)' % (tid, want_tid)
                f3, vo = c.validate(pr_, d.st)
                for x in vo:
                    if vshow(x.value) == '0':
                        bad = 'Strategy::validate rejects the tracer\'s own probe (under %s)' % ([(vshow(a)[:60], v) for a, v, _ in x.st.decisions][-2:],)
                    elif vshow(x.value) != '1':
                        bad = 'Strategy::validate is not shown to accept the tracer\'s own probe: its result depends on %s, which the decode path does not derive from the marker / ports / address the probe was sent with' % vshow(x.value)[:120]
            if not got_some and not bad:
                bad = 'no decode trace recognises the probe'
        if bad is None:
            chk.ok('R1', inst, '%d traces: seq\' ≡ seq, trace id ok, validate true (%s)' % (ntr, how[:50]))
        else:
            chk.fail('R1', inst, fn_loc(c.dispatch_fn), 'cell %s: %s' % (c.name(), bad), key='R1|%s' % c.name())
    chk.extra['cells_accepted'] = cells

    # ---- R2m: the Dublin/IPv6 marker test -------------------------------------------------------------------
    chk.rule('R2m', 'the Dublin/IPv6 marker test is payload.starts_with(MAGIC), with the MAGIC the dispatch code writes', floor=1)
    fm = prog.find(r'net::ipv6::udp_payload_has_magic_prefix$')
    chk.fn_seen(fm['path'])
    mc = prog.consts.get('trippy_core::net::ipv6::MAGIC')
    magic = list(bytes.fromhex(mc['pbytes'])) if mc and mc.get('pbytes') else None
    e0 = Engine(prog, inline_depth=0)
    st0 = St()
    oks = sorted({vshow(o.value) for o in e0.run(fm, [e0.sym_ref(st0, 'ipv6')], st0) if o.kind == 'return' and vshow(o.value).startswith('Result::Ok')})
    ok_m = False
    if magic and len(oks) == 1:
        pre, suf = 'Result::Ok(call:slice::starts_with(call:UdpPacket::payload(', '), %s))' % str(magic)
        mid = oks[0][len(pre):-len(suf)] if oks[0].startswith(pre) and oks[0].endswith(suf) else None
        # the view is the UDP packet parsed from the quoted IPv6 payload
        ok_m = mid is not None and mid.count('(') == mid.count(')') and 'UdpPacket::new_view(call:Ipv6Packet::payload(ipv6))' in mid
    if ok_m:
        chk.ok('R2m', 'has_magic', 'quoted UDP payload starts with %s (%d octets): a shorter or different payload is never taken for the marker' % (bytes(magic), len(magic)))
    else:
        chk.fail('R2m', 'has_magic', fn_loc(fm), 'the Dublin/IPv6 marker test is %s; it must be the quoted UDP payload\'s starts_with(MAGIC) so that a missing or truncated marker is never accepted' % oks, key='R2m|has_magic')

    # ---- R2p ------------------------------------------------------------------------------------------------
    IPP = 'trippy_packet::IpProtocol'
    for fam_, ty in (('V4', 'ipv4::Ipv4'), ('V6', 'ipv6::Ipv6')):
        f = prog.find(r'net::%s::extract_probe_proto_resp$' % ty)
        chk.fn_seen(f['path'])
        for proto in PROTOS:
            for ipp in prog.variant_names(IPP):
                eng = WireEngine(prog, inline_depth=1, opaque=[r'extract_(echo_request|udp_packet|tcp_packet)$', r'udp_payload_has_magic_prefix$', r'calc_udp_checksum$'])
                st = St()
                ip = eng.pkt_new(st, 'ipv6::Ipv6Packet' if fam_ == 'V6' else 'ipv4::Ipv4Packet', origin='received')
                fld = 'next_header' if fam_ == 'V6' else 'protocol'
                ipv = eng.adt_val(IPP, ipp, [('sym', 'n')] if ipp == 'Other' else [])
                eng.pkt_set(st, ip, fld, ipv)
                selfv = ('rec', 'net', {'protocol': eng.adt_val(CFG + 'Protocol', proto)})
                outs = eng.run(f, [eng.obj_ref(st, selfv), eng.obj_ref(st, ip)], st)
                want_some = (proto, ipp) in (('Icmp', 'Icmp'), ('Icmp', 'IcmpV6'), ('Udp', 'Udp'), ('Tcp', 'Tcp'))
                if fam_ == 'V4' and (proto, ipp) == ('Icmp', 'IcmpV6'):
                    want_some = False
                if fam_ == 'V6' and (proto, ipp) == ('Icmp', 'Icmp'):
                    want_some = False
                vals = {vshow(o.value)[:60] for o in outs if not vshow(o.value).startswith('Result::Err')}
                some = any(v.startswith('Result::Ok(Option::Some(ProtocolResponse::%s' % proto) for v in vals)
                none = 'Result::Ok(Option::None)' in vals
                okv = (some and not none) if want_some else (none and not some)
                inst = 'pair[%s,%s,%s]' % (fam_, proto, ipp)
                if okv:
                    chk.ok('R2p', inst, 'Some' if want_some else 'None', nontrivial=want_some)
                else:
                    chk.fail('R2p', inst, fn_loc(f), 'extract_probe_proto_resp[%s] with tracer protocol %s and quoted protocol %s yields %s; a quotation of another protocol must be ignored and '
                             'the matching one recognised' % (fam_, proto, ipp, sorted(vals)), key='R2p|' + inst)

    # ---- R3 ---------------------------------------------------------------------------------------------------
    layout = json.load(open(os.path.join(VERIF, 'tsa', 'spec', 'rfc_layout.json')))
    for pat in (r'net::ipv4::extract_udp_packet$', r'net::ipv4::extract_echo_request$', r'net::ipv4::extract_tcp_packet$',
                r'net::ipv6::extract_udp_packet$', r'net::ipv6::extract_echo_request$', r'net::ipv6::extract_tcp_packet$'):
        f = prog.find(pat)
        chk.fn_seen(f['path'])
        getters = []
        for b in f['blocks']:
            t = b['term']
            if t['k'] == 'call' and not b['cleanup']:
                m = re.match(r"^trippy_packet::((?:udp|tcp)::\w+Packet|icmpv[46]::(?:\w+::)?\w+Packet)(?:::<'[a-z_]+>)?::get_(\w+)$", t['resolved'] or t['callee'])
                if m:
                    getters.append((m.group(1), m.group(2)))
        bad = []
        # any other method of the quoted transport view (payload(), packet(), …) depends on how many octets the router chose to quote
        for b in f['blocks']:
            t = b['term']
            if t['k'] == 'call' and not b['cleanup']:
                m = re.match(r"^trippy_packet::((?:udp|tcp)::\w+Packet|icmpv[46]::(?:\w+::)?\w+Packet)(?:::<'[a-z_]+>)?::(\w+)$", t['resolved'] or t['callee'])
                if m and not (m.group(2).startswith('get_') or m.group(2) in ('new_view', 'new', 'minimum_packet_size')):
                    bad.append('%s::%s() (its result depends on how much of the datagram was quoted)' % (m.group(1).split('::')[-1], m.group(2)))
        for ty, fld in getters:
            sp = layout.get('trippy_packet::' + ty, {}).get('fields', {}).get(fld)
            if sp is None or sp[0] + sp[1] > 64:
                bad.append('%s.%s (bits %s)' % (ty, fld, sp))
        # the caller-side users of the returned packet (v4 echo request returns the view)
        inst = short(f['path'])
        if bad:
            chk.fail('R3', inst, fn_loc(f), '%s reads %s of the quoted transport header: routers need only quote its first 8 octets' % (inst, bad), key='R3|' + inst)
        elif getters or 'echo_request' in pat:
            chk.ok('R3', inst, getters or 'returns the view; identifier/sequence are read by the caller')
        else:
            chk.fail('R3', inst, fn_loc(f), 'no accessor found in %s (anchor lost)' % inst, key='R3|%s|anchor' % inst)

    # ---- R4 ---------------------------------------------------------------------------------------------------
    e0 = Engine(prog, inline_depth=0)
    for pat, adt, renames in ((r'TracerInner::make_channel_config$', 'trippy_core::config::ChannelConfig', {}),
                              (r'TracerInner::make_strategy_config$', 'trippy_core::config::StrategyConfig', {})):
        f = prog.find(pat)
        chk.fn_seen(f['path'])
        st = St()
        args = [e0.sym_ref(st, 'self')] + [('sym', f['locals'][i]['name'] or 'a%d' % i) for i in range(2, f['argc'] + 1)]
        outs = e0.run(f, args, st)
        names = [x['name'] for x in prog.adt(adt)['variants'][0]['fields']]
        bad = []
        for o in outs:
            v = o.value
            if not (isinstance(v, tuple) and v[0] == 'adt'):
                bad.append('not a struct literal')
                continue
            for i, n in enumerate(names):
                val = vshow(v[4][i])
                if val not in ('self.' + n, n):
                    bad.append('%s := %s' % (n, val))
        inst = short(f['path'])
        if bad or not outs:
            chk.fail('R4', inst, fn_loc(f), '%s does not copy every field from the Tracer field of the same name: %s' % (inst, bad[:4]), key='R4|' + inst)
        else:
            chk.ok('R4', inst, '%d fields by name' % len(names))
    fc = prog.find(r'net::channel::Channel::connect$')
    chk.fn_seen(fc['path'])
    want = {'trippy_core::net::ipv4::Ipv4': {'src_addr': r'config\.source_addr#V4\.0', 'dest_addr': r'config\.target_addr#V4\.0', 'packet_size': 'config.packet_size', 'payload_pattern': 'config.payload_pattern',
                                            'privilege_mode': 'config.privilege_mode', 'tos': 'config.tos', 'protocol': 'config.protocol', 'icmp_extension_mode': 'config.icmp_extension_parse_mode'},
            'trippy_core::net::ipv6::Ipv6': {'src_addr': r'config\.source_addr#V6\.0', 'dest_addr': r'config\.target_addr#V6\.0', 'packet_size': 'config.packet_size', 'payload_pattern': 'config.payload_pattern',
                                            'privilege_mode': 'config.privilege_mode', 'protocol': 'config.protocol', 'icmp_extension_mode': 'config.icmp_extension_parse_mode', 'initial_sequence': 'config.initial_sequence'}}
    st = St()
    e1 = Engine(prog, inline_depth=0)
    seen = set()
    for o in e1.run(fc, [e1.sym_ref(st, 'config')], st):
        for e in o.st.events:
            pass
    # struct literals of Ipv4 / Ipv6 inside connect: read them off the MIR aggregates with provenance through the engine
    for b in fc['blocks']:
        for st_ in b['stmts']:
            rv = st_.get('rv')
            if rv and rv['k'] == 'agg' and rv['kind'].get('def') in want:
                seen.add(rv['kind']['def'])
    st = St()
    outs = e1.run(fc, [e1.sym_ref(st, 'config')], st)
    chan_n = [x['name'] for x in prog.adt('trippy_core::net::channel::Channel')['variants'][0]['fields']]
    fams = {}
    for o in outs:
        v = o.value
        if isinstance(v, tuple) and v[0] == 'adt' and v[3] == 'Ok':
            fcg = v[4][0][4][chan_n.index('family_config')]
            if isinstance(fcg, tuple) and fcg[0] == 'adt' and fcg[4]:
                inner = fcg[4][0]
                fams.setdefault(inner[1], []).append(inner)
    for adt, fields in want.items():
        vals = fams.get(adt, [])
        names = [x['name'] for x in prog.adt(adt)['variants'][0]['fields']]
        bad = []
        for v in vals:
            for n, rx in fields.items():
                got = vshow(v[4][names.index(n)]) if n in names else None
                if got is None or not re.fullmatch(rx if '\\' in rx else re.escape(rx), got):
                    bad.append('%s := %s' % (n, got))
        inst = 'Channel::connect→' + adt.split('::')[-1]
        if bad or not vals:
            chk.fail('R4', inst, fn_loc(fc), 'Channel::connect builds %s with %s' % (adt.split('::')[-1], bad[:4] or 'no derivable value'), key='R4|' + inst)
        else:
            chk.ok('R4', inst, sorted(fields))

    # ---- R5 ---------------------------------------------------------------------------------------------------
    fd = prog.find(r'net::channel::Channel::dispatch_tcp_probe$')
    chk.fn_seen(fd['path'])
    st = St()
    eT = Engine(prog, inline_depth=0)
    probe = ('rec', 'probe', {})
    outs = eT.run(fd, [eT.sym_ref(st, 'self'), ('sym', 'probe')], st)
    news = [[vshow(x) for x in c[7]] for o in outs for c in user_calls(o, r'TcpProbe::<S>::new$|TcpProbe::new$')]
    if news and all(a[1:3] == ['probe.src_port', 'probe.dest_port'] for a in news):
        chk.ok('R5', 'dispatch_tcp_probe', 'TcpProbe::new(socket, probe.src_port, probe.dest_port, now)')
    else:
        chk.fail('R5', 'dispatch_tcp_probe', fn_loc(fd), 'the in-flight TCP socket is recorded with %s instead of the probe\'s (src_port, dest_port)' % news[:1], key='R5|dispatch_tcp_probe')
    fr = prog.find(r'net::channel::Channel::recv_tcp_sockets$')
    chk.fn_seen(fr['path'])
    cls = [c for c in prog.fns.values() if c.get('parent') == fr['path'] and c['kind'] == 'Closure']
    okr = False
    det = []
    for b in fr['blocks']:
        t = b['term']
        if t['k'] == 'call' and re.search(r'Ipv[46]::recv_tcp_socket$', t['resolved'] or t['callee']):
            from ..pp import operand
            det.append([operand(a, fr) for a in t['args']])
    st = St()
    outs = Engine(prog, inline_depth=0, loop_visits=1).run(fr, [eT.sym_ref(st, 'self')], st)
    calls = [[vshow(x) for x in c[7]] for o in outs for c in user_calls(o, r'Ipv[46]::recv_tcp_socket$')]
    def _same_entry(a):
        m1 = re.fullmatch(r'field:src_port\((.*)\)', a[2])
        m2 = re.fullmatch(r'field:dest_port\((.*)\)', a[3])
        m0 = re.fullmatch(r'field:socket\((.*)\)', a[1])
        return bool(m1 and m2 and m0 and m1.group(1) == m2.group(1) == m0.group(1))
    if calls and all(_same_entry(a) for a in calls):
        chk.ok('R5', 'recv_tcp_sockets', 'recv_tcp_socket(socket, probe.src_port, probe.dest_port) of the same in-flight entry')
    else:
        chk.fail('R5', 'recv_tcp_sockets', fn_loc(fr), 'recv_tcp_socket is called with %s' % (calls[:1] or det[:1]), key='R5|recv_tcp_sockets')
    # the entry taken out of the pending list is the one whose socket answered: the index handed to `remove` is the result of the search for a
    # writable socket, and the list is not modified between that search and the removal (an index found before entries are expired names another probe after)
    MUT = r'(ArrayVec|Vec)(::<[^>]*>)?::(retain|retain_mut|remove|swap_remove|push|try_push|insert|try_insert|clear|truncate|drain|pop|pop_at|swap_pop|sort\w*|reverse|swap)$'
    SEARCH = r'::(find_map|position)$'
    why = None
    n_rm = 0
    for o in outs:
        if o.kind != 'return':
            continue
        ev = user_calls(o)
        rms = [i for i, c in enumerate(ev) if re.search(r'(ArrayVec|Vec)(::<[^>]*>)?::(remove|swap_remove|pop_at|swap_pop)$', c[1]) and 'tcp_probes' in vshow(c[7][0])]
        srch = [i for i, c in enumerate(ev) if re.search(SEARCH, c[1]) and 'tcp_probes' in vshow(c[7][0])]
        if any(re.search(r'Ipv[46]::recv_tcp_socket$', c[1]) for c in ev) and not rms:
            why = 'a pending TCP socket is handed to recv_tcp_socket without being taken out of the pending list'
        for i in rms:
            n_rm += 1
            idx = vshow(ev[i][7][1])
            m = re.fullmatch(r'field:0\((call:(?:Iterator|IterMut|Iter)::(?:find_map|position)\(.*\))\)', idx)
            if not m or not srch:
                why = 'the pending TCP entry is removed at index %s, which is not the result of the search for a writable socket' % idx[:100]
                continue
            j = max(k for k in srch if k < i) if any(k < i for k in srch) else None
            if j is None or vshow(('call', ev[j][1], ev[j][7])) if False else j is None:
                why = 'the pending TCP entry is removed before the search for a writable socket'
                continue
            between = [short(c[1]) for c in ev[j + 1:i] if re.search(MUT, c[1]) and 'tcp_probes' in vshow(c[7][0])]
            if between:
                why = 'the pending list is modified by %s between finding the writable socket and removing it: the index found names a different probe afterwards, so the handshake answer is attributed to another probe\'s ports' % between
    # the search itself: the entry found is one whose socket reports writable
    scl = []
    for c in cls:
        stc = St()
        e1c = Engine(prog, inline_depth=1)
        tys = [l['ty'] for l in c['locals'][:3]]
        if tys and tys[0] == 'core::option::Option<usize>':
            co = e1c.run(c, [e1c.sym_ref(stc, 'env'), ('tuple', [('sym', 'index'), e1c.sym_ref(stc, 'entry')])], stc)
            rows = sorted((vshow(o.value), tuple((vshow(a), v) for a, v, _ in o.st.decisions)) for o in co)
            scl.append(rows == [('Option::None', (('unwrap_or_default(call:Socket::is_writable(entry.socket))', 0),)), ('Option::Some(index)', (('unwrap_or_default(call:Socket::is_writable(entry.socket))', 1),))])
        elif tys and tys[0] == 'bool' and len(tys) > 2 and 'TcpProbe' in tys[2]:
            co = e1c.run(c, [e1c.sym_ref(stc, 'env'), e1c.sym_ref(stc, 'entry')], stc)
            vals = sorted(vshow(o.value) for o in co)
            if any('is_writable' in v for v in vals) or any('is_writable' in vshow(a) for o in co for a, _, _ in o.st.decisions):
                scl.append(vals == ['unwrap_or_default(call:Socket::is_writable(entry.socket))'] or
                           sorted((vshow(o.value), tuple(v for _, v, _ in o.st.decisions)) for o in co) == [('0', (0,)), ('1', (1,))])
    if why is None and n_rm and scl and all(scl):
        chk.ok('R5', 'recv_tcp_sockets:found-is-removed', 'remove(index of the first entry whose socket is writable); no modification of the pending list in between (%d traces)' % n_rm)
    else:
        chk.fail('R5', 'recv_tcp_sockets:found-is-removed', fn_loc(fr), 'Channel::recv_tcp_sockets: %s' % (why or 'the search for the answering socket was not recognised (closures %s, removals %d)' % (scl, n_rm)),
                 key='R5|recv_tcp_sockets|found-is-removed')
