"""Shared: abstract traces of StateUpdater::update_for_probe per probe-status cell, with the per-trace effect summary."""
import re
from collections import defaultdict

from .common import *

PS = 'trippy_core::probe::ProbeStatus'
HOP = 'trippy_core::state::Hop'
FLOW = 'trippy_core::state::FlowState'
UPD = 'trippy_core::state::state_updater::StateUpdater'
CELLS = ['Complete', 'Awaited', 'Failed', 'NotSent', 'Skipped']
_CACHE = {}


class Eff:
    """effects of one abstract trace"""
    def __init__(self, o, eng):
        self.o = o
        self.dec = [(vshow(a), v) for a, v, _ in o.st.decisions]
        self.writes = defaultdict(list)      # (owner short, field) -> [value string]
        self.wvals = defaultdict(list)
        for e in o.st.events:
            if e[0] == 'write':
                self.writes[(e[1].split('::')[-1], e[2])].append(vshow(e[3]))
                self.wvals[(e[1].split('::')[-1], e[2])].append(e[3])
        self.calls = [(short(c[1]), [vshow(x) for x in c[7]], c) for c in user_calls(o)]
        self.asserts = [(e[1], [vshow(x) for x in e[2]]) for e in o.st.events if e[0] == 'assert']

    def ncalls(self, suffix):
        return sum(1 for c in self.calls if c[0].endswith(suffix))

    def call_args(self, suffix):
        return [c[1] for c in self.calls if c[0].endswith(suffix)]


def probe_traces(prog):
    if id(prog) in _CACHE:
        return _CACHE[id(prog)]
    eng = Engine(prog, inline_depth=2, opaque=[r'is_forward_loss$', r'state_updater::nat_status$'], max_paths=6000)
    f = prog.find(r'StateUpdater::update_for_probe$')
    out = {}
    for cell in CELLS:
        st = St()
        pay = [('sym', 'p')] if cell in ('Complete', 'Awaited', 'Failed') else []
        probe = eng.adt_val(PS, cell, pay)
        outs = eng.run(f, [eng.sym_ref(st, 'self'), eng.obj_ref(st, probe)], st)
        out[cell] = [Eff(o, eng) for o in outs]
    _CACHE[id(prog)] = (f, eng, out)
    return f, eng, out


HOPREF = r'call:Vec::index_mut\(self\.state\.hops, Sub\(p\.ttl\.0, 1\)\)'


def plus_one(field):
    return r'Add\(field:%s\(%s\), 1\)' % (field, HOPREF)
