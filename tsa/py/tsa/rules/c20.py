"""C20 — snapshots are round-atomic while the tracer runs (level: proof; all obligations or fail).

Trusted base: Rust's aliasing rules as enforced by the type check that produced the MIR; parking_lot / lock_api RwLock semantics.
 O1 the shared state is one private field `TracerInner.state: RwLock<State>`; every use of the field is `&self.state` handed straight to
    RwLock::read / RwLock::write (plus its initialisation in `new` and the derived Debug); no function of the crate returns or stores a guard
    or a reference derived from it.
 O2 every function that touches the field acquires the lock exactly once on every abstract trace.
 O3 in the round handler the single State::update_from_round call takes its `&mut State` from the write guard and the guard is dropped only
    afterwards; every other `&mut State` method call in the crate has a receiver that is a write guard's referent or an owned local State.
 O4 one handler call per published round (the publish closure calls handler exactly once; Strategy publishes once per round: C08.R2/R3).
 O5 snapshot clones through a read guard and returns an owned State; State's transitive field types contain no interior mutability or shared
    ownership and every local type on the way derives Clone — the clone is deep and independent.
 O6 clear replaces the whole value (`*guard = State::new(..)`) under one write guard.
From O1–O6 readers observe only states between two write-critical sections, each of which applies one whole round or one whole clear.
Caveat: if update_from_round unwinds mid-way (parking_lot does not poison) a partial round becomes visible; its panic sites are audited under C10/C16.
"""
import re

from .common import *
from ..callgraph import CallGraph
from ..cfg import CFG
from ..facts import op_place

LEVEL = 'proof'
TI = 'trippy_core::tracer::inner::TracerInner'
STATE = 'trippy_core::state::State'
FORBIDDEN = re.compile(r'\b(Cell|RefCell|UnsafeCell|OnceCell|OnceLock|LazyLock|Mutex|RwLock|Condvar|Atomic\w*|Rc|Arc|Weak|RawRwLock|RawMutex)\b|\*const |\*mut |&|\bdyn\b|\bfn\(')
PLAIN_EXTERNAL = re.compile(r'^(alloc::vec::Vec|alloc::string::String|core::option::Option|core::time::Duration|std::time::SystemTime|'
                            r'core::net::ip_addr::(IpAddr|Ipv4Addr|Ipv6Addr)|indexmap::map::IndexMap|std::collections::hash::map::HashMap|'
                            r'std::hash::random::RandomState|alloc::collections::btree::map::BTreeMap|core::num::nonzero::NonZero)$')
PRIMS = {'u8', 'u16', 'u32', 'u64', 'u128', 'usize', 'i8', 'i16', 'i32', 'i64', 'i128', 'isize', 'bool', 'char', 'f32', 'f64', 'str'}


def def_of(fn, local):
    """unique defining statement / call of a local: ('stmt', rv, bi) | ('call', term, bi) | None"""
    defs = []
    for bi, b in enumerate(fn['blocks']):
        if b['cleanup']:
            continue
        for st in b['stmts']:
            if 'lhs' in st and st['lhs']['l'] == local and not st['lhs']['p']:
                defs.append(('stmt', st['rv'], bi))
        t = b['term']
        if t['k'] == 'call' and t['dest']['l'] == local and not t['dest']['p']:
            defs.append(('call', t, bi))
    return defs[0] if len(defs) == 1 else None


def guard_chain(fn, local, mode):
    """Is `local` (a &mut State / &State) derived as  &[mut] *deref[_mut](&[mut] G)  with  G = RwLock::write|read(&(*self).state) ?
    -> (guard local, acquisition block) or None"""
    d = def_of(fn, local)
    for _ in range(6):
        if d is None:
            return None
        if d[0] == 'stmt' and d[1]['k'] in ('ref', 'use'):
            pl = d[1].get('p') or op_place(d[1].get('a', {}))
            if pl is None:
                return None
            # &mut (*_5)  or  copy/move of a local
            local = pl['l']
            d = def_of(fn, local)
            continue
        if d[0] == 'call':
            c = d[1]['resolved'] or d[1]['callee']
            if re.search(r'RwLock(Write|Read)Guard<.*> as core::ops::deref::Deref(Mut)?>::deref(_mut)?$', c):
                a0 = op_place(d[1]['args'][0])
                d2 = def_of(fn, a0['l']) if a0 else None
                if d2 and d2[0] == 'stmt' and d2[1]['k'] == 'ref':
                    g = d2[1]['p']['l']
                    dg = def_of(fn, g)
                    for _r in range(4):
                        # a named guard is re-borrowed before the deref (`let g = lock.read(); State::clone(&g)`): follow &*&g to g
                        if dg and dg[0] == 'stmt' and dg[1]['k'] in ('ref', 'use'):
                            pl_ = dg[1].get('p') or op_place(dg[1].get('a', {}))
                            if pl_ is None or any(e['k'] != 'deref' for e in pl_['p']):
                                break
                            g = pl_['l']
                            dg = def_of(fn, g)
                    if dg and dg[0] == 'call' and re.search(r'lock_api::rwlock::RwLock::<R, T>::(%s)$' % mode, dg[1]['resolved'] or dg[1]['callee']):
                        a = op_place(dg[1]['args'][0])
                        da = def_of(fn, a['l']) if a else None
                        if da and da[0] == 'stmt' and da[1]['k'] == 'ref' and _is_state_field(da[1]['p']):
                            return (g, dg[2])
                return None
            return None
        return None
    return None


def _is_state_field(pl):
    fs = [e for e in pl['p'] if e['k'] == 'field']
    return bool(fs) and fs[-1].get('of') == TI and fs[-1]['n'] == 'state' and pl['p'][-1]['k'] == 'field'


def run(chk, tier):
    prog = program(crates=('core',))
    chk.explanation = __doc__
    chk.trusted += ['Rust aliasing rules (the program type-checks and trippy-core forbids unsafe outside the socket boundary)', 'parking_lot::RwLock semantics']
    cg = CallGraph(prog)
    for r, d in (('O1', 'the lock field is private and only ever handed to read()/write()'), ('O2', 'exactly one acquisition per trace in every function touching the lock'),
                 ('O3', 'State is mutated only through a write guard (or as an owned local)'), ('O4', 'one handler call per published round'),
                 ('O5', 'snapshot = deep clone under a read guard; State is deep-plain'), ('O6', 'clear replaces the whole value under one write guard')):
        chk.rule(r, d, floor=1)

    # ---- O1 ---------------------------------------------------------------------------------------------
    adt = prog.adt(TI)
    fld = [f for f in adt['variants'][0]['fields'] if f['name'] == 'state']
    if len(fld) == 1 and re.match(r'lock_api::rwlock::RwLock<parking_lot::raw_rwlock::RawRwLock, trippy_core::state::State>$', fld[0]['ty']) and not fld[0]['pub']:
        chk.ok('O1', 'field-type', fld[0]['ty'])
    else:
        chk.fail('O1', 'field-type', 'crates/trippy-core/src/tracer.rs', 'TracerInner.state must be a private RwLock<State>; found %s' % (fld and (fld[0]['ty'], fld[0]['vis'])), key='O1|field-type')
    others = [f['name'] for f in adt['variants'][0]['fields'] if f['name'] != 'state' and ('State' in f['ty'].split('::')[-1] and 'state::State' in f['ty'])]
    if others:
        chk.fail('O1', 'second-copy', 'crates/trippy-core/src/tracer.rs', 'TracerInner holds State in another field %s outside the lock' % others, key='O1|second-copy')
    users = {}
    for path, fn in prog.fns.items():
        if '::tests::' in path:
            continue
        for bi, b in enumerate(fn['blocks']):
            if b['cleanup']:
                continue
            items = [(st.get('lhs'), st.get('rv'), st['sp']) for st in b['stmts'] if 'lhs' in st]
            for lhs, rv, sp in items:
                places = [lhs] + [rv.get('p')] + [op_place(o) for o in [rv.get('a'), rv.get('b')] + list(rv.get('ops', [])) if o]
                for pl in places:
                    if pl and any(e['k'] == 'field' and e.get('of') == TI and e['n'] == 'state' for e in pl['p']):
                        users.setdefault(path, []).append((bi, lhs, rv, sp))
                if rv and rv['k'] == 'agg' and rv['kind'].get('def') == TI:
                    users.setdefault(path, []).append((bi, lhs, rv, sp))
    n_use = 0
    for path, lst in sorted(users.items()):
        fn = prog.fns[path]
        chk.fn_seen(path)
        for (bi, lhs, rv, sp) in lst:
            n_use += 1
            inst = '%s@use%d' % (short(path), n_use)
            if rv['k'] == 'agg' and rv['kind'].get('def') == TI:
                # initialisation: the field operand must come from RwLock::new(State::new(..)) / const_rwlock
                idx = rv['kind']['fields'].index('state')
                pl = op_place(rv['ops'][idx])
                d = def_of(fn, pl['l']) if pl else None
                if d and d[0] == 'call' and re.search(r'RwLock::<R, T>::new$|const_rwlock$', d[1]['resolved'] or d[1]['callee']):
                    chk.ok('O1', inst, 'initialised with RwLock::new(..)')
                else:
                    chk.fail('O1', inst, loc(sp), 'TracerInner is built with a state field that is not a fresh RwLock::new(..)', key='O1|init|' + short(path))
                continue
            if fn.get('derived') and fn.get('impl_trait') == 'core::fmt::Debug':
                chk.ok('O1', inst, 'derived Debug hands &RwLock to its own Debug impl (try_read inside lock_api)', nontrivial=False)
                continue
            ok = False
            if rv['k'] == 'ref' and not rv.get('mut') and _is_state_field(rv['p']) and not lhs['p']:
                # the reference must be used exactly once: as the receiver of read()/write()
                uses = []
                for b2 in fn['blocks']:
                    if b2['cleanup']:
                        continue
                    for st2 in b2['stmts']:
                        rv2 = st2.get('rv')
                        if rv2:
                            for o in [rv2.get('a'), rv2.get('b')] + list(rv2.get('ops', [])):
                                pl2 = op_place(o) if o else None
                                if pl2 and pl2['l'] == lhs['l']:
                                    uses.append(('stmt', None))
                            if rv2.get('p') and rv2['p']['l'] == lhs['l']:
                                uses.append(('stmt', None))
                    t2 = b2['term']
                    if t2['k'] == 'call':
                        for ai, a in enumerate(t2['args']):
                            pl2 = op_place(a)
                            if pl2 and pl2['l'] == lhs['l']:
                                uses.append(('call', (t2['resolved'] or t2['callee'], ai)))
                ok = len(uses) == 1 and uses[0][0] == 'call' and uses[0][1][1] == 0 and \
                    bool(re.search(r'lock_api::rwlock::RwLock::<R, T>::(read|write)$', uses[0][1][0]))
            if ok:
                chk.ok('O1', inst, '&self.state → RwLock::read/write')
            else:
                chk.fail('O1', inst, loc(sp), '%s uses TracerInner.state other than as the receiver of read()/write(): the lock could be bypassed or a reference escape' % short(path),
                         key='O1|use|' + short(path))
    if n_use < 5:
        chk.fail('O1', 'coverage', '?', 'only %d uses of TracerInner.state found' % n_use, key='O1|coverage')
    esc = [p_ for p_, f in prog.fns.items() if re.search(r'RwLock(Read|Write)Guard|lock_api::rwlock::RwLock<', f['ret']) and '::tests::' not in p_ and f['crate'] == 'core']
    if esc:
        chk.fail('O1', 'escape', fn_loc(prog.fns[esc[0]]), 'functions return a lock or a guard: %s' % [short(e) for e in esc], key='O1|escape|' + short(esc[0]))
    else:
        chk.ok('O1', 'no-escape', 'no function of trippy-core returns an RwLock or a guard')
    for a_ in prog.adts.values():
        if a_['crate'] == 'core':
            for v in a_['variants']:
                for f in v['fields']:
                    if re.search(r'RwLock(Read|Write)Guard', f['ty']):
                        chk.fail('O1', 'stored-guard', '?', '%s stores a lock guard in field %s' % (a_['path'], f['name']), key='O1|stored-guard|' + a_['path'])

    # ---- O2 ---------------------------------------------------------------------------------------------
    eng0 = Engine(prog, inline_depth=0)
    lock_fns = [p_ for p_ in users if not (prog.fns[p_].get('derived')) and prog.fns[p_].get('name') != 'new']
    for path in sorted(lock_fns):
        fn = prog.fns[path]
        st = St()
        args = [eng0.sym_ref(st, 'self')] + [('sym', 'arg%d' % i) for i in range(2, fn['argc'] + 1)]
        outs = eng0.run(fn, args, st)
        for i, o in enumerate(outs):
            acq = [short(e[1]) for e in o.st.events if e[0] == 'call' and re.search(r'lock_api::rwlock::RwLock::<R, T>::(read|write|upgradable_read|try_\w+)$', e[1])]
            if o.kind in ('return',) and len(acq) == 1:
                chk.ok('O2', '%s:trace%d' % (short(path), i), acq[0])
            else:
                chk.fail('O2', '%s:trace%d' % (short(path), i), fn_loc(fn), '%s acquires the state lock %d times on one trace (%s): two critical sections are not atomic' % (
                    short(path), len(acq), acq), key='O2|%s|acquisitions=%d' % (short(path), len(acq)))

    # ---- O3 ---------------------------------------------------------------------------------------------
    mut_methods = [p_ for p_, f in prog.fns.items() if f['argc'] >= 1 and f['locals'][1]['ty'] == '&mut ' + STATE and '::tests::' not in p_]
    ncalls = 0
    for path, fn in prog.fns.items():
        if '::tests::' in path or fn['crate'] != 'core':
            continue
        cfg = None
        for bi, b in enumerate(fn['blocks']):
            t = b['term']
            if b['cleanup'] or t['k'] != 'call' or (t['resolved'] or t['callee']) not in mut_methods:
                continue
            callee = t['resolved'] or t['callee']
            if path.startswith('trippy_core::state::') and fn['argc'] >= 1 and fn['locals'][1]['ty'] == '&mut ' + STATE:
                continue    # State's own methods calling each other on their own receiver
            ncalls += 1
            a0 = op_place(t['args'][0])
            gc = guard_chain(fn, a0['l'], 'write') if a0 else None
            inst = '%s→%s' % (short(path), short(callee))
            if gc is None:
                # an owned local State (e.g. `let mut s = State::new(..); s.update..`) is fine
                d = def_of(fn, a0['l']) if a0 else None
                owned = False
                if d and d[0] == 'stmt' and d[1]['k'] == 'ref' and not d[1]['p']['p'] and fn['locals'][d[1]['p']['l']]['ty'] == STATE:
                    owned = True
                if owned and TI not in path:
                    chk.ok('O3', inst, 'receiver is an owned local State')
                else:
                    chk.fail('O3', inst, loc(t['sp']), '%s mutates State through a reference that does not come from the write guard of TracerInner.state '
                             '(e.g. clone-modify-store, or a second path to the state)' % short(path), key='O3|receiver|' + inst)
                continue
            g, acq_bb = gc
            cfg = cfg or CFG(fn)
            drops = [bj for bj, b2 in enumerate(fn['blocks']) if not b2['cleanup'] and b2['term']['k'] == 'drop' and b2['term']['p']['l'] == g and not b2['term']['p']['p']]
            # an explicit `drop(guard)` releases the lock just as the end of the guard's scope does: the guard is moved into core::mem::drop
            for bj, b2 in enumerate(fn['blocks']):
                t2 = b2['term']
                if b2['cleanup'] or t2['k'] != 'call' or not re.search(r'core::mem::drop$', t2.get('resolved') or t2['callee'] or ''):
                    continue
                a2 = op_place(t2['args'][0]) if t2['args'] else None
                d2 = def_of(fn, a2['l']) if a2 else None
                via = d2[1].get('a', {}).get('move', {}).get('l') if d2 and d2[0] == 'stmt' and isinstance(d2[1], dict) and isinstance(d2[1].get('a'), dict) and isinstance(d2[1]['a'].get('move'), dict) else None
                if a2 and not a2['p'] and (a2['l'] == g or via == g):
                    drops.append(bj)
            ok = cfg.dominates(acq_bb, bi) and drops and all(cfg.dominates(bi, dj) for dj in drops)
            if ok:
                chk.ok('O3', inst, 'receiver = *write-guard; guard acquired in bb%d, dropped after the call' % acq_bb)
            else:
                chk.fail('O3', inst, loc(t['sp']), 'the write guard does not cover the call to %s' % short(callee), key='O3|guard-range|' + inst)
    if ncalls < 2:
        chk.fail('O3', 'coverage', '?', 'only %d external &mut State calls found (expected the handler and handle_error)' % ncalls, key='O3|coverage')
    # the round handler may be a method of TracerInner or written directly in the publish closure: what is decided is the application of the round
    # (the State::update_from_round call), through at most one TracerInner method
    UFR = 'State::update_from_round'
    calls_of = lambda f_: [(b_['term']['resolved'] or b_['term']['callee']) for b_ in f_['blocks'] if b_['term']['k'] == 'call' and not b_['cleanup']]
    appliers = [p_ for p_, f_ in prog.fns.items() if f_['crate'] == 'core' and '::tests' not in p_ and any(short(c_) == UFR for c_ in calls_of(f_))]
    helpers = [p_ for p_ in appliers if prog.fns[p_]['kind'] != 'Closure' and TI in p_]
    for hp in helpers:
        ufr = [short(c_) for c_ in calls_of(prog.fns[hp])]
        if ufr.count(UFR) == 1:
            chk.ok('O3', 'handler:update-once', ufr)
        else:
            chk.fail('O3', 'handler:update-once', fn_loc(prog.fns[hp]), '%s calls update_from_round %d times' % (short(hp), ufr.count(UFR)), key='O3|handler|update-once')

    # ---- O4 ---------------------------------------------------------------------------------------------
    fri = prog.find(r'TracerInner::run_internal$')
    cls = [c for c in prog.fns.values() if c.get('parent') == fri['path'] and c['kind'] == 'Closure']
    good = False
    for c in cls:
        names = calls_of(c)
        if sum(1 for n_ in names if short(n_) == UFR or n_ in helpers) >= 1:
            # the closure is the one handed to Strategy::new: on *every* abstract trace it applies the round it was given exactly once
            e4 = Engine(prog, inline_depth=1, inline_filter=lambda callee: callee in helpers)
            st4 = St()
            o4 = e4.run(c, [e4.sym_ref(st4, 'env'), e4.sym_ref(st4, 'round')], st4)
            every = bool(o4)
            for o_ in o4:
                hs = [h for h in user_calls(o_, r'State::update_from_round$')]
                if o_.kind != 'return' or len(hs) != 1 or vshow(hs[0][7][1]) != 'round':
                    every = False
            if every:
                good = True
                chk.ok('O4', 'publish-closure', 'update_from_round(round) exactly once on each of %d traces' % len(o4))
            else:
                chk.fail('O4', 'publish-closure:every-trace', fn_loc(fri), 'the publish closure of run_internal applies a published round to the shared state only on some paths, or more than once (%s): snapshots would omit or repeat rounds the strategy published' % (
                    [[(vshow(a)[:60], v) for a, v, _ in o_.st.decisions] for o_ in o4 if len(user_calls(o_, r'State::update_from_round$')) != 1][:2],), key='O4|publish-closure|conditional')
                good = True
    if not good:
        chk.fail('O4', 'publish-closure', fn_loc(fri), 'the publish closure of run_internal does not apply the round (State::update_from_round, directly or through one TracerInner method)', key='O4|publish-closure')
    # who applies rounds: the publish closure alone (directly or through its helper)
    hc = sorted(set(c_ for hp in helpers for c_ in cg.callers(hp)) | set(p_ for p_ in appliers if p_ not in helpers))
    if hc and all(prog.fns[c_].get('parent') == fri['path'] and prog.fns[c_]['kind'] == 'Closure' for c_ in hc) and len(hc) == 1:
        chk.ok('O4', 'handler-callers', [short(c_) for c_ in hc])
    else:
        chk.fail('O4', 'handler-callers', fn_loc(fri), 'rounds are applied to the shared state from %s (expected the publish closure of run_internal only)' % [short(c_) for c_ in hc], key='O4|handler-callers')

    # ---- O5 ---------------------------------------------------------------------------------------------
    fs = prog.find(r'TracerInner::snapshot$')
    chk.fn_seen(fs['path'])
    ok = False
    detail = ''
    if fs['ret'] == STATE:
        for b in fs['blocks']:
            t = b['term']
            if t['k'] == 'call' and not b['cleanup'] and (t['resolved'] or t['callee']).endswith('<trippy_core::state::State as core::clone::Clone>::clone') and t['dest']['l'] == 0:
                a0 = op_place(t['args'][0])
                gc = guard_chain(fs, a0['l'], 'read|write') if a0 else None
                if gc:
                    ok = True
                    detail = 'clone(&*read-guard) → owned State'
    if ok:
        chk.ok('O5', 'snapshot', detail)
    else:
        chk.fail('O5', 'snapshot', fn_loc(fs), 'snapshot must return State::clone of the referent of a guard of TracerInner.state (returns %s)' % fs['ret'], key='O5|snapshot')
    seen = {}
    bad = []
    unknown_ext = set()

    def walk(ty, via):
        m = FORBIDDEN.search(ty)
        if m:
            bad.append((via, ty, m.group(0)))
            return
        for tok in re.findall(r'[A-Za-z_][A-Za-z0-9_]*(?:::[A-Za-z_][A-Za-z0-9_]*)*', ty):
            if tok in PRIMS or tok in seen:
                continue
            seen[tok] = via
            a = prog.adts.get(tok)
            if a is not None:
                cl = [im for im in prog.impls if im['adt'] == tok and im['trait'] == 'core::clone::Clone']
                if not cl or not cl[0]['derived']:
                    bad.append((via, tok, 'Clone is not derived' if cl else 'no Clone'))
                for v in a['variants']:
                    for f in v['fields']:
                        walk(f['ty'], '%s.%s' % (tok.split('::')[-1], f['name']))
            elif PLAIN_EXTERNAL.match(tok):
                pass
            elif '::' in tok:
                unknown_ext.add(tok)
    walk(STATE, 'State')
    local_types = [t for t in seen if t in prog.adts]
    if bad:
        for (via, ty, why) in bad[:5]:
            chk.fail('O5', 'deep-plain:%s' % via, 'crates/trippy-core/src/state.rs', 'State is not deep-plain: %s has type %s (%s): a snapshot would share mutable state with the tracer' % (via, ty, why),
                     key='O5|deep-plain|%s' % via)
    elif unknown_ext:
        chk.fail('O5', 'deep-plain:external', 'crates/trippy-core/src/state.rs', 'State contains external types not known to be plain data: %s' % sorted(unknown_ext), key='O5|deep-plain|external')
    else:
        chk.ok('O5', 'deep-plain', '%d local types reachable from State, all derive Clone; no interior mutability, shared ownership or references' % len(local_types))
    chk.extra['state_types'] = sorted(local_types)

    # ---- O6 ---------------------------------------------------------------------------------------------
    fc = prog.find(r'TracerInner::clear$')
    chk.fn_seen(fc['path'])
    ok = False
    for b in fc['blocks']:
        if b['cleanup']:
            continue
        for st_ in b['stmts']:
            if 'lhs' in st_ and [e['k'] for e in st_['lhs']['p']] == ['deref'] and st_['rv']['k'] == 'use':
                gc = guard_chain(fc, st_['lhs']['l'], 'write')
                src = op_place(st_['rv']['a'])
                d = def_of(fc, src['l']) if src else None
                for _ in range(4):
                    # the fresh value may be named first (`let fresh = State::new(..); *guard = fresh`): follow plain moves
                    if d and d[0] == 'stmt' and d[1]['k'] == 'use' and op_place(d[1]['a']) and not op_place(d[1]['a'])['p']:
                        d = def_of(fc, op_place(d[1]['a'])['l'])
                if gc and d and d[0] == 'call' and (d[1]['resolved'] or d[1]['callee']).endswith('state::State::new'):
                    ok = True
    if ok:
        chk.ok('O6', 'clear', '*write-guard = State::new(..)')
    else:
        chk.fail('O6', 'clear', fn_loc(fc), 'clear must replace the whole State by a fresh State::new(..) through one write guard', key='O6|clear')
    # the state after a clear is the tracer's *empty* state: State::new receives the same configuration in `new` and in `clear`, each
    # StateConfig field taken from the tracer parameter of the same name
    fnw = prog.find(r'TracerInner::new$')
    SC = [k for k in prog.adts if k.endswith('::StateConfig')][0]
    scn = [x['name'] for x in prog.adt(SC)['variants'][0]['fields']]
    for f_, pref in ((fnw, ''), (fc, 'self.')):
        e6 = Engine(prog, inline_depth=1)
        st6 = St()
        args6 = [e6.sym_ref(st6, 'self')] if f_ is fc else [('sym', f_['locals'][i]['name'] or 'a%d' % i) for i in range(1, f_['argc'] + 1)]
        cfgs = []
        for o_ in e6.run(f_, args6, st6):
            for c in user_calls(o_, r'state::State::new$'):
                cfgs.append(c[7][0])
        inst = 'state-config@%s' % short(f_['path'])
        good = bool(cfgs) and bool(scn)
        got = None
        for v in cfgs:
            if not (isinstance(v, tuple) and v[0] == 'adt' and v[1] == SC):
                good = False
                got = vshow(v)[:120]
                continue
            got = dict(zip(scn, [vshow(x) for x in v[4]]))
            if any(got[n] != pref + n for n in scn):
                good = False
        if f_ is fnw and good:
            # the fields `clear` reads back are initialised from the same parameters
            ti6 = fnw.get('impl_adt')
            tin = [x['name'] for x in prog.adt(ti6)['variants'][0]['fields']] if ti6 in prog.adts else []
            for o_ in [o_ for o_ in e6.run(fnw, args6, St()) if o_.kind == 'return']:
                v = o_.value
                if isinstance(v, tuple) and v[0] == 'adt' and v[1] == ti6:
                    fv = dict(zip(tin, [vshow(x) for x in v[4]]))
                    if any(fv.get(n) != n for n in scn):
                        good = False
                        got = {n: fv.get(n) for n in scn}
        if good:
            chk.ok('O6', inst, 'State::new(StateConfig { %s })' % ', '.join('%s: %s%s' % (n, pref, n) for n in scn))
        else:
            chk.fail('O6', inst, fn_loc(f_), '%s builds its State from %s; every StateConfig field must come from the tracer parameter of the same name, so that a cleared state equals the initial empty state' % (short(f_['path']), got),
                     key='O6|state-config|%s' % short(f_['path']))
