"""C10 — the hop table covers exactly the probed path and ends at the target (partial: structural clauses).

 R1 map-key invariant behind "querying never fails": every way to obtain a State puts an entry for the default flow into the per-flow map
    (State::new; no derived/hand-written constructor that leaves it empty), flows are added only through entry(..).or_insert_with and never
    removed — so lookups of the default flow and of every id handed out by the registry succeed.
 R2 window bookkeeping: lowest_ttl is first set then only lowered (min), highest_ttl only raised (max with the round's largest_ttl),
    highest_ttl_for_round := the round's largest_ttl, round_count +1 per application; every sent arm feeds the probe's own ttl to
    update_lowest_ttl and stores it in the hop at slot ttl − 1 (C05.R5).
 R3 publish_trace's largest_ttl: target_ttl if known, else min(ttl − 1, max_received + 1) if something answered, else 0.
 R5 readers: FlowState::hops() is &hops[lowest_ttl − 1 .. highest_ttl] and empty while either bound is 0; target_hop() is the hop at
    highest_ttl_for_round (hops[0] before any round); is_target / is_in_round compare a hop's ttl with highest_ttl_for_round.
 R4 reader / updater panic audit (A5): hops(), target_hop(), is_target(), is_in_round(), round(), round_count(), hops_for_flow() and
    State::update_from_round under the stated invariants: probes carry 1 ≤ ttl ≤ MAX_TTL — the lower bound only if Builder::build rejects
    first_ttl < 1 —, FlowState.hops has MAX_TTL entries, and (D4, rounds come from Strategy) lowest_ttl − 1 ≤ highest_ttl ≤ MAX_TTL.
 C06.R2, C05.R8 (imported): every ttl of the round is probed once (a re-issue keeps its ttl) and every probe of the round reaches its hop (no take / skip on the way).
Not decided: that the reported length equals the target's true distance (network ground truth).
"""
import re

from .common import *
from ..tables import cdec, cwant, canon, holds
from .state_common import *
from ..callgraph import CallGraph
from ..vra import Lin
from .c04 import audit_scope

LEVEL = 'other'
STATE = 'trippy_core::state::State'


def builder_rejects_zero_first_ttl(prog):
    fb = prog.find(r'builder::Builder::build$')
    eng = Engine(prog, inline_depth=0)
    st = St()
    for o in eng.run(fb, [('sym', 'self')], st):
        if vshow(o.value).startswith('Result::Err'):
            a, v = [(vshow(a), v) for a, v, _ in o.st.decisions][-1]
            if (re.fullmatch(r'Lt\(self\.first_ttl\.0, 1\)|Eq\(self\.first_ttl\.0, 0\)', a) and v == 1) or \
                    (re.fullmatch(r'Ge\(self\.first_ttl\.0, 1\)|Gt\(self\.first_ttl\.0, 0\)|Ne\(self\.first_ttl\.0, 0\)', a) and v == 0):
                return True
    return False


def run(chk, tier):
    prog = program(crates=('core',))
    chk.explanation = __doc__
    # the reported path length is target_ttl when known: its transition table is C03.R4 (imported)
    from ..report import run_sub
    run_sub(chk, 'c03', 'C03.', {'R4'})
    # "a gap-free ascending run … each probed hop carrying its own TTL" needs every TTL of the round to be probed: the TTL effects of issuing and
    # re-issuing a probe (a re-issued TCP probe keeps its TTL, otherwise that hop is skipped and the next one probed twice) are C06.R2's
    run_sub(chk, 'c06', 'C06.', {'R2'})
    run_sub(chk, 'c05', 'C05.', {'R8'})      # every probe of the round reaches its hop (no take / skip on the way): each probed hop carries its own TTL
    cg = CallGraph(prog)
    for r, d, fl in (('R1', 'the per-flow map always holds the default flow; flows are only added', 3), ('R2', 'lowest/highest ttl bookkeeping', 4),
                     ('R3', 'largest_ttl decision table of publish_trace', 3), ('R4', 'reader / updater panic audit under the stated invariants', 8), ('R4t', 'loops terminate', 0)):
        chk.rule(r, d, floor=fl)

    # ---- R1 ---------------------------------------------------------------------------------------------
    ctors = []
    for path, fn in prog.fns.items():
        if '::tests::' in path:
            continue
        for b in fn['blocks']:
            for st_ in b['stmts']:
                rv = st_.get('rv')
                if rv and rv['k'] == 'agg' and rv['kind'].get('def') == STATE:
                    ctors.append((path, rv, st_['sp']))
    eng = Engine(prog, inline_depth=0)
    if not ctors:
        chk.fail('R1', 'ctors', '?', 'no construction site of State found (anchor lost)', key='R1|ctors')
    for (path, rv, sp) in ctors:
        fn = prog.fns[path]
        if fn.get('derived') and fn.get('impl_trait') in ('core::clone::Clone', 'core::default::Default'):
            continue      # Clone copies an existing State; a derived Default is reported below
        st = St()
        args = [('sym', 'arg%d' % i) for i in range(1, fn['argc'] + 1)]
        outs = eng.run(fn, args, st)
        good = bool(outs)
        detail = ''
        for o in outs:
            v = o.value
            names = [f['name'] for f in prog.adt(STATE)['variants'][0]['fields']]
            if not (isinstance(v, tuple) and v[0] == 'adt' and v[1] == STATE):
                good = False
                continue
            m = vshow(v[4][names.index('state')])
            detail = m[:140]
            # the map must be collected from an iterator that yields (default_flow_id(), FlowState::new(..))
            # … or built from an array literal holding that pair (HashMap::from([(id, state)]))
            if not re.search(r'once\(\(call:State::default_flow_id\(\), call:FlowState::new\(', m) and \
                    not re.fullmatch(r'call:HashMap::from\(\[\(call:State::default_flow_id\(\), call:FlowState::new\([^\[\]]*\)\)\]\)', m):
                good = False
        inst = 'ctor:' + short(path)
        if good:
            chk.ok('R1', inst, 'state map = {default_flow_id: FlowState::new(..)}')
        else:
            chk.fail('R1', inst, loc(sp), '%s builds a State whose per-flow map does not contain the default flow (%s): hops(), target_hop(), … index that map and panic' % (
                short(path), detail or 'value not derivable'), key='R1|ctor|' + short(path))
    # removal / other insertion APIs on the field
    muts = []
    for path, fn in prog.fns.items():
        if '::tests::' in path:
            continue
        for b in fn['blocks']:
            t = b['term']
            if t['k'] != 'call' or b['cleanup']:
                continue
            c = t['resolved'] or t['callee']
            m = re.search(r'hash::map::HashMap::<K, V, S>::(\w+)$|hash::map::HashMap::<K, V, S, A>::(\w+)$', c)
            if m and t['atys'] and 'FlowId, trippy_core::state::FlowState' in t['atys'][0] and t['atys'][0].startswith('&mut'):
                muts.append((path, m.group(1) or m.group(2), t['sp']))
    bad = [(p_, n, sp) for (p_, n, sp) in muts if n not in ('entry',)]
    if bad:
        chk.fail('R1', 'map-mutators', loc(bad[0][2]), 'the per-flow map is modified through %s in %s: entries may disappear' % (bad[0][1], short(bad[0][0])), key='R1|mutators|' + bad[0][1])
    elif muts:
        chk.ok('R1', 'map-mutators', 'only entry(..) in %s' % sorted({short(p_) for p_, _, _ in muts}))
    else:
        chk.fail('R1', 'map-mutators', '?', 'no insertion into the per-flow map found', key='R1|mutators|none')
    # Default: a derived Default builds an empty map
    dflt = [im for im in prog.impls if im['adt'] == STATE and im['trait'] == 'core::default::Default']
    if dflt and dflt[0]['derived']:
        chk.fail('R1', 'Default', loc(dflt[0]['span']), '`State` derives Default: State::default() has an empty per-flow map, so every reader (hops(), target_hop(), round_count(), …) '
                 'panics on it, and its flow registry starts at id 0, colliding with the default flow', key='R1|derived-default')
    elif dflt:
        f = prog.fns.get(dflt[0]['items'][0]['path'])
        st = St()
        outs = Engine(prog, inline_depth=0).run(f, [], st) if f else []
        if outs and all(re.match(r'call:State::new\(', vshow(o.value)) for o in outs):
            chk.ok('R1', 'Default', 'Default::default() = State::new(..)')
        else:
            chk.fail('R1', 'Default', fn_loc(f) if f else '?', 'State::default() is not State::new(..) (%s)' % [vshow(o.value)[:60] for o in outs], key='R1|default')
    else:
        chk.ok('R1', 'Default', 'State does not implement Default', nontrivial=False)

    # ---- R2 ---------------------------------------------------------------------------------------------
    e2 = Engine(prog, inline_depth=1)
    f = prog.find(r'FlowState::update_lowest_ttl$')
    chk.fn_seen(f['path'])
    st = St()
    rows = {}
    for o in e2.run(f, [e2.sym_ref(st, 'self'), ('sym', 'ttl')], st):
        d = [(vshow(a), v) for a, v, _ in o.st.decisions]
        w = [vshow(e[3]) for e in o.st.events if e[0] == 'write' and e[2] == 'lowest_ttl']
        cd = cdec(o)
        if 'self.lowest_ttl' in cd:
            # an integer `match self.lowest_ttl { 0 => .., other => .. }` decides the same comparison
            mv = cd.pop('self.lowest_ttl')
            k0 = canon('Eq(self.lowest_ttl, 0)', 1)[0]
            cd[k0] = 1 if mv == 0 else 0 if (isinstance(mv, tuple) and mv[0] == 'ne' and 0 in set(mv[1])) else mv
        if cd == cwant([('Eq(self.lowest_ttl, 0)', 1)]):
            rows['unset'] = w == ['ttl.0']
        elif cd == cwant([('Eq(self.lowest_ttl, 0)', 0)]):
            rows['set'] = bool(w) and bool(re.fullmatch(r'Min\(self\.lowest_ttl, ttl\.0\)|Min\(ttl\.0, self\.lowest_ttl\)', w[0])) and len(w) == 1
        else:
            rows['other'] = False
    if rows == {'unset': True, 'set': True}:
        chk.ok('R2', 'update_lowest_ttl', 'first set, then min')
    else:
        chk.fail('R2', 'update_lowest_ttl', fn_loc(f), 'lowest_ttl must be first set then only lowered (min); derived %s' % rows, key='R2|update_lowest_ttl')
    fa = prog.find(r'StateUpdater::apply$')
    chk.fn_seen(fa['path'])
    e3 = Engine(prog, inline_depth=0, loop_visits=1)
    st = St()
    outs = e3.run(fa, [e3.sym_ref(st, 'self')], st)
    want = {'round_count': r'Add\(self\.state\.round_count, 1\)', 'highest_ttl': r'Max\(self\.state\.highest_ttl, self\.round\.largest_ttl\.0\)|Max\(self\.round\.largest_ttl\.0, self\.state\.highest_ttl\)',
            'highest_ttl_for_round': r'self\.round\.largest_ttl\.0'}
    okv = bool(outs)
    got = {}
    for o in outs:
        for fld, rx in want.items():
            w = [vshow(e[3]) for e in o.st.events if e[0] == 'write' and e[2] == fld]
            got[fld] = w
            if not (len(w) == 1 and re.fullmatch(rx, w[0])):
                okv = False
    for fld in want:
        if okv or (len(got.get(fld, [])) == 1 and re.fullmatch(want[fld], got[fld][0])):
            chk.ok('R2', 'apply:' + fld, got.get(fld))
        else:
            chk.fail('R2', 'apply:' + fld, fn_loc(fa), 'StateUpdater::apply writes %s = %s' % (fld, got.get(fld)), key='R2|apply|' + fld)
    _, _, tr = probe_traces(prog)
    for cell in ('Complete', 'Awaited', 'Failed'):
        okc = all([a[-1] for a in t.call_args('FlowState::update_lowest_ttl')] == ['p.ttl'] for t in tr[cell])
        if okc:
            chk.ok('R2', 'lowest-fed:' + cell, 'update_lowest_ttl(probe.ttl)')
        else:
            chk.fail('R2', 'lowest-fed:' + cell, '?', 'a %s probe does not feed its ttl into lowest_ttl: the hop list would start above the lowest ttl probed' % cell, key='R2|lowest-fed|' + cell)

    # ---- R3 ---------------------------------------------------------------------------------------------
    fp = prog.find(r'Strategy::publish_trace$')
    chk.fn_seen(fp['path'])
    engp = Engine(prog, inline_depth=1, opaque=[r'TracerState::', r"Round::<'a>::new", r'Round::new'])
    st = St()
    outs = engp.run(fp, [engp.sym_ref(st, 'self'), engp.sym_ref(st, 'state')], st)
    seen = set()
    for o in outs:
        news = user_calls(o, r'Round::<.*>::new$|Round::new$')
        if len(news) != 1:
            continue
        d = dict((vshow(a), v) for a, v, _ in o.st.decisions)
        lt = vshow(news[0][7][1])
        cdx = {k: (0 if isinstance(v, tuple) else v) for k, v in cdec(o).items()}
        known = cdx.get('discr(call:TracerState::target_ttl(state))')
        some = cdx.get('discr(call:TracerState::max_received_ttl(state))')
        if known == 1:
            row, rx = 'target-known', r'field:0\(call:TracerState::target_ttl\(state\)\)'
        elif some == 1:
            row, rx = 'answered', (r'TimeToLive\(Min\(Sub\(call:TracerState::ttl\(state\), 1\), Add\(field:0\(call:TracerState::max_received_ttl\(state\)\), 1\)\)\)|'
                                   r'TimeToLive\(Min\(call:TimeToLive::sub\(call:TracerState::ttl\(state\), TimeToLive\(1\)\), call:TimeToLive::add\(field:0\(call:TracerState::max_received_ttl\(state\)\), TimeToLive\(1\)\)\)\)')
        elif some == 0:
            row, rx = 'silent', r'TimeToLive\(0\)'
        else:
            row, rx = 'other', r'$^'
        seen.add(row)
        if re.fullmatch(rx, lt):
            chk.ok('R3', 'largest_ttl:' + row, lt[:100])
        else:
            chk.fail('R3', 'largest_ttl:' + row, fn_loc(fp), 'publish_trace reports largest_ttl = %s in case %s' % (lt[:140], row), key='R3|largest_ttl|' + row)
        probes = vshow(news[0][7][0])
        if probes != 'call:TracerState::probes(state)':
            chk.fail('R3', 'probes:' + row, fn_loc(fp), 'the published round carries %s instead of state.probes()' % probes[:60], key='R3|probes')
    if seen != {'target-known', 'answered', 'silent'}:
        chk.fail('R3', 'coverage', fn_loc(fp), 'largest_ttl cases derived: %s' % sorted(seen), key='R3|coverage')

    # ---- R5: what the readers return ----------------------------------------------------------------------
    chk.rule('R5', 'readers: hops() = hops[lowest−1 .. highest] (empty before the first probe), target_hop() = the hop at the latest round\'s length, is_target / is_in_round compare with it', floor=4)
    e5 = Engine(prog, inline_depth=1)
    W = lambda x: r'(?:as_usize\()?%s\)?' % x
    LO, HI, HR = r'self\.lowest_ttl', r'self\.highest_ttl', r'self\.highest_ttl_for_round'

    def reader(name, nargs):
        f_ = prog.find(r'state::FlowState::%s$' % name)
        chk.fn_seen(f_['path'])
        st_ = St()
        return f_, e5.run(f_, [e5.sym_ref(st_, 'self')] + ([e5.sym_ref(st_, 'hop')] if nargs == 2 else []), st_)

    tri = holds
    f_, outs_ = reader('hops', 1)
    good, why = bool(outs_), ''
    nonempty = 0
    for o in outs_:
        cd = cdec(o)
        lo0, hi0 = tri(cd, 'Eq(self.lowest_ttl, 0)'), tri(cd, 'Eq(self.highest_ttl, 0)')
        val = vshow(o.value)
        if o.kind != 'return':
            good, why = False, 'a trace ends in %s' % o.kind
        elif lo0 == 0 and hi0 == 0:
            nonempty += 1
            if not re.fullmatch(r'call:Vec::index\(self\.hops, Range\(Sub\(%s, 1\), %s\)\)|subslice\(self\.hops, Sub\(%s, 1\), %s\)' % (W(LO), W(HI), W(LO), W(HI)), val):
                good, why = False, 'with both bounds set hops() is %s' % val[:120]
        elif lo0 == 1 or hi0 == 1:
            if not re.search(r'#len=0$', val):
                good, why = False, 'before the first probe hops() is %s' % val[:120]
        else:
            good, why = False, 'hops() decides on %s' % [(vshow(a), v) for a, v, _ in o.st.decisions]
    if good and nonempty:
        chk.ok('R5', 'hops', '&hops[lowest_ttl − 1 .. highest_ttl], empty while either bound is 0')
    else:
        chk.fail('R5', 'hops', fn_loc(f_), 'FlowState::hops: %s; the list must be the gap-free run from the lowest ttl probed to the greatest length reported' % (why or 'no trace returns the window'), key='R5|hops')
    f_, outs_ = reader('target_hop', 1)
    good, why = bool(outs_), ''
    seen = set()
    for o in outs_:
        cd = cdec(o)
        pos = tri(cd, 'Gt(self.highest_ttl_for_round, 0)')
        val = vshow(o.value)
        seen.add(pos)
        want = (r'call:Vec::index\(self\.hops, Sub\(%s, 1\)\)|index\(self\.hops, Sub\(%s, 1\)\)' % (W(HR), W(HR))) if pos == 1 else r'call:Vec::index\(self\.hops, 0\)|index\(self\.hops, 0\)'
        if o.kind != 'return' or pos is None or len(cd) != 1 or not re.fullmatch(want, val):
            good, why = False, 'with highest_ttl_for_round %s 0 it returns %s (decisions %s)' % ('>' if pos == 1 else '=' if pos == 0 else '?', val[:120], [(vshow(a), v) for a, v, _ in o.st.decisions])
    sat = r'(?:call:Vec::index|index)\(self\.hops, saturating_sub\(%s, 1\)\)' % W(HR)
    if outs_ and all(o.kind == 'return' and not o.st.decisions and re.fullmatch(sat, vshow(o.value)) for o in outs_):
        # the same function written without a branch: saturating_sub(n, 1) is n − 1 for n > 0 and 0 for n = 0
        good, seen = True, {0, 1}
    if good and seen == {0, 1}:
        chk.ok('R5', 'target_hop', 'hops[highest_ttl_for_round − 1], hops[0] before any round')
    else:
        chk.fail('R5', 'target_hop', fn_loc(f_), 'FlowState::target_hop: %s; the designated target is the hop at the latest round\'s path length' % (why or 'cases %s' % sorted(map(str, seen))), key='R5|target_hop')
    for name, atom in (('is_target', 'Eq(self.highest_ttl_for_round, hop.ttl)'), ('is_in_round', 'Le(hop.ttl, self.highest_ttl_for_round)')):
        f_, outs_ = reader(name, 2)
        vals = {canon(vshow(o.value), 1) if o.kind == 'return' else (o.kind, 0) for o in outs_}
        dec = [d for o in outs_ for d in o.st.decisions]
        if vals == {canon(atom, 1)} and not dec:
            chk.ok('R5', name, atom)
        elif dec and {(tri(cdec(o), atom), vshow(o.value)) for o in outs_} == {(1, '1'), (0, '0')}:
            chk.ok('R5', name, atom + ' (as a branch)')
        else:
            chk.fail('R5', name, fn_loc(f_), 'FlowState::%s is %s, expected %s' % (name, sorted(map(str, vals)), atom), key='R5|%s' % name)

    # the public readers of State hand the question to the FlowState of the flow asked for (the default flow for hops())
    # a wrapper may answer through a sibling wrapper (hops() = hops_for_flow(default flow)): sibling State methods are inlined, nothing else
    e5d = Engine(prog, inline_depth=1, opaque=[r'State::default_flow_id$'], inline_filter=lambda c: prog.fns.get(c, {}).get('impl_adt') == 'trippy_core::state::State')
    for name in ('hops', 'hops_for_flow', 'target_hop', 'is_target', 'is_in_round', 'round', 'round_count'):
        fs_ = prog.find(r'state::State::%s$' % name, unique=False)
        if not fs_:
            chk.fail('R5', 'State::' + name, '?', 'State::%s not found (anchor lost)' % name, key='R5|State|%s|missing' % name)
            continue
        f_ = fs_[0]
        st_ = St()
        args_ = [e5d.sym_ref(st_, 'self')] + [(e5d.sym_ref(st_, 'a%d' % i) if f_['locals'][i]['ty'].startswith('&') else ('sym', 'a%d' % i)) for i in range(2, f_['argc'] + 1)]
        flow_arg = [i for i in range(2, f_['argc'] + 1) if 'FlowId' in f_['locals'][i]['ty']]
        hop_arg = [i for i in range(2, f_['argc'] + 1) if 'Hop' in f_['locals'][i]['ty']]
        key_ = 'a%d' % flow_arg[0] if flow_arg else r'call:State::default_flow_id\(\)'
        inner = 'hops' if name == 'hops_for_flow' else name
        entry_ = r'(?:call:HashMap::index\(self\.state, %s\)|field:0\(call:HashMap::get\(self\.state, %s\)\))' % (key_, key_)
        want = r'call:FlowState::%s\(%s%s\)' % (inner, entry_, (', a%d' % hop_arg[0]) if hop_arg else '')
        vals = sorted({vshow(o.value) if o.kind == 'return' else o.kind for o in e5d.run(f_, args_, st_)})
        if len(vals) == 1 and re.fullmatch(want, vals[0]):
            chk.ok('R5', 'State::' + name, vals[0])
        else:
            chk.fail('R5', 'State::' + name, fn_loc(f_), 'State::%s returns %s; expected the answer of the FlowState of the flow asked for' % (name, vals), key='R5|State|%s' % name)

    # ---- R4 ---------------------------------------------------------------------------------------------
    MAXTTL = prog.const_val('trippy_core::constants::MAX_TTL')
    lower = 1 if builder_rejects_zero_first_ttl(prog) else 0
    chk.extra['probe_ttl_lower_bound'] = lower
    roots = [f_['path'] for f_ in prog.fns.values() if '::tests::' not in f_['path'] and f_.get('impl_adt') in (STATE, FLOW) and f_['kind'] == 'AssocFn' and not f_.get('impl_trait') and
             f_['name'] in ('hops', 'hops_for_flow', 'target_hop', 'is_target', 'is_in_round', 'round', 'round_count', 'update_from_round', 'update_trace_flow')]
    stop = {p_ for p_ in prog.fns if '::tests::' in p_ or p_.startswith('trippy_core::flows::')}
    scope = {p_ for p_ in cg.reachable(roots, stop=stop) if prog.fns[p_]['crate'] == 'core'}
    scope = {p_ for p_ in scope if not (prog.fns[p_]['span']['exp'] and re.match(r'core::ops::(arith|bit)::', prog.fns[p_].get('trait_item') or ''))}
    scope = {p_ for p_ in scope if 'trippy_core::state::' in p_ or 'trippy_core::types::' in p_}
    hints = [(r'\.ttl(\.0)?$|^ttl(\.0)?$|awaited_ttl', lower, MAXTTL), (r'largest_ttl(\.0)?$', 0, MAXTTL),
             (r'(highest_ttl|highest_ttl_for_round|lowest_ttl)$', 0, MAXTTL), (r'^len\((self|state|self\.state)\.hops\)$', MAXTTL, MAXTTL)]

    def inv(P):
        out = []
        for pref in ('self', 'state', 'self.state'):
            lo_n, hi_n = pref + '.lowest_ttl', pref + '.highest_ttl'
            if lo_n in P.atoms and hi_n in P.atoms:
                # D4 (rounds come from Strategy): whenever both are set, lowest_ttl − 1 ≤ highest_ttl
                out.append(Lin(1, {hi_n: 1, lo_n: -1}))
        return out
    chk.assumptions += ['FlowState.hops has MAX_TTL entries (FlowState::new), probes carry ttl ≤ MAX_TTL (C06.R1 + Builder), ttl ≥ %d' % lower,
                        'D4: rounds come from Strategy, for which lowest_ttl − 1 ≤ highest_ttl whenever both are non-zero (R3 + C06)']
    ALLOW10 = [
        (r'^State::(hops|hops_for_flow|is_in_round|is_target|round|round_count|target_hop)$', 'api', 'index',
         'map lookup by flow id: the map always holds the default flow and every id the registry issued (R1); callers pass the default flow, an id from flows(), or — the TUI — a selection re-validated before every frame (C17.R3)'),
        (r'StateUpdater::update_for_probe$', 'api', 'insert', 'samples.insert(0, …): index 0 is always ≤ len'),
        (r'StateUpdater::update_for_probe$', 'api', 'from_secs_f64', 'Duration::from_secs_f64(|dur_ms − last_ms| / 1000): the absolute value of a difference of two finite, non-negative millisecond values'),
        (r'Hop::|state::Hop', 'Overflow:Add', r'Add (usize|u64)', 'per-hop counters: one increment per probe, cannot reach 2^64'),
        (r'StateUpdater::update_for_probe$', 'Overflow:Add', r'Add usize', 'per-hop counters: one increment per probe, cannot reach 2^64'),
        (r'StateUpdater::apply$', 'Overflow:Add', r'Add usize', 'round counter: one increment per round'),
        (r'state::Hop::loss_pct$', 'Overflow:Sub', r'Sub usize', 'total_recv ≤ total_sent by the counter effect table (C05.R1)'),
    ]
    audit_scope(chk, prog, cg, roots, scope, tier, 'R4', 'R4t', ALLOW10, [], hints=hints, invariants=[inv])
