"""Shared by C02/C03: the acceptance predicate Strategy::validate, per configuration cell, against its spec.

spec(proto, dir, strategy, family):  Icmp → true
   Udp → dest_addr == target ∧ ports(dir) ∧ ((Dublin ∧ V6) → has_magic)
   Tcp → dest_addr == target ∧ ports(dir)
   ports(None)=false, FixedSrc: src==cfg.src, FixedDest: dest==cfg.dest, FixedBoth: both.
"""
import itertools

from .common import *
from ..tables import Atom, check_pred_table

PROTOS = ['Icmp', 'Udp', 'Tcp']
DIRS = ['None', 'FixedSrc', 'FixedDest', 'FixedBoth']
STRATS = ['Classic', 'Paris', 'Dublin']
FAMS = ['V4', 'V6']


def config_rec(eng, dirn, strat, fam, base='self.config', extra=None):
    names = {'FixedSrc': ['cfg_src'], 'FixedDest': ['cfg_dest'], 'FixedBoth': ['cfg_src', 'cfg_dest'], 'None': []}[dirn]
    pd = eng.adt_val('trippy_core::config::PortDirection', dirn,
                     [eng.adt_val('trippy_core::types::Port', 'Port', [('sym', x)]) for x in names])
    d = {'port_direction': pd,
         'multipath_strategy': eng.adt_val('trippy_core::config::MultipathStrategy', strat),
         'target_addr': ('adt', 'core::net::ip_addr::IpAddr', 0 if fam == 'V4' else 1, fam, [('sym', 'target')])}
    if extra:
        d.update(extra)
    return ('rec', base, d)


def check_validate(chk, rid, prog):
    eng = Engine(prog, inline_depth=3)
    f = prog.find(r'Strategy::validate$')
    chk.fn_seen(f['path'])
    n = 0
    for proto, dirn, strat, fam in itertools.product(PROTOS, DIRS, STRATS, FAMS):
        st = St()
        selfv = ('rec', 'self', {'config': config_rec(eng, dirn, strat, fam)})
        pl = proto.lower()
        resp = ('rec', 'resp', {'proto_resp': eng.adt_val('trippy_core::probe::ProtocolResponse', proto, [('sym', pl)])})
        outs = eng.run(f, [eng.obj_ref(st, selfv), eng.obj_ref(st, resp)], st)
        atoms = [
            Atom('addr', r'Eq\(IpAddr::%s\(target\), %s\.dest_addr\)|Eq\(%s\.dest_addr, IpAddr::%s\(target\)\)' % (fam, pl, pl, fam)),
            Atom('src', r'Eq\(cfg_src, %s\.src_port\)|Eq\(%s\.src_port, cfg_src\)' % (pl, pl)),
            Atom('dest', r'Eq\(cfg_dest, %s\.dest_port\)|Eq\(%s\.dest_port, cfg_dest\)' % (pl, pl)),
            Atom('magic', r'%s\.has_magic' % pl),
        ]

        def spec(a, proto=proto, dirn=dirn, strat=strat, fam=fam):
            if proto == 'Icmp':
                return True
            ports = {'None': False, 'FixedSrc': a['src'], 'FixedDest': a['dest'], 'FixedBoth': a['src'] and a['dest']}[dirn]
            r = bool(a['addr'] and ports)
            if proto == 'Udp' and strat == 'Dublin' and fam == 'V6':
                r = r and bool(a['magic'])
            return r
        check_pred_table(chk, rid, 'validate[%s,%s,%s,%s]' % (proto, dirn, strat, fam), f, outs, atoms, spec)
        n += 1
    return n
