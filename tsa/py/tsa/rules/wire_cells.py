"""Shared by C02 / C11: per configuration cell, the probe the state machine issues, the datagram the dispatch code puts on the wire (as a
record of header fields, see tsa/wire.py) and what the decode path recovers from a quotation of exactly that datagram."""
import itertools
import re

from .common import *
from ..wire import WireEngine
from ..vra import Prover, Lin, RangeEngine

PROTOS = ['Icmp', 'Udp', 'Tcp']
STRATS = ['Classic', 'Paris', 'Dublin']
DIRS = ['None', 'FixedSrc', 'FixedDest', 'FixedBoth']
FAMS = ['V4', 'V6']
PRIVS = ['Privileged', 'Unprivileged']
CFG = 'trippy_core::config::'
TTLT = 'trippy_core::types::TimeToLive'
SEQT = 'trippy_core::types::Sequence'
PORT = 'trippy_core::types::Port'


def builder_accepts(proto, strat, dirn, fam, priv):
    """accept table of Builder::build as of this tree's rules (derived separately in C16; mirrored here to select cells)"""
    if proto in ('Udp', 'Tcp') and dirn == 'None':
        return False
    if proto == 'Udp' and strat == 'Classic' and dirn == 'FixedBoth':
        return False
    if proto == 'Tcp' and dirn == 'FixedBoth':
        return False
    return True


def cli_accepts(proto, strat, dirn, fam, priv):
    if not builder_accepts(proto, strat, dirn, fam, priv):
        return False
    if proto in ('Icmp', 'Tcp') and strat != 'Classic':
        return False
    if priv == 'Unprivileged' and strat != 'Classic':
        return False
    if proto == 'Icmp' and dirn != 'None':
        return False
    if priv == 'Unprivileged' and proto == 'Tcp':
        return True
    return True


def strategy_config(eng, proto, strat, dirn, fam):
    names = {'FixedSrc': ['cfg_src'], 'FixedDest': ['cfg_dest'], 'FixedBoth': ['cfg_src', 'cfg_dest'], 'None': []}[dirn]
    pd = eng.adt_val(CFG + 'PortDirection', dirn, [eng.adt_val(PORT, 'Port', [('sym', x)]) for x in names])
    return ('rec', 'cfg', {
        'protocol': eng.adt_val(CFG + 'Protocol', proto),
        'multipath_strategy': eng.adt_val(CFG + 'MultipathStrategy', strat),
        'port_direction': pd,
        'target_addr': ('adt', 'core::net::ip_addr::IpAddr', 0 if fam == 'V4' else 1, fam, [('sym', 'target')]),
        'initial_sequence': ('adt', SEQT, 0, 'Sequence', [('sym', 'cfg.initial_sequence')]),
        'trace_identifier': ('adt', 'trippy_core::types::TraceId', 0, 'TraceId', [('sym', 'cfg.trace_identifier')]),
    })


class Cell:
    def __init__(self, prog, proto, strat, dirn, fam, priv):
        self.prog = prog
        self.k = (proto, strat, dirn, fam, priv)
        self.proto, self.strat, self.dirn, self.fam, self.priv = proto, strat, dirn, fam, priv
        self.eng = WireEngine(prog, inline_depth=5, max_paths=3000)
        self.notes = []
        self.problems = []

    def name(self):
        return '[%s]' % ','.join(self.k)

    # ---- 1. the probe the state machine issues ------------------------------------------------------------------
    def issue_probe(self):
        eng = self.eng
        f = self.prog.find(r'TracerState::next_probe$')
        st = St()
        cfg = strategy_config(eng, self.proto, self.strat, self.dirn, self.fam)
        state = ('rec', 'st', {'config': cfg,
                               'sequence': ('adt', SEQT, 0, 'Sequence', [('sym', 'seq')]),
                               'round_sequence': ('adt', SEQT, 0, 'Sequence', [('sym', 'round_seq')]),
                               'ttl': ('adt', TTLT, 0, 'TimeToLive', [('sym', 'ttl')]),
                               'round': ('adt', 'trippy_core::types::RoundId', 0, 'RoundId', [('sym', 'round')])})
        outs = eng.run(f, [eng.obj_ref(st, state), ('sym', 'sent')], st)
        rets = [o for o in outs if o.kind == 'return']
        pan = [o for o in outs if o.kind == 'panic' and not (o.value and o.value[0] == 'assert')]
        self.probe_panics = pan
        if not rets:
            return None
        vals = {vshow(o.value): o.value for o in rets}
        if len(vals) != 1:
            self.problems.append('next_probe yields %d different probes' % len(vals))
        self.probe = list(vals.values())[0]
        self.cfg = cfg
        return self.probe

    # ---- 2. dispatch ----------------------------------------------------------------------------------------------
    def dispatch(self):
        eng = self.eng
        prog = self.prog
        v6 = self.fam == 'V6'
        ty = 'ipv6::Ipv6' if v6 else 'ipv4::Ipv4'
        meth = {'Icmp': 'dispatch_icmp_probe', 'Udp': 'dispatch_udp_probe', 'Tcp': 'dispatch_tcp_probe'}[self.proto]
        f = prog.find(r'net::%s::%s$' % (ty, meth))
        st = St()
        fields = {'privilege_mode': eng.adt_val(CFG + 'PrivilegeMode', self.priv),
                  'protocol': eng.adt_val(CFG + 'Protocol', self.proto),
                  'dest_addr': ('sym', 'target'),
                  'initial_sequence': ('adt', SEQT, 0, 'Sequence', [('sym', 'cfg.initial_sequence')])}
        selfv = ('rec', 'net', fields)
        if self.proto == 'Tcp':
            args = [eng.obj_ref(st, selfv), eng.obj_ref(st, self.probe)]
        else:
            args = [eng.obj_ref(st, selfv), eng.sym_ref(st, 'socket'), self.probe]
        outs = eng.run(f, args, st)
        self.dispatch_fn = f
        self.dispatch_outs = outs
        oks = [o for o in outs if o.kind == 'return' and vshow(o.value).startswith('Result::Ok')]
        self.dispatch_ok = oks
        return oks

    def socket_calls(self, o):
        return [(short(c[1]).split('::')[-1], c) for c in user_calls(o, r'net::socket::Socket::\w+$')]

    # ---- 3. the original datagram as it appears on the wire --------------------------------------------------------
    def wire_datagram(self, o):
        """-> (ip packet value, transport packet value or None, state, how) for a successful dispatch trace"""
        eng = self.eng
        s = o.st
        calls = self.socket_calls(o)
        names = [n for n, _ in calls]
        v6 = self.fam == 'V6'
        ipty = 'ipv6::Ipv6Packet' if v6 else 'ipv4::Ipv4Packet'
        send = [c for n, c in calls if n == 'send_to']
        conn = [c for n, c in calls if n == 'connect']
        bind = [c for n, c in calls if n == 'bind']

        def port_of(addr):       # SocketAddr::new(ip, port)
            a = eng.purify(addr, s)
            if isinstance(a, tuple) and a[0] == 'term' and a[1].endswith('SocketAddr::new') and len(a[2]) == 2:
                return a[2][0], a[2][1]
            return ('sym', 'addr?'), ('sym', 'port?')
        if self.proto == 'Tcp':
            if len(conn) != 1 or len(bind) != 1:
                return None
            lip, lport = port_of(bind[0][2][1])
            rip, rport = port_of(conn[0][2][1])
            tp = eng.pkt_new(s, 'tcp::TcpPacket', origin='kernel')
            eng.pkt_set(s, tp, 'source', lport)
            eng.pkt_set(s, tp, 'destination', rport)
            ip = eng.pkt_new(s, ipty, origin='kernel')
            eng.pkt_set(s, ip, 'next_header' if v6 else 'protocol', eng.adt_val('trippy_packet::IpProtocol', 'Tcp'))
            eng.pkt_set(s, ip, 'destination_address' if v6 else 'destination', _ip_inner(rip))
            eng.pkt_set_payload(s, ip, ('term', 'bytes', [tp]))
            return ip, tp, s, 'kernel-built TCP/IP headers: source port = bind() port, destination = connect() address (axiom)'
        if len(send) != 1:
            return None
        data = send[0][2][1]
        rip, rport = port_of(send[0][2][2])
        pk = eng.bytes_pkt(data, s)
        if pk is not None and eng.pkt_state(s, pk)[1] == ipty:
            return pk, eng.bytes_pkt(eng.pkt_state(s, pk)[4], s), s, 'raw socket with IP_HDRINCL: the datagram is exactly the bytes built'
        if pk is not None:
            # transport packet built by us, IP header by the kernel (IPv6 raw sockets)
            ip = eng.pkt_new(s, ipty, origin='kernel')
            tty = eng.pkt_state(s, pk)[1]
            proto = 'IcmpV6' if tty.startswith('icmpv6') else ('Icmp' if tty.startswith('icmpv4') else 'Udp')
            eng.pkt_set(s, ip, 'next_header' if v6 else 'protocol', eng.adt_val('trippy_packet::IpProtocol', proto))
            eng.pkt_set(s, ip, 'destination_address' if v6 else 'destination', _ip_inner(rip))
            eng.pkt_set_payload(s, ip, ('term', 'bytes', [pk]))
            return ip, pk, s, 'kernel-built IP header: destination = send_to() address, next header = the socket\'s protocol (axiom)'
        # plain datagram socket: kernel builds UDP and IP headers
        if len(bind) != 1:
            return None
        lip, lport = port_of(bind[0][2][1])
        up = eng.pkt_new(s, 'udp::UdpPacket', origin='kernel')
        eng.pkt_set(s, up, 'source', lport)
        eng.pkt_set(s, up, 'destination', rport)
        eng.pkt_set(s, up, 'checksum', ('sym', 'kernel.udp.checksum'))
        pay = eng.purify(data, s)
        eng.pkt_set(s, up, 'length', ('term', 'Add', [C(8), ('term', 'len', [pay])]))
        eng.pkt_set_payload(s, up, pay)
        ip = eng.pkt_new(s, ipty, origin='kernel')
        eng.pkt_set(s, ip, 'next_header' if v6 else 'protocol', eng.adt_val('trippy_packet::IpProtocol', 'Udp'))
        eng.pkt_set(s, ip, 'destination_address' if v6 else 'destination', _ip_inner(rip))
        if not v6:
            eng.pkt_set(s, ip, 'identification', ('sym', 'kernel.ip.identification'))
        eng.pkt_set_payload(s, ip, ('term', 'bytes', [up]))
        return ip, up, s, 'kernel-built UDP/IP headers: ports from bind()/send_to(), checksum and IP id chosen by the kernel (axiom)'

    # ---- 4. decode a quotation of that datagram ---------------------------------------------------------------------
    def decode(self, ip, s):
        eng = self.eng
        prog = self.prog
        v6 = self.fam == 'V6'
        ty = 'ipv6::Ipv6' if v6 else 'ipv4::Ipv4'
        f = prog.find(r'net::%s::extract_probe_proto_resp$' % ty)
        s2 = s.fork()
        s2.decisions = []
        fields = {'protocol': eng.adt_val(CFG + 'Protocol', self.proto),
                  'payload_pattern': ('sym', 'net.payload_pattern'), 'src_addr': ('sym', 'net.src_addr'), 'dest_addr': ('sym', 'target')}
        selfv = ('rec', 'net', fields)
        outs = eng.run(f, [eng.obj_ref(s2, selfv), eng.obj_ref(s2, ip)], s2)
        return f, outs

    def strategy_decode(self, proto_resp, s):
        eng = self.eng
        prog = self.prog
        f = prog.find(r'<trippy_core::strategy::ProtocolStrategyResponse as core::convert::From<\(trippy_core::probe::ProtocolResponse, &trippy_core::config::StrategyConfig\)>>::from$')
        s2 = s.fork()
        s2.decisions = []
        outs = eng.run(f, [('tuple', [proto_resp, eng.obj_ref(s2, self.cfg)])], s2)
        return f, outs

    def validate(self, proto_resp, s):
        eng = self.eng
        f = self.prog.find(r'Strategy::validate$')
        s2 = s.fork()
        s2.decisions = []
        selfv = ('rec', 'self', {'config': self.cfg})
        resp = ('rec', 'resp', {'proto_resp': proto_resp})
        return f, eng.run(f, [eng.obj_ref(s2, selfv), eng.obj_ref(s2, resp)], s2)


def _ip_inner(ipaddr):
    """IpAddr::V4(x) -> x"""
    if isinstance(ipaddr, tuple) and ipaddr[0] == 'adt' and ipaddr[1] == 'core::net::ip_addr::IpAddr' and ipaddr[4]:
        return ipaddr[4][0]
    return ipaddr


def all_cells():
    return list(itertools.product(PROTOS, STRATS, DIRS, FAMS, PRIVS))


# ---- arithmetic normalisation of recovered sequence terms -----------------------------------------------------------

class Norm:
    """linear normal form (mod 2^16 at the top) of the integer terms met on the encode/decode chain"""

    def __init__(self, prog):
        self.eng = RangeEngine(prog)
        self.P = self.eng.P

    def simp(self, v):
        if not isinstance(v, tuple):
            return v
        if v[0] == 'adt' and len(v[4]) == 1 and v[1] in self.eng.p.adts and not self.eng.p.adts[v[1]]['enum']:
            return self.simp(v[4][0])
        if v[0] == 'adt':
            return ('adt', v[1], v[2], v[3], [self.simp(x) for x in v[4]])
        if v[0] == 'term':
            op, a = v[1], [self.simp(x) for x in v[2]]
            if op.startswith('as_') and len(a) == 1:
                return a[0]
            if op in ('wrapping_add',):
                return ('term', 'Add', a)
            if op in ('wrapping_sub', 'saturating_sub'):
                return ('term', 'Sub', a)
            if op == 'len' and isinstance(a[0], tuple) and a[0][0] == 'term' and a[0][1] == 'bytes':
                return ('term', 'len', a)
            if op in ('call:array::index', 'call:index::index', 'call:array::index_mut', 'call:index::index_mut') and len(a) == 2 and isinstance(a[1], tuple) and a[1][0] == 'adt' and a[1][1].startswith('core::ops::range::'):
                r = RangeEngine._range_of(a[1])
                if r:
                    lo, hi, incl = r
                    return ('term', 'subslice', [a[0], lo if lo is not None else C(0), hi if hi is not None else ('term', 'len', [a[0]])])
            return ('term', op, a)
        return v

    def lin(self, v):
        return self.P.lin(self.simp(v))

    def with_state(self, eng, s):
        """len(bytes(pkt)) = length of the buffer the packet view was created over"""
        self._eng, self._s = eng, s
        return self

    def _bytes_len(self, v, depth=0):
        if not isinstance(v, tuple) or depth > 30:
            return v
        if v[0] == 'term' and v[1] == 'len' and isinstance(v[2][0], tuple) and v[2][0][0] == 'term' and v[2][0][1] == 'bytes' and getattr(self, '_eng', None):
            pk = v[2][0][2][0]
            stt = self._eng.pkt_state(self._s, pk)
            if stt is not None and stt[5] is not None:
                return ('term', 'len', [self._bytes_len(stt[5], depth + 1)])
        if v[0] == 'term':
            return ('term', v[1], [self._bytes_len(x, depth + 1) for x in v[2]])
        if v[0] == 'adt':
            return ('adt', v[1], v[2], v[3], [self._bytes_len(x, depth + 1) for x in v[4]])
        return v

    def equal(self, a, b):
        a, b = self._bytes_len(a), self._bytes_len(b)
        la, lb = self.lin(a), self.lin(b)
        if la is None or lb is None:
            return False
        d = la.add(lb, -1)
        return not d.t and d.c % 65536 == 0
