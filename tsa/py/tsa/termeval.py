"""Concrete evaluation of *extracted terms* (not of trippy code) over small integer domains, for finite case splits."""
from .sym import is_c


class Unknown(Exception):
    pass


def ev(v, env, width=None):
    """evaluate an arithmetic / comparison term under env: {symbol name: int}"""
    if not isinstance(v, tuple):
        raise Unknown(v)
    k = v[0]
    if k == 'c':
        return v[1]
    if k == 'sym':
        if v[1] in env:
            return env[v[1]]
        raise Unknown(v[1])
    if k == 'adt' and len(v[4]) == 1:
        return ev(v[4][0], env)
    if k == 'term':
        op, a = v[1], v[2]
        if op in ('Add', 'Sub', 'Mul', 'Lt', 'Le', 'Gt', 'Ge', 'Eq', 'Ne', 'Min', 'Max', 'BitAnd', 'BitOr', 'Rem', 'Div'):
            x, y = ev(a[0], env), ev(a[1], env)
            if op == 'Sub' and x - y < 0:
                raise Underflow(v)
            return {'Add': x + y, 'Sub': x - y, 'Mul': x * y, 'Lt': int(x < y), 'Le': int(x <= y), 'Gt': int(x > y),
                    'Ge': int(x >= y), 'Eq': int(x == y), 'Ne': int(x != y), 'Min': min(x, y), 'Max': max(x, y),
                    'BitAnd': x & y, 'BitOr': x | y, 'Rem': x % y if y else 0, 'Div': x // y if y else 0}[op]
        if op == 'saturating_sub':
            return max(0, ev(a[0], env) - ev(a[1], env))
        if op == 'saturating_add':
            return ev(a[0], env) + ev(a[1], env)
        if op == 'Not':
            return 1 - ev(a[0], env)
        if op.startswith('as_'):
            return ev(a[0], env)
    raise Unknown(v)


class Underflow(Exception):
    pass
