"""A5 driver: enumerate the panic-capable sites of all functions in scope and discharge them with vra.RangeEngine."""
import re
from collections import defaultdict

from .callgraph import CallGraph
from .cfg import CFG
from .sym import St, TooManyPaths, INT_W, short, key
from .vra import RangeEngine, inventory, Lin, _macname, INDEX_RX, PANIC_FNS

VIEW_MIN_CACHE = {}


def view_types(prog):
    """packet view types: local structs with a field `buf` of type Buffer; -> {adt path: minimum_packet_size}"""
    if id(prog) in VIEW_MIN_CACHE:
        return VIEW_MIN_CACHE[id(prog)]
    out = {}
    for path, a in prog.adts.items():
        if a['enum'] or not path.startswith('trippy_packet::'):
            continue
        fs = a['variants'][0]['fields']
        if any(f['name'] == 'buf' and f['ty'].startswith('trippy_packet::buffer::Buffer') for f in fs):
            mn = [f for f in prog.fns.values() if f.get('impl_adt') == path and f.get('name') == 'minimum_packet_size']
            val = None
            if mn:
                for b in mn[0]['blocks']:
                    for st in b['stmts']:
                        if 'lhs' in st and st['lhs']['l'] == 0 and st['rv']['k'] == 'use' and 'bits' in st['rv']['a']:
                            val = int(st['rv']['a']['bits'])
            out[path] = val
    VIEW_MIN_CACHE[id(prog)] = out
    return out


class Audit:
    def __init__(self, prog, inline_depth=3, caller_depth=3, max_paths=1200):
        self.p = prog
        self.cg = CallGraph(prog)
        self.eng = RangeEngine(prog, inline_depth=inline_depth, max_paths=max_paths)
        self.caller_depth = caller_depth
        self.fn_status = {}       # path -> 'ok' | 'cut' | 'error: ...'
        self.loop_results = {}
        self._focus = {}
        self._small_cache = {}
        self.views = view_types(prog)
        self._tbb = {}
        self._patch_site()

    def _patch_site(self):
        eng = self.eng
        audit = self
        orig_site = eng.site

        def bb_of(fn, sp_or_t):
            m = audit._tbb.get(fn['path'])
            if m is None:
                m = {}
                for bi, b in enumerate(fn['blocks']):
                    m[id(b['term'])] = bi
                    m[id(b['term'].get('sp'))] = bi
                audit._tbb[fn['path']] = m
            return m.get(id(sp_or_t), -1)
        self.bb_of = bb_of

    # ---- standalone arguments ----------------------------------------------------------------------------
    def args_for(self, fn, st):
        eng = self.eng
        args = []
        for i in range(1, fn['argc'] + 1):
            ty = fn['locals'][i]['ty']
            nm = fn['locals'][i]['name'] or ('arg%d' % i)
            if fn['kind'] == 'Closure' and i == 1:
                nm = 'env'
            base = re.sub(r"^&(?:'\w+ )?(?:mut )?", '', ty)
            base_nog = re.sub(r'<.*', '', base)
            if ty in INT_W:
                v = ('sym', nm)
                eng.types[key(v)] = ty
                args.append(v)
            elif re.fullmatch(r"&(?:'\w+ )?(?:mut )?\[(\w+)\]", ty):
                v = ('sym', nm)
                eng.slice_elem[nm] = re.fullmatch(r"&(?:'\w+ )?(?:mut )?\[(\w+)\]", ty).group(1)
                args.append(v)
            elif ty.startswith('&'):
                r = eng.sym_ref(st, nm)
                if base_nog in self.views and self.views[base_nog] is not None:
                    for var in ('Immutable', 'Mutable'):
                        eng.minlens['%s.buf#%s.0' % (nm, var)] = self.views[base_nog]
                args.append(r)
            else:
                v = ('sym', nm)
                if base_nog in self.views and self.views[base_nog] is not None:
                    for var in ('Immutable', 'Mutable'):
                        eng.minlens['%s.buf#%s.0' % (nm, var)] = self.views[base_nog]
                args.append(v)
        return args

    def analyse(self, path):
        if path in self.fn_status:
            return
        fn = self.p.fns[path]
        st = St()
        self.eng.reset_tables()
        depth0 = self.eng.inline_depth
        try:
            for d in range(depth0, -1, -1):
                # adaptive inlining: a function whose traces explode is re-analysed with shallower inlining (its callees'
                # sites are then established in their own standalone runs)
                self.eng.inline_depth = d
                snap_e = {k: len(v) for k, v in self.eng.evals.items()}
                snap_n = set(self.eng.entered)
                try:
                    st = St()
                    self.eng.reset_tables()
                    outs = self.eng.run(fn, self.args_for(fn, st), st)
                    self.fn_status[path] = 'cut' if any(o.kind == 'cut' for o in outs) else 'ok'
                    self._rank_loops(fn, outs)
                    break
                except TooManyPaths as e:
                    self.fn_status[path] = 'error: %s' % e
                    # drop the partial evaluations of the aborted attempt
                    for k in list(self.eng.evals):
                        self.eng.evals[k] = [x for i, x in enumerate(self.eng.evals[k]) if i < snap_e.get(k, 0) or x[0] != path]
                    self.eng.entered = snap_n
                except RecursionError:
                    self.fn_status[path] = 'error: recursion'
                    break
        finally:
            self.eng.inline_depth = depth0

    def _rank_loops(self, fn, outs):
        """termination of the function's own loops by a ranking argument: some unsigned measure (an integer local or the length of a
        slice local) provably decreases by ≥ 1 on every abstract trace from the loop head back to it"""
        P = self.eng.P
        closed = defaultdict(list)
        for o in outs:
            if o.kind == 'loop-closed' and o.site and o.site[0] == fn['path']:
                closed[o.site[1]].append(o)
        heads = self.eng._loops(fn)[0]
        for h in heads:
            tr = closed.get(h, [])
            if not tr:
                self.loop_results[(fn['path'], h)] = (False, None, 'no abstract trace returns to the loop head')
                continue
            cands = None
            for o in tr:
                hv = None
                for e in o.st.events:
                    if e[0] == 'loop-havoc' and e[1] == fn['path'] and e[2] == h:
                        hv = e
                if hv is None:
                    cands = set()
                    break
                fid = hv[3]
                facts = self.eng.trace_facts(o.st)
                good = set()
                for l, (old, ty) in hv[4].items():
                    new = o.st.mem.get((fid, l))
                    if ty in INT_W and ty.startswith('u'):
                        mo, mn = P.lin(old), P.lin(new)
                    elif ty.startswith('&') and ty.rstrip().endswith(']') and '[' in ty and ';' not in ty:
                        mo, mn = P.lin(('term', 'len', [old])), P.lin(('term', 'len', [new]))
                    else:
                        continue
                    if mo is None or mn is None:
                        continue
                    if P.prove(mo.add(mn, -1).add(Lin(1), -1), facts):
                        good.add((l, fn['locals'][l]['name'] or '_%d' % l, 'value' if ty in INT_W else 'len'))
                cands = good if cands is None else (cands & good)
            if cands:
                c = sorted(cands)[0]
                self.loop_results[(fn['path'], h)] = (True, '%s of `%s` strictly decreases on every iteration (%d traces)' % (c[2], c[1], len(tr)), '')
            else:
                self.loop_results[(fn['path'], h)] = (False, None, 'no decreasing unsigned measure found on %d traces' % len(tr))

    def analyse_all(self, paths, jobs=None):
        """analyse many functions; in parallel worker processes (fork) when there are enough of them"""
        import multiprocessing as mp
        import os
        paths = [p_ for p_ in sorted(paths) if p_ not in self.fn_status]
        jobs = jobs or min(16, os.cpu_count() or 1)
        if len(paths) < 24 or jobs <= 1:
            for p_ in paths:
                self.analyse(p_)
            return
        global _AUDIT
        _AUDIT = self
        chunks = [paths[i::jobs * 4] for i in range(jobs * 4)]
        ctx = mp.get_context('fork')
        with ctx.Pool(jobs) as pool:
            for status, evals, entered, loops in pool.imap_unordered(_work, [c for c in chunks if c]):
                self.fn_status.update(status)
                self.loop_results.update(loops)
                self.eng.entered |= entered
                for k, v in evals.items():
                    self.eng.evals[k].extend(v)

    # ---- focused re-analysis of a caller: inline only the call paths to the target and small predicates -------------------
    def _small(self, path):
        fn = self.p.fns.get(path)
        if fn is None:
            return False
        c = self._small_cache.get(path)
        if c is None:
            ncalls = sum(1 for b in fn['blocks'] if b['term']['k'] == 'call' and not b['cleanup'] and
                         not (b['term']['sp']['exp'] and b['term']['sp'].get('mcrate', '').startswith('tracing')))
            c = len(fn['blocks']) <= 40 and ncalls <= 6
            self._small_cache[path] = c
        return c

    def focused(self, caller, target):
        k = (caller, target)
        if k in self._focus:
            return self._focus[k]
        fwd = self.cg.reachable([caller])
        # backward reachability to target
        back = {target}
        work = [target]
        while work:
            x = work.pop()
            for c in self.cg.callers(x):
                if c not in back and c in fwd:
                    back.add(c)
                    work.append(c)
        pathset = fwd & back
        never = getattr(self, 'never_inline', None)
        eng = RangeEngine(self.p, inline_depth=7, max_paths=1500,
                          inline_filter=lambda callee: not (never and never.search(callee)) and (callee in pathset or self._small(callee)))
        eng._tbb = self.eng._tbb
        eng.range_hints = self.eng.range_hints
        eng.invariants = self.eng.invariants
        saved = self.eng
        self.eng = eng
        res = None
        try:
            fn = self.p.fns[caller]
            st = St()
            eng.reset_tables()
            outs = eng.run(fn, self.args_for(fn, st), st)
            status = 'cut' if any(o.kind == 'cut' for o in outs) else 'ok'
            res = (status, dict(eng.evals), set(eng.entered))
        except (TooManyPaths, RecursionError) as e:
            res = ('error: %s' % e, {}, set())
        finally:
            self.eng = saved
        self._focus[k] = res
        return res

    # ---- verdicts ------------------------------------------------------------------------------------------
    def evals_of(self, path, bb):
        return [e for (p, k, d, b), lst in self.eng.evals.items() if p == path and b == bb for e in lst]

    def verdict(self, path, bb, scope):
        """-> (status, reason, witness) status in proved | unreached | open"""
        ev = self.evals_of(path, bb)
        by_root = defaultdict(list)
        for e in ev:
            by_root[e[0]].append(e)

        def ok_from(root, depth, seen):
            es = by_root.get(root)
            if es and all(e[1] for e in es):
                return True, None
            if es is None and root == path:
                st = self.fn_status.get(root, '?')
                if st == 'ok':
                    return True, None        # never reached on any trace of a fully explored function
                return False, ('unknown', 'analysis of %s incomplete (%s)' % (short(root), st))
            if es is None and root != path and (path, root) in self.eng.entered and self.fn_status.get(root) == 'ok':
                return True, None            # the caller's complete analysis enters the function but never reaches the site
            bad = [e for e in (es or []) if not e[1]]
            if depth <= 0:
                return False, ('open', bad[0] if bad else None)
            callers = [c for c in self.cg.callers(root) if c in scope and c != root and c not in seen]
            if not callers:
                return False, ('open', bad[0] if bad else None)
            for c in callers:
                if c not in self.fn_status:
                    self.analyse(c)
                r, w = ok_from(c, depth - 1, seen | {c})
                if not r:
                    # second chance: re-analyse the caller inlining only the call paths to this function and small predicates
                    fstatus, fev, fent = self.focused(c, path)
                    fes = [e for (p_, k_, d_, b_), lst in fev.items() if p_ == path and b_ == bb for e in lst]
                    if fstatus == 'ok' and ((fes and all(e[1] for e in fes)) or (not fes and (path, c) in fent)):
                        continue
                if not r:
                    if w and w[1] is None and bad:
                        w = ('open', bad[0])
                    return False, w
            return True, None

        r, w = ok_from(path, self.caller_depth, {path})
        if r:
            return ('proved' if ev else 'unreached'), '', None
        return 'open', w[0] if w else 'open', (w[1] if w else None)


_AUDIT = None


def _work(chunk):
    a = _AUDIT
    a.eng.evals = defaultdict(list)
    a.eng.entered = set()
    a.loop_results = {}
    st = {}
    for p_ in chunk:
        a.fn_status.pop(p_, None)
        a.analyse(p_)
        st[p_] = a.fn_status[p_]
    return st, dict(a.eng.evals), a.eng.entered, a.loop_results


def static_sites(prog, fn):
    """inventory with stable per-function ordinals: [(kind, desc, ordinal, bb, sp)]"""
    out = []
    cnt = defaultdict(int)
    for (k, d, line, bb, sp) in inventory(prog, fn):
        kk = (k, d or '')
        out.append((k, d or '', cnt[kk], bb, sp))
        cnt[kk] += 1
    return out


def loops_of(fn):
    cfg = CFG(fn)
    return sorted({h for (_, h) in cfg.back_edges()})
