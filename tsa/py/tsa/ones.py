"""One's-complement folding: abstract interpretation of a `fn(u32) -> u16` over the domain interval × congruence mod 0xFFFF.

RFC 1071: the checksum of a 32-bit accumulator S of 16-bit words is ¬x where x is the end-around-carry reduction of S: x ≡ S (mod 0xFFFF),
0 ≤ x ≤ 0xFFFF, and x = 0 only if S = 0 (a non-zero multiple of 0xFFFF reduces to 0xFFFF). Because 2^16 ≡ 1 (mod 0xFFFF), a fold
(v >> 16) + (v & 0xFFFF) keeps the class of v, and truncating a value in [2^16, 2^17) to 16 bits subtracts 2^16, i.e. shifts the class by −1.
An abstract value is a set of cases (lo, hi, off, zero_ok): lo ≤ v ≤ hi, v ≡ S + off (mod 0xFFFF), and zero_ok says v = 0 ⇒ S = 0.
The function is accepted iff on every path the returned value is the 16-bit complement of a value whose every case has hi ≤ 0xFFFF, off ≡ 0
and zero_ok. Anything outside the recognised operator set makes the value unknown and the verdict "not established" (fail closed).
"""
M = 0xFFFF
U32 = (1 << 32) - 1


class Unknown(Exception):
    pass


def norm(cases):
    """merge cases with the same (off, zero_ok) into their hull (widening) — sound over-approximation"""
    by = {}
    for (lo, hi, off, z) in cases:
        if lo > hi:
            continue
        k = (off % M, z)
        if k in by:
            a, b = by[k]
            by[k] = (min(a, lo), max(b, hi))
        else:
            by[k] = (lo, hi)
    return frozenset((lo, hi, off, z) for (off, z), (lo, hi) in by.items())


class V:
    """a tracked value with identity (so that refinements through a comparison reach every copy)"""
    n = 0

    def __init__(self, cases):
        V.n += 1
        self.id = V.n
        self.cases = norm(cases)


def fold_cases(cases):
    out = []
    for (lo, hi, off, z) in cases:
        if hi <= M:
            out.append((lo, hi, off, z))
            continue
        # split at 2^16
        if lo <= M:
            out.append((lo, M, off, z))
            lo = M + 1
        out.append((1, (hi >> 16) + M if (hi >> 16) + M >= 1 else 1, off, True))
        # exact lower bound: hi part ≥ lo >> 16 ≥ 1, low part ≥ 0
        out[-1] = (max(1, lo >> 16), (hi >> 16) + min(M, hi), off, True)
    return out


def add_hi_cases(cases):
    """v + (v >> 16)"""
    out = []
    for (lo, hi, off, z) in cases:
        if hi <= M:
            out.append((lo, hi, off, z))
            continue
        if hi >= (1 << 17):
            raise Unknown('v + (v >> 16) with v ≥ 2^17 (more than one carry)')
        if lo <= M:
            out.append((lo, M, off, z))
            lo = M + 1
        out.append((lo + 1, hi + 1, off + 1, True))
    return out


def trunc16_cases(cases):
    out = []
    for (lo, hi, off, z) in cases:
        if hi <= M:
            out.append((lo, hi, off, z))
            continue
        if hi >= (1 << 17):
            raise Unknown('truncation to 16 bits of a value ≥ 2^17: more than one carry is lost')
        if lo <= M:
            out.append((lo, M, off, z))
            lo = M + 1
        # v − 2^16: the class moves by −1; v − 2^16 = 0 iff v = 2^16, which says nothing about S
        out.append((lo - 65536, hi - 65536, off - 1, lo - 65536 > 0))
    return out


def analyse(fn):
    """-> (ok, message, detail)"""
    blocks = fn['blocks']
    argl = 1
    start = {argl: V([(0, U32, 0, True)])}
    results = []
    problems = []
    # worklist over (block, state); state: local -> abstract value
    seen = {}
    work = [(0, start)]
    steps = 0

    def key_of(st):
        return tuple(sorted((l, absval_key(v)) for l, v in st.items()))

    def absval_key(v):
        if isinstance(v, V):
            return ('V', tuple(sorted(v.cases)))
        if isinstance(v, tuple):
            return tuple(absval_key(x) if isinstance(x, (V, tuple)) else x for x in v)
        return v

    def get(op, st):
        if op.get('const'):
            if 'bits' in op:
                return ('k', int(op['bits']))
            return ('k', None)
        pl = op.get('copy') or op.get('move')
        v = st.get(pl['l'])
        for e in pl['p']:
            if e['k'] == 'field' and isinstance(v, tuple) and v[0] == 'pair':
                v = v[1 + e['i']]
            else:
                raise Unknown('projection %s' % e['k'])
        if v is None:
            raise Unknown('read of an untracked local _%d' % pl['l'])
        return v

    def refine(st, vid, pred):
        """restrict every copy of value vid to the cases/intervals satisfying pred(lo, hi) -> (lo', hi') or None"""
        st2 = dict(st)
        newv = None
        for l, v in st.items():
            if isinstance(v, V) and v.id == vid:
                if newv is None:
                    cs = []
                    for (lo, hi, off, z) in v.cases:
                        r = pred(lo, hi)
                        if r:
                            cs.append((r[0], r[1], off, z))
                    newv = V(cs)
                st2[l] = newv
        return st2, newv

    while work:
        bb, st = work.pop()
        steps += 1
        if steps > 4000:
            return False, 'analysis does not converge', None
        # join / widening at block entry
        k = seen.get(bb)
        if k is not None:
            merged = {}
            changed = False
            for l in set(k) | set(st):
                a, b = k.get(l), st.get(l)
                if isinstance(a, V) and isinstance(b, V):
                    u = norm(set(a.cases) | set(b.cases))
                    if u != a.cases:
                        changed = True
                        merged[l] = V(u)
                    else:
                        merged[l] = a
                elif a is not None and b is not None and absval_key(a) == absval_key(b):
                    merged[l] = a
                elif a is None and b is not None:
                    merged[l] = b
                    changed = changed or False
                else:
                    merged[l] = a if a is not None else b
            if not changed:
                continue
            st = merged
        seen[bb] = dict(st)
        b = blocks[bb]
        try:
            for s_ in b['stmts']:
                if 'lhs' not in s_:
                    continue
                lhs = s_['lhs']
                if lhs['p']:
                    raise Unknown('assignment through a projection')
                rv = s_['rv']
                k_ = rv['k']
                if k_ == 'use':
                    if rv['a'].get('const') and 'bits' not in rv['a']:
                        st[lhs['l']] = ('k', None)
                    else:
                        st[lhs['l']] = get(rv['a'], st)
                elif k_ == 'cast':
                    a = get(rv['a'], st)
                    if a[0] == 'k' if isinstance(a, tuple) else False:
                        st[lhs['l']] = a
                    elif isinstance(a, tuple) and a[0] == 'not' and rv['ty'] == 'u16':
                        st[lhs['l']] = ('res', V(trunc16_cases(a[1].cases)))
                    elif isinstance(a, V) and rv['ty'] == 'u16':
                        st[lhs['l']] = V(trunc16_cases(a.cases))
                    elif isinstance(a, V) and rv['ty'] in ('u32', 'u64', 'usize'):
                        st[lhs['l']] = a
                    elif isinstance(a, tuple) and a[0] == 'res' and rv['ty'] == 'u16':
                        st[lhs['l']] = a
                    else:
                        raise Unknown('cast of %s to %s' % (a[0] if isinstance(a, tuple) else 'value', rv['ty']))
                elif k_ == 'bin':
                    op = rv['op']
                    a, c = get(rv['a'], st), get(rv['b'], st)
                    ka = a[1] if isinstance(a, tuple) and a[0] == 'k' else None
                    kc = c[1] if isinstance(c, tuple) and c[0] == 'k' else None
                    if ka is not None and kc is not None:
                        r = {'Lt': int(ka < kc), 'Le': int(ka <= kc), 'Gt': int(ka > kc), 'Ge': int(ka >= kc), 'Eq': int(ka == kc), 'Ne': int(ka != kc),
                             'Add': ka + kc, 'Sub': ka - kc, 'Shr': ka >> kc if kc < 64 else 0, 'BitAnd': ka & kc}.get(op)
                        if r is None:
                            raise Unknown('constant operator ' + op)
                        st[lhs['l']] = ('k', r)
                    elif op == 'Shr' and isinstance(a, V) and kc == 16:
                        st[lhs['l']] = ('hi', a)
                    elif op == 'BitAnd' and isinstance(a, V) and kc == M:
                        st[lhs['l']] = ('lo', a)
                    elif op == 'BitAnd' and isinstance(c, V) and ka == M:
                        st[lhs['l']] = ('lo', c)
                    elif op in ('Add', 'AddWithOverflow', 'AddUnchecked'):
                        r = None
                        x, y = a, c
                        for (x, y) in ((a, c), (c, a)):
                            if isinstance(x, tuple) and x[0] == 'hi' and isinstance(y, tuple) and y[0] == 'lo' and x[1].id == y[1].id:
                                r = V(fold_cases(x[1].cases))
                            elif isinstance(x, V) and isinstance(y, tuple) and y[0] == 'hi' and y[1].id == x.id:
                                r = V(add_hi_cases(x.cases))
                        if r is None:
                            raise Unknown('addition of %s and %s' % (a[0] if isinstance(a, tuple) else 'value', c[0] if isinstance(c, tuple) else 'value'))
                        if max(hi for (_, hi, _, _) in r.cases) > U32:
                            raise Unknown('32-bit overflow')
                        st[lhs['l']] = ('pair', r, ('k', 0)) if op == 'AddWithOverflow' else r
                    elif op in ('Ne', 'Eq', 'Gt', 'Ge', 'Lt', 'Le') and kc is not None and (isinstance(a, V) or (isinstance(a, tuple) and a[0] == 'hi')):
                        st[lhs['l']] = ('cmp', op, a, kc)
                    else:
                        raise Unknown('operator %s' % op)
                elif k_ == 'un' and rv['op'] == 'Not':
                    a = get(rv['a'], st)
                    if isinstance(a, V) and rv.get('aty') == 'u16':
                        st[lhs['l']] = ('res', a)        # complement of a value already narrowed to 16 bits
                    elif isinstance(a, V):
                        st[lhs['l']] = ('not', a)
                    elif isinstance(a, tuple) and a[0] == 'cmp':
                        neg = {'Ne': 'Eq', 'Eq': 'Ne', 'Gt': 'Le', 'Le': 'Gt', 'Lt': 'Ge', 'Ge': 'Lt'}
                        st[lhs['l']] = ('cmp', neg[a[1]], a[2], a[3])
                    else:
                        raise Unknown('negation')
                else:
                    raise Unknown('statement %s' % k_)
            t = b['term']
            tk = t['k']
            if tk == 'goto':
                work.append((t['t'], dict(st)))
            elif tk == 'assert':
                work.append((t['t'], dict(st)))        # overflow / shift asserts: the continuing edge
            elif tk == 'return':
                r = st.get(0)
                results.append(r)
            elif tk == 'switch':
                d = get(t['d'], st)
                if isinstance(d, tuple) and d[0] == 'k':
                    tg = [a_[1] for a_ in t['arms'] if int(a_[0]) == d[1]]
                    work.append((tg[0] if tg else t['otherwise'], dict(st)))
                elif isinstance(d, tuple) and d[0] == 'cmp':
                    _, op, subj, kc = d
                    edges = [(int(a_[0]), a_[1]) for a_ in t['arms']]
                    if len(edges) == 1:
                        edges.append((1 - edges[0][0], t['otherwise']))
                    for val, tg in edges:
                        truth = bool(val)
                        eff = op if truth else {'Ne': 'Eq', 'Eq': 'Ne', 'Gt': 'Le', 'Le': 'Gt', 'Lt': 'Ge', 'Ge': 'Lt'}[op]
                        if isinstance(subj, tuple) and subj[0] == 'hi':
                            # comparison on v >> 16
                            src = subj[1]
                            if eff == 'Ne' and kc == 0 or eff == 'Gt' and kc == 0 or eff == 'Ge' and kc == 1:
                                pred = lambda lo, hi: (max(lo, 65536), hi) if hi >= 65536 else None
                            elif eff == 'Eq' and kc == 0 or eff == 'Le' and kc == 0 or eff == 'Lt' and kc == 1:
                                pred = lambda lo, hi: (lo, min(hi, M)) if lo <= M else None
                            else:
                                raise Unknown('comparison of v >> 16 with %d' % kc)
                        else:
                            src = subj
                            pred = {'Gt': lambda lo, hi: (max(lo, kc + 1), hi) if hi > kc else None, 'Ge': lambda lo, hi: (max(lo, kc), hi) if hi >= kc else None,
                                    'Lt': lambda lo, hi: (lo, min(hi, kc - 1)) if lo < kc else None, 'Le': lambda lo, hi: (lo, min(hi, kc)) if lo <= kc else None,
                                    'Eq': lambda lo, hi: (kc, kc) if lo <= kc <= hi else None, 'Ne': lambda lo, hi: (lo, hi)}[eff]
                        st2, nv = refine(st, src.id, pred)
                        if nv is not None and not nv.cases:
                            continue           # infeasible edge
                        work.append((tg, st2))
                else:
                    raise Unknown('switch on an untracked value')
            elif tk in ('unreachable', 'resume'):
                pass
            elif tk == 'drop':
                work.append((t['t'], dict(st)))
            else:
                raise Unknown('terminator %s' % tk)
        except Unknown as e:
            problems.append('block %d: %s' % (bb, e))
    if problems:
        return False, 'the folding could not be followed: ' + '; '.join(sorted(set(problems))[:3]), None
    if not results:
        return False, 'no return reached', None
    detail = []
    for r in results:
        if not (isinstance(r, tuple) and r[0] == 'res'):
            return False, 'the returned value is not the 16-bit complement of the folded sum', None
        for (lo, hi, off, z) in r[1].cases:
            detail.append((lo, hi, off % M, z))
            if hi > M:
                return False, 'the complemented value can exceed 0xFFFF (range %#x..%#x): a carry out of bit 15 is lost' % (lo, hi), detail
            if off % M != 0:
                return False, 'for accumulators whose fold carries out of 16 bits the complemented value is off by %d (mod 0xFFFF): a carry is dropped by the 16-bit truncation instead of being added back' % ((-off) % M if (-off) % M < off % M else off % M), detail
            if not z:
                return False, 'the folded value can be 0 for a non-zero accumulator', detail
    return True, 'every path returns ¬x with x ≡ S (mod 0xFFFF), 0 ≤ x ≤ 0xFFFF, x = 0 only for S = 0', detail
