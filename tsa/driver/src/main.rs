//! TSA fact extractor: a rustc driver that serialises the type-checked program (MIR bodies with
//! resolved callees, ADTs, constants, impls) of every workspace crate to JSON.
//!
//! It is deliberately dumb: no rule lives here. It is injected as RUSTC_WORKSPACE_WRAPPER (so
//! argv[1] is the real rustc and is dropped) and writes `$TSA_OUT/<crate>.<kind>.facts.json`
//! with a single write per process.
#![feature(rustc_private)]
#![allow(unused)]
extern crate rustc_abi;
extern crate rustc_driver;
extern crate rustc_hir;
extern crate rustc_interface;
extern crate rustc_middle;
extern crate rustc_session;
extern crate rustc_span;

use rustc_driver::Compilation;
use rustc_hir::def::DefKind;
use rustc_hir::def_id::{DefId, LOCAL_CRATE};
use rustc_middle::mir::*;
use rustc_middle::ty::print::{with_no_trimmed_paths, with_no_visible_paths, with_resolve_crate_name};
use rustc_middle::ty::{self, GenericArgKind, Instance, Ty, TyCtxt, TypingEnv};
use rustc_span::Span;
use std::fmt::Write as _;

fn esc(s: &str) -> String {
    let mut o = String::with_capacity(s.len() + 2);
    o.push('"');
    for c in s.chars() {
        match c {
            '"' => o.push_str("\\\""),
            '\\' => o.push_str("\\\\"),
            '\n' => o.push_str("\\n"),
            '\r' => o.push_str("\\r"),
            '\t' => o.push_str("\\t"),
            c if (c as u32) < 0x20 => {
                let _ = write!(o, "\\u{:04x}", c as u32);
            }
            c => o.push(c),
        }
    }
    o.push('"');
    o
}

struct Cx<'tcx> {
    tcx: TyCtxt<'tcx>,
}

impl<'tcx> Cx<'tcx> {
    fn path(&self, did: DefId) -> String {
        self.tcx.def_path_str(did)
    }
    fn span(&self, sp: Span) -> String {
        let sm = self.tcx.sess.source_map();
        // outermost call site for macro expansions, so that file:line points at user code
        let root = sp.source_callsite();
        let lo = sm.lookup_char_pos(root.lo());
        let hi = sm.lookup_char_pos(root.hi());
        let (mac, mcrate) = if sp.from_expansion() {
            let ed = sp.ctxt().outer_expn_data();
            (
                format!("{:?}", ed.kind),
                ed.macro_def_id.map(|d| self.tcx.crate_name(d.krate).to_string()).unwrap_or_default(),
            )
        } else {
            (String::new(), String::new())
        };
        format!(
            "{{\"file\":{},\"line\":{},\"col\":{},\"eline\":{},\"exp\":{},\"mac\":{},\"mcrate\":{}}}",
            esc(&format!("{}", lo.file.name.prefer_local_unconditionally())),
            lo.line,
            lo.col.0,
            hi.line,
            sp.from_expansion(),
            esc(&mac),
            esc(&mcrate)
        )
    }
    fn place(&self, p: &Place<'tcx>, body: &Body<'tcx>) -> String {
        let mut s = format!("{{\"l\":{},\"p\":[", p.local.as_u32());
        let mut first = true;
        let mut ty = PlaceTy::from_ty(body.local_decls[p.local].ty);
        for elem in p.projection.iter() {
            if !first {
                s.push(',');
            }
            first = false;
            match elem {
                ProjectionElem::Deref => s.push_str("{\"k\":\"deref\"}"),
                ProjectionElem::Field(f, fty) => {
                    let (name, owner) = match ty.ty.kind() {
                        ty::Adt(adt, _) => {
                            let v = ty.variant_index.unwrap_or(rustc_abi::FIRST_VARIANT);
                            (adt.variant(v).fields[f].name.to_string(), self.path(adt.did()))
                        }
                        _ => (String::new(), String::new()),
                    };
                    let _ = write!(
                        s,
                        "{{\"k\":\"field\",\"i\":{},\"n\":{},\"of\":{},\"ty\":{}}}",
                        f.as_u32(),
                        esc(&name),
                        esc(&owner),
                        esc(&fty.to_string())
                    );
                }
                ProjectionElem::Index(l) => {
                    let _ = write!(s, "{{\"k\":\"index\",\"l\":{}}}", l.as_u32());
                }
                ProjectionElem::ConstantIndex { offset, min_length, from_end } => {
                    let _ = write!(s, "{{\"k\":\"cidx\",\"o\":{},\"min\":{},\"fe\":{}}}", offset, min_length, from_end);
                }
                ProjectionElem::Subslice { from, to, from_end } => {
                    let _ = write!(s, "{{\"k\":\"subslice\",\"from\":{},\"to\":{},\"fe\":{}}}", from, to, from_end);
                }
                ProjectionElem::Downcast(name, v) => {
                    let _ = write!(
                        s,
                        "{{\"k\":\"downcast\",\"v\":{},\"n\":{}}}",
                        v.as_u32(),
                        esc(&name.map(|n| n.to_string()).unwrap_or_default())
                    );
                }
                _ => s.push_str("{\"k\":\"other\"}"),
            }
            ty = ty.projection_ty(self.tcx, elem);
        }
        s.push_str("]}");
        s
    }
    fn closures_in(&self, t: Ty<'tcx>, out: &mut Vec<String>) {
        for ga in t.walk() {
            if let GenericArgKind::Type(tt) = ga.kind() {
                if let ty::Closure(did, _) = tt.kind() {
                    let p = self.path(*did);
                    if !out.contains(&p) {
                        out.push(p);
                    }
                }
            }
        }
    }
    fn konst(&self, c: &ConstOperand<'tcx>, env: TypingEnv<'tcx>) -> String {
        let ty = c.const_.ty();
        let mut s = format!("{{\"const\":true,\"ty\":{}", esc(&ty.to_string()));
        if let Some(si) = c.const_.try_eval_scalar_int(self.tcx, env) {
            let bits = si.to_bits(si.size());
            let _ = write!(s, ",\"bits\":\"{}\",\"size\":{}", bits, si.size().bytes());
        }
        match ty.kind() {
            ty::FnDef(did, args) => {
                let _ = write!(s, ",\"fn\":{},\"fnargs\":{}", esc(&self.path(*did)), esc(&self.tcx.def_path_str_with_args(*did, args)));
                if let Some(inst) = Instance::try_resolve(self.tcx, env, *did, args).ok().flatten() {
                    let _ = write!(s, ",\"fnres\":{}", esc(&self.path(inst.def_id())));
                }
            }
            ty::Closure(did, _) => {
                let _ = write!(s, ",\"closure\":{}", esc(&self.path(*did)));
            }
            _ => {}
        }
        if let Const::Unevaluated(uv, _) = c.const_ {
            let _ = write!(s, ",\"named\":{}", esc(&self.path(uv.def)));
        }
        if c.const_.try_eval_scalar_int(self.tcx, env).is_none() {
            if let Some(b) = self.const_bytes(c, env) {
                let hex: String = b.iter().map(|x| format!("{:02x}", x)).collect();
                let _ = write!(s, ",\"pbytes\":{}", esc(&hex));
                if let ty::Ref(_, inner, _) = ty.kind() {
                    let _ = write!(s, ",\"pty\":{}", esc(&inner.to_string()));
                }
            }
        }
        // string / byte-string literals
        let dbg = format!("{:?}", c.const_);
        if dbg.len() < 300 {
            let _ = write!(s, ",\"dbg\":{}", esc(&dbg));
        }
        s.push('}');
        s
    }
    /// bytes behind a constant reference (promoted `&TraceId(0)`, `&[u8; 6]`) or an in-memory constant
    fn const_bytes(&self, c: &ConstOperand<'tcx>, env: TypingEnv<'tcx>) -> Option<Vec<u8>> {
        self.const_bytes2(c.const_, env)
    }
    fn const_bytes2(&self, konst: Const<'tcx>, env: TypingEnv<'tcx>) -> Option<Vec<u8>> {
        use rustc_middle::mir::interpret::{GlobalAlloc, Scalar};
        let tcx = self.tcx;
        let ty = konst.ty();
        let val = konst.eval(tcx, env, rustc_span::DUMMY_SP).ok()?;
        let (alloc_id, off, sz) = match val {
            ConstValue::Scalar(Scalar::Ptr(ptr, _)) => {
                let inner = match ty.kind() {
                    ty::Ref(_, inner, _) => *inner,
                    _ => return None,
                };
                let lay = tcx.layout_of(env.as_query_input(inner)).ok()?;
                if !lay.is_sized() {
                    return None;
                }
                let (prov, off) = ptr.prov_and_relative_offset();
                (prov.alloc_id(), off.bytes() as usize, lay.size.bytes() as usize)
            }
            ConstValue::Indirect { alloc_id, offset } => {
                if let ty::Ref(_, inner, _) = ty.kind() {
                    // a reference stored in memory: follow the pointer (slice length is the second word)
                    if let Some(GlobalAlloc::Memory(a)) = tcx.try_get_global_alloc(alloc_id) {
                        let al = a.inner();
                        let off = offset.bytes() as usize;
                        let ptrs = al.provenance().ptrs();
                        let target = ptrs.iter().find(|(o, _)| o.bytes() as usize == off).map(|(_, p)| p.alloc_id());
                        if let Some(tid) = target {
                            let is_slice = matches!(inner.kind(), ty::Slice(_) | ty::Str);
                            let n = if is_slice {
                                let raw = al.inspect_with_uninit_and_ptr_outside_interpreter(off + 8..off + 16);
                                u64::from_le_bytes(raw.try_into().ok()?) as usize
                            } else {
                                tcx.layout_of(env.as_query_input(*inner)).ok()?.size.bytes() as usize
                            };
                            (tid, 0usize, n)
                        } else {
                            return None;
                        }
                    } else {
                        return None;
                    }
                } else {
                    let lay = tcx.layout_of(env.as_query_input(ty)).ok()?;
                    (alloc_id, offset.bytes() as usize, lay.size.bytes() as usize)
                }
            }
            ConstValue::Slice { alloc_id, meta } => (alloc_id, 0usize, meta as usize),
            _ => return None,
        };
        if sz > 64 {
            return None;
        }
        match tcx.try_get_global_alloc(alloc_id)? {
            GlobalAlloc::Memory(a) => {
                let inner = a.inner();
                if off + sz > inner.len() {
                    return None;
                }
                if !inner.provenance().ptrs().is_empty() {
                    return None;
                }
                Some(inner.inspect_with_uninit_and_ptr_outside_interpreter(off..off + sz).to_vec())
            }
            _ => None,
        }
    }
    fn operand(&self, o: &Operand<'tcx>, body: &Body<'tcx>, env: TypingEnv<'tcx>) -> String {
        match o {
            Operand::Copy(p) => format!("{{\"copy\":{}}}", self.place(p, body)),
            Operand::Move(p) => format!("{{\"move\":{}}}", self.place(p, body)),
            Operand::Constant(c) => self.konst(c, env),
            _ => "{\"rtc\":true}".to_string(),
        }
    }
    fn rvalue(&self, rv: &Rvalue<'tcx>, body: &Body<'tcx>, env: TypingEnv<'tcx>) -> String {
        match rv {
            Rvalue::Use(o, ..) => format!("{{\"k\":\"use\",\"a\":{}}}", self.operand(o, body, env)),
            Rvalue::Repeat(o, n) => {
                let nn = n.try_to_target_usize(self.tcx).map(|x| x.to_string()).unwrap_or_else(|| "-1".into());
                format!("{{\"k\":\"repeat\",\"a\":{},\"n\":{}}}", self.operand(o, body, env), nn)
            }
            Rvalue::Ref(_, bk, p) => {
                let m = matches!(bk, BorrowKind::Mut { .. });
                format!("{{\"k\":\"ref\",\"mut\":{},\"p\":{}}}", m, self.place(p, body))
            }
            Rvalue::RawPtr(_, p) => format!("{{\"k\":\"rawptr\",\"p\":{}}}", self.place(p, body)),
            Rvalue::Cast(ck, o, t) => {
                let mut cl = Vec::new();
                self.closures_in(*t, &mut cl);
                format!(
                    "{{\"k\":\"cast\",\"ck\":{},\"a\":{},\"ty\":{},\"from\":{}}}",
                    esc(&format!("{:?}", ck)),
                    self.operand(o, body, env),
                    esc(&t.to_string()),
                    esc(&o.ty(body, self.tcx).to_string())
                )
            }
            Rvalue::BinaryOp(op, ab) => format!(
                "{{\"k\":\"bin\",\"op\":{},\"a\":{},\"b\":{},\"aty\":{}}}",
                esc(&format!("{:?}", op)),
                self.operand(&ab.0, body, env),
                self.operand(&ab.1, body, env),
                esc(&ab.0.ty(body, self.tcx).to_string())
            ),
            Rvalue::UnaryOp(op, a) => format!(
                "{{\"k\":\"un\",\"op\":{},\"a\":{},\"aty\":{}}}",
                esc(&format!("{:?}", op)),
                self.operand(a, body, env),
                esc(&a.ty(body, self.tcx).to_string())
            ),
            Rvalue::Discriminant(p) => {
                let pty = p.ty(body, self.tcx).ty;
                let adt = match pty.kind() {
                    ty::Adt(a, _) => self.path(a.did()),
                    _ => String::new(),
                };
                format!("{{\"k\":\"discr\",\"p\":{},\"adt\":{}}}", self.place(p, body), esc(&adt))
            }
            Rvalue::Aggregate(kind, ops) => {
                let k = match &**kind {
                    AggregateKind::Array(_) => "{\"a\":\"array\"}".to_string(),
                    AggregateKind::Tuple => "{\"a\":\"tuple\"}".to_string(),
                    AggregateKind::Adt(did, v, _, _, _) => {
                        let adt = self.tcx.adt_def(*did);
                        let var = adt.variant(*v);
                        let names: Vec<String> = var.fields.iter().map(|f| esc(&f.name.to_string())).collect();
                        format!(
                            "{{\"a\":\"adt\",\"def\":{},\"v\":{},\"vn\":{},\"fields\":[{}]}}",
                            esc(&self.path(*did)),
                            v.as_u32(),
                            esc(&var.name.to_string()),
                            names.join(",")
                        )
                    }
                    AggregateKind::Closure(did, _) => format!("{{\"a\":\"closure\",\"def\":{}}}", esc(&self.path(*did))),
                    _ => "{\"a\":\"other\"}".to_string(),
                };
                let os: Vec<String> = ops.iter().map(|o| self.operand(o, body, env)).collect();
                format!("{{\"k\":\"agg\",\"kind\":{},\"ops\":[{}]}}", k, os.join(","))
            }
            Rvalue::CopyForDeref(p) => format!("{{\"k\":\"use\",\"a\":{{\"copy\":{}}}}}", self.place(p, body)),
            other => format!("{{\"k\":\"other\",\"dbg\":{}}}", esc(&format!("{:?}", other))),
        }
    }
    fn body(&self, did: DefId) -> String {
        let tcx = self.tcx;
        let body = tcx.optimized_mir(did);
        let env = TypingEnv::post_analysis(tcx, did);
        let kind = tcx.def_kind(did);
        let mut s = String::new();
        let _ = write!(
            s,
            "{{\"path\":{},\"kind\":{},\"span\":{},\"argc\":{}",
            esc(&self.path(did)),
            esc(&format!("{:?}", kind)),
            self.span(body.span),
            body.arg_count
        );
        if matches!(kind, DefKind::Fn | DefKind::AssocFn) {
            let _ = write!(s, ",\"vis\":{}", esc(&format!("{:?}", tcx.visibility(did))));
            let _ = write!(s, ",\"pubvis\":{}", tcx.visibility(did).is_public());
        }
        if let Some(name) = tcx.opt_item_name(did) {
            let _ = write!(s, ",\"name\":{}", esc(&name.to_string()));
        }
        if kind == DefKind::Closure {
            let _ = write!(s, ",\"parent\":{}", esc(&self.path(tcx.typeck_root_def_id(did))));
        }
        if kind == DefKind::AssocFn {
            if let Some(imp) = tcx.impl_of_assoc(did) {
                let self_ty = tcx.type_of(imp).instantiate_identity().skip_norm_wip();
                let _ = write!(s, ",\"impl_self\":{}", esc(&self_ty.to_string()));
                if let ty::Adt(a, _) = self_ty.kind() {
                    let _ = write!(s, ",\"impl_adt\":{}", esc(&self.path(a.did())));
                }
                if let Some(tr) = tcx.impl_opt_trait_ref(imp) {
                    let tr = tr.instantiate_identity().skip_norm_wip();
                    let _ = write!(s, ",\"impl_trait\":{},\"impl_trait_full\":{}", esc(&self.path(tr.def_id)), esc(&tr.to_string()));
                }
                let _ = write!(s, ",\"derived\":{}", tcx.is_automatically_derived(imp));
                if let Some(ti) = tcx.associated_item(did).trait_item_def_id() {
                    let _ = write!(s, ",\"trait_item\":{}", esc(&self.path(ti)));
                }
            } else if let Some(tr) = tcx.trait_of_assoc(did) {
                let _ = write!(s, ",\"in_trait\":{}", esc(&self.path(tr)));
            }
        }
        let sig_ret = body.local_decls[RETURN_PLACE].ty.to_string();
        let _ = write!(s, ",\"ret\":{}", esc(&sig_ret));
        s.push_str(",\"locals\":[");
        let mut names = std::collections::HashMap::new();
        for vdi in &body.var_debug_info {
            if let VarDebugInfoContents::Place(p) = &vdi.value {
                if p.projection.is_empty() {
                    names.entry(p.local).or_insert_with(|| vdi.name.to_string());
                }
            }
        }
        for (i, (l, d)) in body.local_decls.iter_enumerated().enumerate() {
            if i > 0 {
                s.push(',');
            }
            let _ = write!(
                s,
                "{{\"ty\":{},\"name\":{}}}",
                esc(&d.ty.to_string()),
                esc(names.get(&l).map(|x| x.as_str()).unwrap_or(""))
            );
        }
        // upvar debug names for closures: var_debug_info entries rooted at _1 with projections
        s.push_str("],\"upvars\":[");
        if kind == DefKind::Closure {
            let mut first = true;
            for vdi in &body.var_debug_info {
                if let VarDebugInfoContents::Place(p) = &vdi.value {
                    if p.local.as_u32() == 1 && !p.projection.is_empty() {
                        if !first {
                            s.push(',');
                        }
                        first = false;
                        let _ = write!(s, "{{\"name\":{},\"place\":{}}}", esc(&vdi.name.to_string()), self.place(p, body));
                    }
                }
            }
        }
        s.push_str("],\"blocks\":[");
        for (bi, (_bb, data)) in body.basic_blocks.iter_enumerated().enumerate() {
            if bi > 0 {
                s.push(',');
            }
            let _ = write!(s, "{{\"cleanup\":{},\"stmts\":[", data.is_cleanup);
            let mut first = true;
            for st in &data.statements {
                let js = match &st.kind {
                    StatementKind::Assign(b) => Some(format!(
                        "{{\"lhs\":{},\"rv\":{},\"sp\":{}}}",
                        self.place(&b.0, body),
                        self.rvalue(&b.1, body, env),
                        self.span(st.source_info.span)
                    )),
                    StatementKind::SetDiscriminant { place, variant_index } => Some(format!(
                        "{{\"setdiscr\":{},\"v\":{},\"sp\":{}}}",
                        self.place(place, body),
                        variant_index.as_u32(),
                        self.span(st.source_info.span)
                    )),
                    _ => None,
                };
                if let Some(js) = js {
                    if !first {
                        s.push(',');
                    }
                    first = false;
                    s.push_str(&js);
                }
            }
            s.push_str("],\"term\":");
            let t = data.terminator();
            let sp = self.span(t.source_info.span);
            match &t.kind {
                TerminatorKind::Goto { target } => {
                    let _ = write!(s, "{{\"k\":\"goto\",\"t\":{}}}", target.as_u32());
                }
                TerminatorKind::SwitchInt { discr, targets } => {
                    let arms: Vec<String> = targets.iter().map(|(v, t)| format!("[\"{}\",{}]", v, t.as_u32())).collect();
                    let _ = write!(
                        s,
                        "{{\"k\":\"switch\",\"d\":{},\"dty\":{},\"arms\":[{}],\"otherwise\":{},\"sp\":{}}}",
                        self.operand(discr, body, env),
                        esc(&discr.ty(body, tcx).to_string()),
                        arms.join(","),
                        targets.otherwise().as_u32(),
                        sp
                    );
                }
                TerminatorKind::Return => {
                    let _ = write!(s, "{{\"k\":\"return\",\"sp\":{}}}", sp);
                }
                TerminatorKind::Unreachable => s.push_str("{\"k\":\"unreachable\"}"),
                TerminatorKind::UnwindResume => s.push_str("{\"k\":\"resume\"}"),
                TerminatorKind::Drop { place, target, .. } => {
                    let _ = write!(
                        s,
                        "{{\"k\":\"drop\",\"p\":{},\"pty\":{},\"t\":{},\"sp\":{}}}",
                        self.place(place, body),
                        esc(&place.ty(body, tcx).ty.to_string()),
                        target.as_u32(),
                        sp
                    );
                }
                TerminatorKind::Assert { cond, expected, msg, target, .. } => {
                    let (kind, ops): (String, Vec<String>) = match &**msg {
                        AssertKind::BoundsCheck { len, index } => {
                            ("BoundsCheck".into(), vec![self.operand(len, body, env), self.operand(index, body, env)])
                        }
                        AssertKind::Overflow(op, a, b) => (
                            format!("Overflow:{:?}", op),
                            vec![self.operand(a, body, env), self.operand(b, body, env)],
                        ),
                        AssertKind::OverflowNeg(a) => ("OverflowNeg".into(), vec![self.operand(a, body, env)]),
                        AssertKind::DivisionByZero(a) => ("DivisionByZero".into(), vec![self.operand(a, body, env)]),
                        AssertKind::RemainderByZero(a) => ("RemainderByZero".into(), vec![self.operand(a, body, env)]),
                        other => (
                            format!("{:?}", other).split(|c: char| !c.is_alphanumeric()).next().unwrap_or("").to_string(),
                            vec![],
                        ),
                    };
                    let opty = match &**msg {
                        AssertKind::Overflow(_, a, _) => a.ty(body, tcx).to_string(),
                        _ => String::new(),
                    };
                    let _ = write!(
                        s,
                        "{{\"k\":\"assert\",\"cond\":{},\"expected\":{},\"kind\":{},\"ops\":[{}],\"opty\":{},\"t\":{},\"sp\":{}}}",
                        self.operand(cond, body, env),
                        expected,
                        esc(&kind),
                        ops.join(","),
                        esc(&opty),
                        target.as_u32(),
                        sp
                    );
                }
                TerminatorKind::Call { func, args, destination, target, fn_span, .. } => {
                    let fty = func.ty(body, tcx);
                    let mut closures = Vec::new();
                    let (callee, callee_args, resolved, rcrate, has_mir, gargs) = if let ty::FnDef(cd, ga) = fty.kind() {
                        let res = Instance::try_resolve(tcx, env, *cd, ga).ok().flatten();
                        let rdid = res.map(|i| i.def_id());
                        for a in ga.iter() {
                            if let GenericArgKind::Type(t) = a.kind() {
                                self.closures_in(t, &mut closures);
                            }
                        }
                        let gs: Vec<String> = ga
                            .iter()
                            .filter_map(|a| match a.kind() {
                                GenericArgKind::Type(t) => Some(esc(&t.to_string())),
                                GenericArgKind::Const(c) => Some(esc(&format!("{}", c))),
                                _ => None,
                            })
                            .collect();
                        (
                            self.path(*cd),
                            tcx.def_path_str_with_args(*cd, ga),
                            rdid.map(|d| self.path(d)).unwrap_or_default(),
                            rdid.map(|d| tcx.crate_name(d.krate).to_string()).unwrap_or_default(),
                            rdid.map(|d| tcx.is_mir_available(d)).unwrap_or(false),
                            gs,
                        )
                    } else {
                        (format!("<indirect {}>", fty), String::new(), String::new(), String::new(), false, vec![])
                    };
                    let os: Vec<String> = args.iter().map(|a| self.operand(&a.node, body, env)).collect();
                    let atys: Vec<String> = args.iter().map(|a| esc(&a.node.ty(body, tcx).to_string())).collect();
                    let cls: Vec<String> = closures.iter().map(|c| esc(c)).collect();
                    let _ = write!(
                        s,
                        "{{\"k\":\"call\",\"callee\":{},\"callee_args\":{},\"resolved\":{},\"rcrate\":{},\"has_mir\":{},\"gargs\":[{}],\"closures\":[{}],\"func\":{},\"args\":[{}],\"atys\":[{}],\"dest\":{},\"t\":{},\"sp\":{},\"fsp\":{}}}",
                        esc(&callee),
                        esc(&callee_args),
                        esc(&resolved),
                        esc(&rcrate),
                        has_mir,
                        gs_join(&gargs),
                        cls.join(","),
                        self.operand(func, body, env),
                        os.join(","),
                        atys.join(","),
                        self.place(destination, body),
                        target.map(|t| t.as_u32() as i64).unwrap_or(-1),
                        sp,
                        self.span(*fn_span)
                    );
                }
                other => {
                    let _ = write!(
                        s,
                        "{{\"k\":\"other\",\"dbg\":{}}}",
                        esc(&format!("{:?}", other).chars().take(60).collect::<String>())
                    );
                }
            }
            s.push('}');
        }
        s.push_str("]}");
        s
    }

    fn docs(&self, did: DefId) -> String {
        let mut out = String::new();
        for a in self.tcx.get_all_attrs(did) {
            if let Some(sym) = a.doc_str() {
                out.push_str(sym.as_str());
                out.push('\n');
            }
        }
        out
    }
}

fn gs_join(v: &[String]) -> String {
    v.join(",")
}

struct Cb;
impl rustc_driver::Callbacks for Cb {
    fn after_analysis<'tcx>(&mut self, _c: &rustc_interface::interface::Compiler, tcx: TyCtxt<'tcx>) -> Compilation {
        let out_dir = match std::env::var("TSA_OUT") {
            Ok(d) => d,
            Err(_) => return Compilation::Continue,
        };
        let krate = tcx.crate_name(LOCAL_CRATE).to_string();
        if krate.starts_with("build_script") {
            return Compilation::Continue;
        }
        let crate_types: Vec<String> = tcx.crate_types().iter().map(|c| format!("{:?}", c)).collect();
        let kind = if crate_types.iter().any(|c| c == "Executable") { "bin" } else { "lib" };
        let out = with_resolve_crate_name!(with_no_trimmed_paths!(with_no_visible_paths!(emit(tcx, &krate, kind))));
        std::fs::create_dir_all(&out_dir).ok();
        let fin = format!("{out_dir}/{krate}.{kind}.facts.json");
        let tmp = format!("{fin}.tmp{}", std::process::id());
        std::fs::write(&tmp, out).expect("tsa: cannot write facts");
        std::fs::rename(&tmp, &fin).expect("tsa: cannot rename facts");
        Compilation::Continue
    }
}

fn emit<'tcx>(tcx: TyCtxt<'tcx>, krate: &str, kind: &str) -> String {
    let cx = Cx { tcx };
    let mut out = String::from("{\"crate\":");
    out.push_str(&esc(krate));
    let _ = write!(out, ",\"kind\":{}", esc(kind));
    // unsafe_code lint level at the crate root (Forbid means rustc itself rejects any unsafe)
    let cattrs: Vec<String> = tcx
        .hir_krate_attrs()
        .iter()
        .map(|a| esc(&format!("{:?}", a).chars().take(400).collect::<String>()))
        .collect();
    let _ = write!(out, ",\"crate_attrs\":[{}]", cattrs.join(","));
    let largs: Vec<String> = std::env::args()
        .filter(|a| a.starts_with("--deny") || a.starts_with("--forbid") || a.starts_with("--allow=unsafe") || a.starts_with("--cfg") || a.starts_with("-C"))
        .map(|a| esc(&a))
        .collect();
    let _ = write!(out, ",\"cmdline\":[{}]", largs.join(","));
    let _ = write!(out, ",\"overflow_checks\":{}", tcx.sess.overflow_checks());
    let _ = write!(out, ",\"debug_assertions\":{}", tcx.sess.opts.debug_assertions);
    out.push_str(",\"fns\":[");
    let mut first = true;
    for def in tcx.mir_keys(()) {
        let did = def.to_def_id();
        if !matches!(tcx.def_kind(did), DefKind::Fn | DefKind::AssocFn | DefKind::Closure) {
            continue;
        }
        if !first {
            out.push(',');
        }
        first = false;
        out.push_str(&cx.body(did));
    }
    out.push_str("],\"adts\":[");
    let mut first = true;
    for id in tcx.hir_crate_items(()).definitions() {
        let did = id.to_def_id();
        if !matches!(tcx.def_kind(did), DefKind::Struct | DefKind::Enum) {
            continue;
        }
        let adt = tcx.adt_def(did);
        if !first {
            out.push(',');
        }
        first = false;
        let _ = write!(
            out,
            "{{\"path\":{},\"enum\":{},\"vis\":{},\"span\":{},\"variants\":[",
            esc(&cx.path(did)),
            adt.is_enum(),
            esc(&format!("{:?}", tcx.visibility(did))),
            cx.span(tcx.def_span(did))
        );
        for (vi, v) in adt.variants().iter_enumerated() {
            if vi.as_u32() > 0 {
                out.push(',');
            }
            let discr = if adt.is_enum() { adt.discriminant_for_variant(tcx, vi).val.to_string() } else { "0".into() };
            let _ = write!(out, "{{\"name\":{},\"discr\":\"{}\",\"fields\":[", esc(&v.name.to_string()), discr);
            for (fi, f) in v.fields.iter().enumerate() {
                if fi > 0 {
                    out.push(',');
                }
                let fty0 = tcx.type_of(f.did).instantiate_identity();
                let fty = tcx
                    .try_normalize_erasing_regions(TypingEnv::post_analysis(tcx, did), fty0)
                    .unwrap_or(fty0.skip_norm_wip());
                let adt_of = match fty.kind() {
                    ty::Adt(a, _) => cx.path(a.did()),
                    _ => String::new(),
                };
                let _ = write!(
                    out,
                    "{{\"name\":{},\"ty\":{},\"adt\":{},\"vis\":{},\"pub\":{},\"doc\":{}}}",
                    esc(&f.name.to_string()),
                    esc(&fty.to_string()),
                    esc(&adt_of),
                    esc(&format!("{:?}", f.vis)),
                    f.vis.is_public(),
                    esc(&cx.docs(f.did))
                );
            }
            out.push_str("]}");
        }
        out.push_str("]}");
    }
    // constants and statics with scalar values
    out.push_str("],\"consts\":[");
    let mut first = true;
    for id in tcx.hir_crate_items(()).definitions() {
        let did = id.to_def_id();
        let dk = tcx.def_kind(did);
        if !matches!(dk, DefKind::Const { .. } | DefKind::AssocConst { .. }) {
            continue;
        }
        // only non-generic consts can be evaluated here
        if tcx.generics_of(did).requires_monomorphization(tcx) {
            continue;
        }
        let ty = tcx.type_of(did).instantiate_identity().skip_norm_wip();
        let mut val = String::new();
        let mut dbg = String::new();
        if let Ok(v) = tcx.const_eval_poly(did) {
            if let Some(si) = v.try_to_scalar_int() {
                val = si.to_bits(si.size()).to_string();
            }
            let d = format!("{:?}", v);
            if d.len() < 200 {
                dbg = d;
            }
        }
        if !first {
            out.push(',');
        }
        first = false;
        let mut pb = String::new();
        if val.is_empty() {
            let args = ty::GenericArgs::identity_for_item(tcx, did);
            let uv = rustc_middle::mir::UnevaluatedConst::new(did, args);
            let k = Const::Unevaluated(uv, ty);
            if let Some(b) = cx.const_bytes2(k, TypingEnv::post_analysis(tcx, did)) {
                pb = b.iter().map(|x| format!("{:02x}", x)).collect();
            }
        }
        let _ = write!(
            out,
            "{{\"path\":{},\"ty\":{},\"bits\":{},\"pbytes\":{},\"dbg\":{},\"span\":{}}}",
            esc(&cx.path(did)),
            esc(&ty.to_string()),
            esc(&val),
            esc(&pb),
            esc(&dbg),
            cx.span(tcx.def_span(did))
        );
    }
    // trait impls: which local type implements which trait (for virtual edges)
    out.push_str("],\"impls\":[");
    let mut first = true;
    for id in tcx.hir_crate_items(()).definitions() {
        let did = id.to_def_id();
        if !matches!(tcx.def_kind(did), DefKind::Impl { .. }) {
            continue;
        }
        let self_ty = tcx.type_of(did).instantiate_identity().skip_norm_wip();
        let tr = tcx.impl_opt_trait_ref(did).map(|t| t.instantiate_identity().skip_norm_wip());
        if !first {
            out.push(',');
        }
        first = false;
        let adt = match self_ty.kind() {
            ty::Adt(a, _) => cx.path(a.did()),
            _ => String::new(),
        };
        let mut items = Vec::new();
        for it in tcx.associated_items(did).in_definition_order() {
            if it.is_fn() {
                items.push(format!(
                    "{{\"name\":{},\"path\":{},\"trait_item\":{}}}",
                    esc(&it.name().to_string()),
                    esc(&cx.path(it.def_id)),
                    esc(&it.trait_item_def_id().map(|d| cx.path(d)).unwrap_or_default())
                ));
            }
        }
        let _ = write!(
            out,
            "{{\"self\":{},\"adt\":{},\"trait\":{},\"trait_full\":{},\"derived\":{},\"items\":[{}],\"span\":{}}}",
            esc(&self_ty.to_string()),
            esc(&adt),
            esc(&tr.map(|t| cx.path(t.def_id)).unwrap_or_default()),
            esc(&tr.map(|t| t.to_string()).unwrap_or_default()),
            tcx.is_automatically_derived(did),
            items.join(","),
            cx.span(tcx.def_span(did))
        );
    }
    out.push_str("]}");
    out
}

fn main() {
    let mut args: Vec<String> = std::env::args().collect();
    // RUSTC_WORKSPACE_WRAPPER: argv[1] is the path of the real rustc
    args.remove(1);
    rustc_driver::run_compiler(&args, &mut Cb);
}
